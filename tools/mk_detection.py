import json, os, glob, re
cur = json.load(open('/tmp/seed2/matrix_final.json'))
fro = {}
for f in glob.glob('/tmp/seed2/frozen_C*.out'):
    for l in open(f):
        m = re.match(r'(C\d+) on (C\d+-\d) \[[^\]]*\]: (DETECTED|missed)', l)
        if m:
            fro[m.group(2)] = m.group(3)
FROZEN4 = {"C02-7": "missed (C03.D5 fired, none under C02)", "C02-8": "missed (C11.D4 fired, none under C02)", "C04-7": "detected", "C04-8": "missed", "C07-7": "missed", "C08-7": "missed", "C08-8": "missed", "C09-7": "detected", "C09-8": "detected", "C17-7": "missed", "C17-8": "missed"}
FROZEN5 = {"C03-9": "missed", "C03-10": "missed", "C06-9": "missed", "C06-10": "detected", "C12-9": "detected", "C12-10": "missed", "C14-9": "missed", "C14-10": "missed", "C16-9": "missed", "C16-10": "missed", "C19-9": "detected"}
FROZEN3 = "C01-6 C03-5 C03-6 C05-6 C06-5 C06-6 C10-5 C11-6 C14-6 C15-5 C16-5 C18-6 C19-5 C19-6 C20-6".split()
out = ["# Seeded changes and which check catches them", "",
       "One line per seeded change kept in this directory. `frozen` = verdict of the rules as they stood *before* the change was looked at",
       "(round 1: first version of the check, see DESIGN 9.6; round 2: commit 302341a; round 3: commit 60c9ce5; round 4: commit 56a70cf; round 5: commit 0f6c2fe);",
       "`now` = committed rules, first rule instances that fire. Generated from facts of private scratch copies (`bin/verif patched-facts`, `on-facts`).", "",
       "| seed | round | frozen | now |", "|---|---|---|---|"]
for d in sorted(os.listdir('/verif/seeded')):
    if not re.match(r'C\d+-\d+$', d):
        continue
    k = int(d.split('-')[1])
    rnd = 1 if k <= 2 else 2 if k <= 4 else 3 if k <= 6 else 4 if k <= 8 else 5
    if rnd == 1:
        fz = "see DESIGN 9.6"
    elif rnd == 2:
        fz = fro.get(d, "?").lower()
    elif rnd == 3:
        fz = "detected" if d in FROZEN3 else "missed"
    elif rnd == 4:
        fz = FROZEN4.get(d, "?")
    else:
        fz = FROZEN5.get(d, "?")
    v = cur.get(d)
    if v is None:
        now = "not applicable to the current tree (patch does not apply)" if d == "C15-1" else "?"
    else:
        now = ("`" + "`, `".join(v[:2]) + "`" + (" (+%d)" % (len(v) - 2) if len(v) > 2 else "")) if v else "**missed**"
    out.append("| %s | %d | %s | %s |" % (d, rnd, fz, now))
open('/verif/seeded/DETECTION.md', 'w').write("\n".join(out) + "\n")
print(len(out) - 8, "rows")
