#!/bin/bash
# try_seed.sh <patch.diff> <prop> [<prop>...] : apply a seeded change to /repo, run the quick checks, undo it
P=$1; shift
cd /repo || exit 3
if [ -n "$(git status --porcelain -- src Cargo.toml)" ]; then echo "repo dirty"; exit 3; fi
trap 'git -C /repo checkout -- . ' EXIT
git apply "$P" || { echo "patch does not apply"; exit 3; }
for prop in "$@"; do
  /verif/bin/verif check $prop --tier quick 2>&1 | grep -v "^WARNING" | head -${LINES_MAX:-25}
  echo "exit=${PIPESTATUS[0]}"
done
