"""frozen_measure.py <verif tree> <seed name> <prop> : run the rule module of <verif tree> over /tmp/seedfacts/<seed>"""
import sys, json
tree, seed, prop = sys.argv[1:4]
sys.path.insert(0, tree)
from sa.facts import Facts
from sa.engine import Ctx
import importlib
F = Facts('/tmp/seedfacts/' + seed)
m = importlib.import_module('sa.rules.' + prop)
ctx = Ctx(F, prop, 'quick'); m.run(ctx)
known = set()
try:
    for k in json.load(open(tree + '/known_findings.json'))['findings']:
        if k.get('property') == prop and k.get('status') == 'known':
            known.add(k['key'])
except Exception:
    pass
v = [i for i in ctx.instances if i.status in ('violation', 'anchor-lost') and i.key not in known]
print("%s on %s [%s]: %s %s" % (prop, seed, tree, "DETECTED" if v else "missed", [i.key for i in v][:4]))
