#!/bin/bash
# confirm_seed.sh <src-dir with patch.diff demo.diff> <name> <demo test args...>
# Confirms: mutated tree passes the full suite; demo fails on the mutated tree; demo passes on the clean tree.
# Uses a scratch worktree of /repo under /tmp/confirm and a shared target dir; removes the worktree afterwards.
set -u
SRC=$1; NAME=$2; shift 2
WT=/tmp/confirm/wt_$NAME
export CARGO_TARGET_DIR=/tmp/confirm/target
export CARGO_NET_OFFLINE=true
mkdir -p /tmp/confirm
git -C /repo worktree remove --force $WT 2>/dev/null
git -C /repo worktree add -q --detach $WT HEAD || exit 3
cd $WT
LOG=/tmp/confirm/$NAME.log; : > $LOG
res() { echo "$1" | tee -a $LOG; }
git apply $SRC/patch.diff || { res "RESULT $NAME patch-does-not-apply"; git -C /repo worktree remove --force $WT; exit 1; }
cargo test --workspace --no-fail-fast --offline -j 8 >> $LOG 2>&1; S=$?
PASSED=$(grep -E "^test result" $LOG | awk '{s+=$4} END{print s}')
FAILED=$(grep -E "^test result" $LOG | awk '{s+=$6} END{print s}')
res "SUITE-WITH-MUTATION exit=$S passed=$PASSED failed=$FAILED"
git apply $SRC/demo.diff || { res "RESULT $NAME demo-does-not-apply-on-mutated"; git -C /repo worktree remove --force $WT; exit 1; }
cargo test --offline -j 8 "$@" >> $LOG 2>&1; D1=$?
res "DEMO-ON-MUTATED exit=$D1 (expected non-zero)"
git apply -R $SRC/patch.diff || { res "RESULT $NAME cannot-revert"; }
cargo test --offline -j 8 "$@" >> $LOG 2>&1; D2=$?
NDEMO=$(tail -30 $LOG | grep -E "^test result" | awk '{s+=$4} END{print s}')
res "DEMO-ON-CLEAN exit=$D2 ran=$NDEMO (expected 0, >=1 test)"
if [ $S -eq 0 ] && [ "$FAILED" = "0" ] && [ $D1 -ne 0 ] && [ $D2 -eq 0 ] && [ "${NDEMO:-0}" -ge 1 ]; then res "RESULT $NAME CONFIRMED"; else res "RESULT $NAME NOT-CONFIRMED"; fi
cd /; git -C /repo worktree remove --force $WT
