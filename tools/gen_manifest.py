#!/usr/bin/env python3
"""Regenerates MANIFEST.json from sa/manifest_data.py (claimed = rule module exists and is listed)."""
import json, os, sys
sys.path.insert(0, os.path.dirname(os.path.dirname(os.path.abspath(__file__))))
from sa.manifest_data import CLAIMS, NOT_APPLICABLE
props = [json.loads(l)["id"] for l in open("/verif/properties.jsonl")]
checks = []
for pid in props:
    if pid in CLAIMS and os.path.exists("/verif/sa/rules/%s.py" % pid):
        c = CLAIMS[pid]
        checks.append({
            "property_id": pid,
            "quick_cmd": "bin/verif check %s --tier quick" % pid,
            "thorough_cmd": "bin/verif check %s --tier thorough" % pid,
            "evidence_file": "/verif/evidence/%s.json" % pid,
            "replay_cmd_template": "bin/verif explain {path}",
            "engine": "umfacts+sa",
            "level_claimed": {"category": "other", "text": c["text"], "design_ref": "DESIGN.md §5 %s" % pid},
            "level_note": c["note"],
            "technique": c["technique"],
        })
na = []
for pid in props:
    if pid not in [c["property_id"] for c in checks]:
        na.append({"property_id": pid, "reason": NOT_APPLICABLE.get(pid, "rules designed (DESIGN.md §5) but not built yet")})
m = {
    "version": 1,
    "setup_cmd": "bin/verif setup",
    "hooks": {"guard": "undermoon_verif", "enable": "none: static analysis of the unmodified sources; no hook is compiled into /repo",
              "baseline_off_cmd": "cd /repo && cargo test --workspace --no-fail-fast --offline", "source_commits": [], "add_only": True},
    "engines": [{"name": "umfacts+sa", "path": "/verif/driver, /verif/sa", "serves_properties": [c["property_id"] for c in checks],
                 "kind_free_text": "rustc_private MIR fact extractor (nightly, RUSTC_WORKSPACE_WRAPPER) + Python analyses: CFG dominance/path rules, def-use slices, who-may-write scans, conditional constant propagation over enumerated finite domains, call-graph reachability"}],
    "checks": checks,
    "notes": "Static analysis only. Every check re-extracts MIR facts from /repo's current working tree when its content hash changed (about 15 s), then decides rule instances located semantically in those facts. Level 'other': necessary structural conditions are decided on all paths of the code; the behavioural remainder of each property is listed as not decided in DESIGN.md §5.",
    "not_applicable": na,
}
json.dump(m, open("/verif/MANIFEST.json", "w"), indent=1)
print("claimed:", [c["property_id"] for c in checks])
