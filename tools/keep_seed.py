#!/usr/bin/env python3
"""keep_seed.py <srcdir> <name> <property> <demo cmd...> : copy a confirmed seeded change into /verif/seeded/<name>/"""
import json, os, shutil, sys, re
src, name, prop = sys.argv[1:4]
demo_cmd = " ".join(sys.argv[4:])
dst = "/verif/seeded/%s" % name
os.makedirs(dst, exist_ok=True)
for f in ("patch.diff", "demo.diff", "README.md"):
    shutil.copy(os.path.join(src, f), os.path.join(dst, f))
log = "/tmp/confirm/%s.log" % name
if not os.path.exists(log):
    log = "/tmp/confirm/%s.log" % name.replace("-", "_m")
conf = []
if os.path.exists(log):
    conf = [l.strip() for l in open(log) if l.startswith(("SUITE-", "DEMO-", "RESULT"))]
readme = open(os.path.join(src, "README.md")).read()
needs = ""
mm = re.search(r"(?is)(needs?[^\n]*\n.*?)(\n#|\n\*\*|\Z)", readme)
meta = {
    "property": prop,
    "source": "independent sub-agent given only the property text and a scratch worktree",
    "needs_to_manifest": "see README.md (written by the sub-agent)",
    "demonstration": {"patch": "demo.diff", "command": "cargo test --offline " + demo_cmd},
    "confirmed_by_me": {"how": "tools/confirm_seed.sh in a scratch worktree under /tmp/confirm (removed afterwards): mutated tree passes the 146-test suite, demo fails on the mutated tree, demo passes on the clean tree", "log": conf},
}
json.dump(meta, open(os.path.join(dst, "meta.json"), "w"), indent=1)
print("kept", dst, conf[-1:] )
