#!/bin/bash
# run_negative_controls.sh : every diff under negative_controls/ -> facts of a private scratch copy -> all quick rules; any violation is a false alarm
cd /verif
rc=0
mkdir -p ${TMPDIR:-/tmp}/verif-negctl-scratch
for d in negative_controls/*.diff; do
  n=$(basename $d .diff)
  out=${TMPDIR:-/tmp}/verif-negctl-$n
  TMPDIR=${TMPDIR:-/tmp}/verif-negctl-scratch bin/verif patched-facts $d $out 2>&1 | grep -v WARNING | tail -2
  r=$(bin/verif on-facts $out C01 C02 C03 C04 C05 C06 C07 C08 C09 C10 C11 C12 C13 C14 C15 C16 C17 C18 C19 C20 2>&1 | grep -v WARNING | grep -v " 0 violation")
  if [ -n "$r" ]; then echo "FALSE ALARM on $n:"; echo "$r"; rc=1; else echo "$n: silent"; fi
  rm -rf $out
done
exit $rc
