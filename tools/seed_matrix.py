"""matrix.py <verif tree> <label> : for every seed facts dir run its own property's rules from <verif tree>; write /tmp/seed2/matrix_<label>.json"""
import sys, json, os, importlib
tree, label = sys.argv[1:3]
only = set(sys.argv[3:])
sys.path.insert(0, tree)
from sa.facts import Facts
from sa.engine import Ctx
known = {}
try:
    for k in json.load(open(tree + '/known_findings.json'))['findings']:
        if k.get('status') == 'known':
            known.setdefault(k['property'], set()).add(k['key'])
except Exception:
    pass
out = {}
for seed in sorted(os.listdir('/tmp/seedfacts')):
    if only and seed not in only:
        continue
    d = '/tmp/seedfacts/' + seed
    if not os.path.exists(d + '/tree.ok'):
        continue
    prop = seed.split('-')[0]
    try:
        F = Facts(d)
        m = importlib.import_module('sa.rules.' + prop)
        ctx = Ctx(F, prop, 'quick'); m.run(ctx)
        v = [i.key for i in ctx.instances if i.status in ('violation', 'anchor-lost') and i.key not in known.get(prop, ())]
        out[seed] = v
    except Exception as e:
        out[seed] = ['EXC %r' % e]
    print(seed, 'DETECTED' if out[seed] else 'missed', out[seed][:3], flush=True)
json.dump(out, open('/tmp/seed2/matrix_%s.json' % label, 'w'), indent=1)
