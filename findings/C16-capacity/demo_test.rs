
    // Demonstration for the C16 allocation finding (kept in /verif/findings).
    #[test]
    fn demo_c16_huge_declared_array_length_does_not_allocate() {
        let r = parse_resp(b"*9223372036854775807\r\n");
        assert!(matches!(r, Err(ParseError::NotEnoughData)));
        let r = parse_resp(b"*1152921504606846975\r\n$1\r\na\r\n");
        assert!(matches!(r, Err(ParseError::NotEnoughData)));
    }
