
    // Demonstration for the C15 framing finding (kept in /verif/findings).
    #[test]
    fn demo_c15_bytes_after_bulk_payload_must_be_crlf() {
        // one byte of payload declared, but "XY" where CR LF must be
        assert!(matches!(parse_resp(b"$1\r\naXY"), Err(ParseError::InvalidProtocol)));
        assert!(matches!(parse_resp(b"$11\r\nhello\r\nworld\r\n"), Err(ParseError::InvalidProtocol)));
        assert!(matches!(parse_resp(b"+OK\n"), Err(ParseError::InvalidProtocol)));
        assert!(parse_resp(b"$1\r\na\r\n").is_ok());
        assert!(matches!(parse_resp(b"$1\r\na\r"), Err(ParseError::NotEnoughData)));
        assert!(matches!(parse_resp(b"+OK\r"), Err(ParseError::NotEnoughData)));
    }
