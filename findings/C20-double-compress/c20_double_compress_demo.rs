extern crate undermoon;

mod redis_client;

// End to end check of the value compression:
// commands go through the real `SharedForwardHandler`
// and are stored by a binary safe in-memory Redis stand-in.
#[cfg(test)]
mod tests {
    use super::*;

    use arc_swap::ArcSwap;
    use futures::channel::mpsc;
    use futures::{Future, SinkExt, StreamExt, TryStreamExt};
    use redis_client::DummyClientFactory;
    use std::collections::HashMap;
    use std::net::SocketAddr;
    use std::num::NonZeroUsize;
    use std::pin::Pin;
    use std::str;
    use std::sync::atomic::{AtomicBool, AtomicI64, AtomicU64};
    use std::sync::{Arc, Mutex};
    use std::time::Duration;
    use undermoon::common::batch::BatchStrategy;
    use undermoon::common::response::ERR_BACKEND_CONNECTION;
    use undermoon::common::track::TrackedFutureRegistry;
    use undermoon::protocol::{Array, BinSafeStr, BulkStr, Resp, RespPacket, RespVec};
    use undermoon::proxy::backend::{
        BackendError, ConnFactory, ConnSink, ConnStream, CreateConnResult,
    };
    use undermoon::proxy::command::{new_command_pair, Command};
    use undermoon::proxy::executor::SharedForwardHandler;
    use undermoon::proxy::manager::MetaMap;
    use undermoon::proxy::service::{ClusterNodesVersion, ServerProxyConfig};
    use undermoon::proxy::session::{CmdCtx, CmdCtxHandler};
    use undermoon::proxy::slowlog::SlowRequestLogger;

    macro_rules! args {
        ($($x:expr),* $(,)?) => {
            vec![$(&$x[..]),*]
        };
    }

    #[derive(Default)]
    struct RedisState {
        kv: HashMap<BinSafeStr, BinSafeStr>,
        // All the commands received by the stand-in.
        log: Vec<Vec<BinSafeStr>>,
    }

    type SharedRedisState = Arc<Mutex<RedisState>>;

    fn bulk(data: Option<BinSafeStr>) -> RespVec {
        match data {
            Some(d) => Resp::Bulk(BulkStr::Str(d)),
            None => Resp::Bulk(BulkStr::Nil),
        }
    }

    fn ok() -> RespVec {
        Resp::Simple(b"OK".to_vec())
    }

    fn handle_redis_cmd(state: &SharedRedisState, cmd: Vec<BinSafeStr>) -> RespVec {
        let mut state = state.lock().unwrap();
        state.log.push(cmd.clone());
        let name = str::from_utf8(&cmd[0]).unwrap().to_uppercase();
        match name.as_str() {
            "SET" => {
                let nx = cmd[3..].iter().any(|o| o.eq_ignore_ascii_case(b"NX"));
                if nx && state.kv.contains_key(&cmd[1]) {
                    return bulk(None);
                }
                state.kv.insert(cmd[1].clone(), cmd[2].clone());
                ok()
            }
            "SETEX" | "PSETEX" => {
                state.kv.insert(cmd[1].clone(), cmd[3].clone());
                ok()
            }
            "SETNX" => {
                if state.kv.contains_key(&cmd[1]) {
                    return Resp::Integer(b"0".to_vec());
                }
                state.kv.insert(cmd[1].clone(), cmd[2].clone());
                Resp::Integer(b"1".to_vec())
            }
            "GETSET" => bulk(state.kv.insert(cmd[1].clone(), cmd[2].clone())),
            "GET" => bulk(state.kv.get(&cmd[1]).cloned()),
            "MSETNX" => {
                let exists = cmd[1..]
                    .chunks(2)
                    .any(|pair| state.kv.contains_key(&pair[0]));
                if exists {
                    return Resp::Integer(b"0".to_vec());
                }
                for pair in cmd[1..].chunks(2) {
                    state.kv.insert(pair[0].clone(), pair[1].clone());
                }
                Resp::Integer(b"1".to_vec())
            }
            _ => ok(),
        }
    }

    struct StoringConnFactory {
        state: SharedRedisState,
    }

    impl ConnFactory for StoringConnFactory {
        type Pkt = RespPacket;

        fn create_conn(
            &self,
            _addr: SocketAddr,
        ) -> Pin<Box<dyn Future<Output = CreateConnResult<Self::Pkt>> + Send>> {
            let (sender, receiver) = mpsc::unbounded();
            let state = self.state.clone();
            let receiver = receiver.map(move |packet: RespPacket| {
                let cmd: Vec<BinSafeStr> = match packet.to_resp_vec() {
                    Resp::Arr(Array::Arr(resps)) => resps
                        .into_iter()
                        .map(|resp| match resp {
                            Resp::Bulk(BulkStr::Str(s)) => s,
                            _ => panic!("unexpected command element"),
                        })
                        .collect(),
                    _ => panic!("unexpected command"),
                };
                Ok::<_, ()>(RespPacket::Data(handle_redis_cmd(&state, cmd)))
            });
            let sink: ConnSink<RespPacket> =
                Box::pin(sender.sink_map_err(|_| BackendError::Canceled));
            let stream: ConnStream<RespPacket> =
                Box::pin(receiver.map_err(|_| BackendError::Canceled));
            Box::pin(async { Ok((sink, stream)) })
        }
    }

    type TestHandler = SharedForwardHandler<DummyClientFactory, StoringConnFactory>;

    fn gen_config_with(active_redirection: bool) -> ServerProxyConfig {
        ServerProxyConfig {
            address: "127.0.0.1:5299".to_string(),
            announce_address: "127.0.0.1:5299".to_string(),
            announce_host: "127.0.0.1".to_string(),
            slowlog_len: NonZeroUsize::new(1024).unwrap(),
            slowlog_log_slower_than: AtomicI64::new(0),
            slowlog_sample_rate: AtomicU64::new(1),
            thread_number: NonZeroUsize::new(2).unwrap(),
            backend_conn_num: NonZeroUsize::new(1).unwrap(),
            active_redirection,
            max_redirections: None,
            default_redirection_address: None,
            backend_batch_strategy: BatchStrategy::Fixed,
            backend_flush_size: NonZeroUsize::new(1024).unwrap(),
            backend_low_flush_interval: Duration::from_nanos(200_000),
            backend_high_flush_interval: Duration::from_nanos(800_000),
            session_timeout: None,
            backend_timeout: Duration::from_secs(3),
            password: None,
            command_cluster_nodes_version: ClusterNodesVersion::V2,
        }
    }

    fn gen_handler(state: SharedRedisState) -> TestHandler {
        gen_handler_with(state, false)
    }

    fn gen_handler_with(state: SharedRedisState, active_redirection: bool) -> TestHandler {
        let config = Arc::new(gen_config_with(active_redirection));
        let client_factory = Arc::new(DummyClientFactory::new(Arc::new(|_: Vec<String>| ok())));
        let conn_factory = Arc::new(StoringConnFactory { state });
        let meta_map = Arc::new(ArcSwap::new(Arc::new(MetaMap::empty())));
        let future_registry = Arc::new(TrackedFutureRegistry::default());
        let slow_request_logger = Arc::new(SlowRequestLogger::new(config.clone()));
        let (stopped_sender, _stopped_receiver) = mpsc::unbounded();
        SharedForwardHandler::new(
            config,
            client_factory,
            slow_request_logger,
            meta_map,
            conn_factory,
            future_registry,
            stopped_sender,
        )
    }

    async fn exec(handler: &TestHandler, args: Vec<&[u8]>) -> RespVec {
        let arr = args
            .into_iter()
            .map(|a| Resp::Bulk(BulkStr::Str(a.to_vec())))
            .collect();
        let request = RespPacket::Data(Resp::Arr(Array::Arr(arr)));
        let command = Command::new(Box::new(request));
        let (s, r) = new_command_pair(&command);
        let cmd_ctx = CmdCtx::new(command, s, 233, false);
        let authenticated = AtomicBool::new(true);
        let reply = handler
            .handle_cmd_ctx(cmd_ctx, r, &authenticated)
            .await
            .unwrap();
        reply.into_resp_vec()
    }

    async fn setup(strategy: &str) -> (TestHandler, SharedRedisState) {
        let state = SharedRedisState::default();
        let handler = gen_handler(state.clone());
        let reply = exec(
            &handler,
            args![
                b"UMCTL",
                b"SETCLUSTER",
                b"v2",
                b"1",
                b"NOFLAGS",
                b"test_cluster",
                b"127.0.0.1:6379",
                b"1",
                b"0-16383",
                b"CONFIG",
                b"compression_strategy",
                strategy.as_bytes(),
            ],
        )
        .await;
        assert_eq!(reply, ok());

        // Wait for the backend connection.
        loop {
            let reply = exec(&handler, args![b"SET", b"warmup", b"warmup"]).await;
            match reply {
                Resp::Error(err)
                    if str::from_utf8(&err)
                        .unwrap()
                        .starts_with(ERR_BACKEND_CONNECTION) =>
                {
                    tokio::time::sleep(Duration::from_millis(1)).await;
                }
                other => {
                    assert_eq!(other, ok());
                    break;
                }
            }
        }
        (handler, state)
    }

    fn last_cmd(state: &SharedRedisState) -> Vec<BinSafeStr> {
        state.lock().unwrap().log.last().cloned().unwrap()
    }

    async fn assert_get(handler: &TestHandler, key: &[u8], value: &[u8]) {
        let reply = exec(handler, args![b"GET", key]).await;
        assert_eq!(reply, bulk(Some(value.to_vec())));
    }

    // Demonstration for the C20 double-compression finding (kept in /verif/findings).
    // Proxy A (active redirection, compression on) does not own the key and forwards the SET to proxy B
    // wrapped in UMFORWARD. We capture what A sends and hand it to proxy B, which owns the key.
    #[tokio::test]
    async fn demo_c20_value_written_through_a_redirecting_proxy_reads_back_identical() {
        let value: &[u8] = b"value-written-through-the-other-proxy";

        // proxy A: owns 0-8000, peer owns the rest
        let state_a = SharedRedisState::default();
        let a = gen_handler_with(state_a.clone(), true);
        let reply = exec(
            &a,
            args![
                b"UMCTL", b"SETCLUSTER", b"v2", b"1", b"NOFLAGS", b"test_cluster",
                b"127.0.0.1:6379", b"1", b"0-8000",
                b"PEER", b"127.0.0.1:6380", b"1", b"8001-16383",
                b"CONFIG", b"compression_strategy", b"allow_all",
            ],
        )
        .await;
        assert_eq!(reply, ok());
        // `foo` hashes to slot 12182: not local to A
        let mut forwarded = None;
        for _ in 0..50 {
            let r = exec(&a, args![b"SET", b"foo", value]).await;
            if std::env::var("DEMO_DEBUG").is_ok() {
                eprintln!("reply {:?} log {:?}", r, state_a.lock().unwrap().log.iter().map(|c| String::from_utf8_lossy(&c[0]).to_string()).collect::<Vec<_>>());
            }
            let log = state_a.lock().unwrap().log.clone();
            // with `max_redirections` unset the command is forwarded as it is (not wrapped in UMFORWARD)
            if let Some(cmd) = log.iter().find(|c| c.len() == 3 && c[1] == b"foo") {
                forwarded = Some(cmd.clone());
                break;
            }
            tokio::time::sleep(Duration::from_millis(1)).await;
        }
        let forwarded = forwarded.expect("proxy A never forwarded the SET");

        // proxy B owns every slot; it receives exactly what A sent
        let (b, state_b) = setup("allow_all").await;
        let args_b: Vec<&[u8]> = forwarded.iter().map(|e| e.as_slice()).collect();
        let reply = exec(&b, args_b).await;
        assert_eq!(reply, ok());
        let _ = state_b;

        // reading the key through its owner must give the bytes that were written
        assert_get(&b, b"foo", value).await;
    }
}
