
    // Demonstration for the C16 RangeMap finding (kept in /verif/findings).
    #[test]
    fn demo_c16_range_map_with_huge_range_end_terminates() {
        let list = RangeList::try_from("1 0-18446744073709551615").unwrap();
        let (tx, rx) = std::sync::mpsc::channel();
        std::thread::spawn(move || {
            let map = RangeMap::from(&list);
            tx.send(map.contains_slot(0)).ok();
        });
        let r = rx.recv_timeout(std::time::Duration::from_secs(5));
        assert!(r.is_ok(), "RangeMap::from did not finish within 5s for a range ending at 2^64-1");
    }
