extern crate undermoon;

mod connection;
mod redis_client;

#[cfg(test)]
mod tests {
    use super::*;

    use arc_swap::ArcSwap;
    use connection::DummyOkConnFactory;
    use futures::channel::mpsc;
    use redis_client::DummyClientFactory;
    use std::num::NonZeroUsize;
    use std::str;
    use std::sync::atomic::{AtomicBool, AtomicI64, AtomicU64};
    use std::sync::{Arc, Mutex};
    use std::time::Duration;
    use undermoon::common::batch::BatchStrategy;
    use undermoon::common::proto::SET_CLUSTER_API_VERSION;
    use undermoon::common::response::{ERR_BACKEND_CONNECTION, ERR_NOT_THE_SAME_SLOT};
    use undermoon::common::track::TrackedFutureRegistry;
    use undermoon::common::utils::{generate_slot, same_slot};
    use undermoon::protocol::{Array, BulkStr, Resp, RespPacket, RespVec};
    use undermoon::proxy::command::{new_command_pair, Command};
    use undermoon::proxy::executor::SharedForwardHandler;
    use undermoon::proxy::manager::MetaMap;
    use undermoon::proxy::service::{ClusterNodesVersion, ServerProxyConfig};
    use undermoon::proxy::session::{CmdCtx, CmdCtxHandler};
    use undermoon::proxy::slowlog::SlowRequestLogger;

    type TestHandler = SharedForwardHandler<DummyClientFactory, DummyOkConnFactory>;
    type HandleFunc = Arc<dyn Fn(Vec<String>) -> RespVec + Send + Sync + 'static>;

    // Local node serves 0-8000, the peer proxy serves 8001-16383.
    const LOCAL_KEY: &str = "user1000"; // slot 3443
    const REMOTE_KEY: &str = "foo"; // slot 12182

    fn gen_config(active_redirection: bool) -> ServerProxyConfig {
        ServerProxyConfig {
            address: "127.0.0.1:5299".to_string(),
            announce_address: "127.0.0.1:5299".to_string(),
            announce_host: "127.0.0.1".to_string(),
            slowlog_len: NonZeroUsize::new(1024).unwrap(),
            slowlog_log_slower_than: AtomicI64::new(0),
            slowlog_sample_rate: AtomicU64::new(1),
            thread_number: NonZeroUsize::new(2).unwrap(),
            backend_conn_num: NonZeroUsize::new(1).unwrap(),
            active_redirection,
            max_redirections: None,
            default_redirection_address: None,
            backend_batch_strategy: BatchStrategy::Fixed,
            backend_flush_size: NonZeroUsize::new(1024).unwrap(),
            backend_low_flush_interval: Duration::from_nanos(200_000),
            backend_high_flush_interval: Duration::from_nanos(800_000),
            session_timeout: None,
            backend_timeout: Duration::from_secs(3),
            password: None,
            command_cluster_nodes_version: ClusterNodesVersion::V2,
        }
    }

    fn gen_handler(
        handle_func: HandleFunc,
        config: ServerProxyConfig,
    ) -> (TestHandler, mpsc::UnboundedReceiver<()>) {
        let config = Arc::new(config);
        let client_factory = Arc::new(DummyClientFactory::new(handle_func.clone()));
        let conn_factory = Arc::new(DummyOkConnFactory::new(handle_func));
        let meta_map = Arc::new(ArcSwap::new(Arc::new(MetaMap::empty())));
        let future_registry = Arc::new(TrackedFutureRegistry::default());
        let slow_request_logger = Arc::new(SlowRequestLogger::new(config.clone()));
        let (stopped_sender, stopped_receiver) = mpsc::unbounded();
        let handler = SharedForwardHandler::new(
            config,
            client_factory,
            slow_request_logger,
            meta_map,
            conn_factory,
            future_registry,
            stopped_sender,
        );
        (handler, stopped_receiver)
    }

    async fn run_cmd(handler: &TestHandler, args: Vec<String>) -> RespVec {
        let resp = RespPacket::Data(Resp::Arr(Array::Arr(
            args.into_iter()
                .map(|s| Resp::Bulk(BulkStr::Str(s.into_bytes())))
                .collect(),
        )));
        let command = Command::new(Box::new(resp));
        let (s, r) = new_command_pair(&command);
        let cmd_ctx = CmdCtx::new(command, s, 233, true);
        let authenticated = AtomicBool::new(true);
        let result = handler.handle_cmd_ctx(cmd_ctx, r, &authenticated).await;
        let (_, response, _) = result.unwrap().into_inner();
        response.into_resp_vec()
    }

    fn to_args(cmd: &str) -> Vec<String> {
        cmd.split(' ').map(|s| s.to_string()).collect()
    }

    async fn wait_backend_ready(handler: &TestHandler) {
        loop {
            let resp = run_cmd(handler, to_args(&format!("SET {} value", LOCAL_KEY))).await;
            match resp {
                Resp::Error(err_str)
                    if str::from_utf8(err_str.as_slice())
                        .unwrap()
                        .starts_with(ERR_BACKEND_CONNECTION) =>
                {
                    tokio::time::sleep(Duration::from_millis(1)).await;
                    continue;
                }
                _ => break,
            };
        }
    }

    // EVAL with two keys living in different slots (one local, one owned by a peer)
    // must be refused by the proxy, whether or not active redirection is enabled.
    // It must never reach a backend node, which would run the script against
    // a key it does not own.
    async fn check_cross_slot_eval_refused(active_redirection: bool) {
        assert!(generate_slot(LOCAL_KEY.as_bytes()) <= 8000);
        assert!(generate_slot(REMOTE_KEY.as_bytes()) > 8000);
        assert!(!same_slot(
            vec![LOCAL_KEY.as_bytes(), REMOTE_KEY.as_bytes()].into_iter()
        ));

        let received: Arc<Mutex<Vec<Vec<String>>>> = Arc::new(Mutex::new(vec![]));
        let received_clone = received.clone();
        let handle_func: HandleFunc = Arc::new(move |cmd: Vec<String>| {
            received_clone.lock().unwrap().push(cmd);
            Resp::Simple(b"OK".to_vec())
        });

        let (handler, _stopped_receiver) = gen_handler(handle_func, gen_config(active_redirection));

        let set_cluster = format!(
            "UMCTL SETCLUSTER {} 1 NOFLAGS test_cluster 127.0.0.1:7001 1 0-8000 peer 127.0.0.1:6002 1 8001-16383",
            SET_CLUSTER_API_VERSION
        );
        let resp = run_cmd(&handler, to_args(&set_cluster)).await;
        assert_eq!(resp, Resp::Simple(b"OK".to_vec()));
        wait_backend_ready(&handler).await;

        // Control: two keys in the same slot are forwarded to the local node.
        let eval_same_slot = vec![
            "EVAL".to_string(),
            "return 1".to_string(),
            "2".to_string(),
            format!("{{{}}}.a", LOCAL_KEY),
            format!("{{{}}}.b", LOCAL_KEY),
        ];
        let resp = run_cmd(&handler, eval_same_slot).await;
        assert_eq!(resp, Resp::Simple(b"OK".to_vec()));
        let eval_num = received
            .lock()
            .unwrap()
            .iter()
            .filter(|cmd| cmd[0].to_uppercase() == "EVAL")
            .count();
        assert_eq!(eval_num, 1);

        // Keys in different slots.
        let eval_cross_slot = vec![
            "EVAL".to_string(),
            "return 1".to_string(),
            "2".to_string(),
            LOCAL_KEY.to_string(),
            REMOTE_KEY.to_string(),
        ];
        let resp = run_cmd(&handler, eval_cross_slot).await;
        assert_eq!(
            resp,
            Resp::Error(ERR_NOT_THE_SAME_SLOT.to_string().into_bytes()),
            "cross-slot EVAL was not refused (active_redirection = {})",
            active_redirection,
        );

        // No node has seen the cross-slot script.
        let eval_num = received
            .lock()
            .unwrap()
            .iter()
            .filter(|cmd| cmd[0].to_uppercase() == "EVAL")
            .count();
        assert_eq!(
            eval_num,
            1,
            "cross-slot EVAL reached a backend: {:?}",
            received.lock().unwrap()
        );
    }

async fn check_huge_numkeys(active_redirection: bool) {
        assert!(generate_slot(LOCAL_KEY.as_bytes()) <= 8000);
        assert!(generate_slot(REMOTE_KEY.as_bytes()) > 8000);
        assert!(!same_slot(
            vec![LOCAL_KEY.as_bytes(), REMOTE_KEY.as_bytes()].into_iter()
        ));

        let received: Arc<Mutex<Vec<Vec<String>>>> = Arc::new(Mutex::new(vec![]));
        let received_clone = received.clone();
        let handle_func: HandleFunc = Arc::new(move |cmd: Vec<String>| {
            received_clone.lock().unwrap().push(cmd);
            Resp::Simple(b"OK".to_vec())
        });

        let (handler, _stopped_receiver) = gen_handler(handle_func, gen_config(active_redirection));

        let set_cluster = format!(
            "UMCTL SETCLUSTER {} 1 NOFLAGS test_cluster 127.0.0.1:7001 1 0-8000 peer 127.0.0.1:6002 1 8001-16383",
            SET_CLUSTER_API_VERSION
        );
        let resp = run_cmd(&handler, to_args(&set_cluster)).await;
        assert_eq!(resp, Resp::Simple(b"OK".to_vec()));
        wait_backend_ready(&handler).await;

                // numkeys near the integer limit: the request has two arguments after it.
        let eval_huge = vec![
            "EVAL".to_string(),
            "return 1".to_string(),
            "18446744073709551615".to_string(),
            format!("{{{}}}.a", LOCAL_KEY),
            format!("{{{}}}.b", LOCAL_KEY),
        ];
        let resp = tokio::time::timeout(Duration::from_secs(5), run_cmd(&handler, eval_huge))
            .await
            .expect("EVAL with a huge numkeys got no reply within 5s");
        let _ = resp;
        let _ = &received;
    }

    #[tokio::test]
    async fn demo_c16_eval_huge_numkeys_is_answered() {
        check_huge_numkeys(false).await;
    }

    #[tokio::test]
    async fn demo_cross_slot_eval_refused_without_active_redirection() {
        check_cross_slot_eval_refused(false).await;
    }

    #[tokio::test]
    async fn demo_cross_slot_eval_refused_with_active_redirection() {
        check_cross_slot_eval_refused(true).await;
    }
}
