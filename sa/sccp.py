"""A4: flow-sensitive conditional constant propagation over one MIR body (Wegman-Zadeck style:
executable edges + a constant lattice), with an *assumption oracle* that fixes chosen inputs to
one element of an enumerated finite domain.  Abstract interpretation only: values are joined at
merge points, anything not modelled is TOP, no undermoon code is executed.

Values:
  TOP                      unknown
  ('int', n)               integer / bool / char
  ('bytes', b)             byte string or str contents
  ('agg', ctor, vi, [v])   ADT variant / struct (ctor = adt path), tuple (ctor='tuple'), array
  ('ref', key, proj)       reference to a place: key = local id (int) or synthetic cell name (str)
  ('fn', path)
  ('sym', name)            a named opaque input (identity only)
"""
import re
from .facts import norm, const_bytes, const_int, callee_of, callee_decl

_PROM = re.compile(r"promoted\[(\d+)\]$")

TOP = ("top",)
UNIT = ("agg", "tuple", 0, ())


def Int(n):
    return ("int", int(n))


def Bool(b):
    return ("int", 1 if b else 0)


def Bytes(b):
    return ("bytes", bytes(b))


def Agg(ctor, vi, fields):
    return ("agg", ctor, vi, tuple(fields))


def Ref(key, proj=()):
    return ("ref", key, tuple(proj))


def Sym(name):
    return ("sym", name)


def is_int(v):
    return v[0] == "int"


def is_concrete(v):
    if v[0] in ("int", "bytes"):
        return True
    if v[0] == "agg":
        return all(is_concrete(f) for f in v[3])
    return False


def _alts(v):
    return list(v[1]) if v[0] == "oneof" else [v]


def join(a, b):
    if a is None:
        return b
    if b is None:
        return a
    if a == b:
        return a
    if a[0] == "agg" and b[0] == "agg" and a[1] == b[1] and a[2] == b[2] and len(a[3]) == len(b[3]):
        return ("agg", a[1], a[2], tuple(join(x, y) for x, y in zip(a[3], b[3])))
    # values of the same enum type in different variants: keep the (small) set of alternatives
    if a[0] in ("agg", "oneof") and b[0] in ("agg", "oneof"):
        alts = _alts(a) + _alts(b)
        ctor = alts[0][1]
        if all(x[0] == "agg" and x[1] == ctor for x in alts) and ctor not in ("tuple", "array") and not ctor.startswith("closure:"):
            byvar = {}
            for x in alts:
                if x[2] in byvar:
                    y = byvar[x[2]]
                    byvar[x[2]] = ("agg", ctor, x[2], tuple(join(p, q) for p, q in zip(y[3], x[3]))) if len(y[3]) == len(x[3]) else None
                    if byvar[x[2]] is None:
                        return TOP
                else:
                    byvar[x[2]] = x
            if len(byvar) == 1:
                return next(iter(byvar.values()))
            if len(byvar) <= 6:
                return ("oneof", tuple(byvar[k] for k in sorted(byvar)))
    return TOP


def join_state(a, b):
    """pointwise join of two states (dict key->value); missing key = unassigned (bottom)"""
    if a is None:
        return dict(b)
    out = {}
    for k in set(a) | set(b):
        va = a.get(k)
        vb = b.get(k)
        out[k] = join(va, vb)
    return out


class Oracle:
    """assumptions; subclass or pass callables"""

    def __init__(self, args=None, cells=None, call=None, binop=None, read=None):
        self.args = args or {}        # local id -> value
        self.cells = cells or {}      # synthetic cell name -> value
        self._call = call
        self._binop = binop
        self._read = read

    def call(self, interp, bb, term, argvals):
        if self._call:
            return self._call(interp, bb, term, argvals)
        return None

    def binop(self, interp, bb, stmt, op, a, b):
        if self._binop:
            return self._binop(interp, bb, stmt, op, a, b)
        return None

    def read(self, interp, bb, place, val):
        """may refine the value read from a place (e.g. a field of self)"""
        if self._read:
            return self._read(interp, bb, place, val)
        return None


class Result:
    def __init__(self, body, in_states, exec_edges, exec_blocks, call_args, switch_vals, adts):
        self.body = body
        self.in_states = in_states
        self.exec_edges = exec_edges
        self.exec_blocks = exec_blocks
        self.call_args = call_args     # bb -> [argvals] (joined over visits)
        self.switch_vals = switch_vals
        self.adts = adts

    def executable(self, bb):
        return bb in self.exec_blocks

    def return_value(self):
        """join of _0 over executable return blocks"""
        v = None
        for b in self.body.return_blocks():
            if b in self.exec_blocks:
                st = self.out_state(b)
                v = join(v, st.get(0, TOP))
        return v if v is not None else None

    def out_state(self, bb):
        return self._out.get(bb, {})


class Interp:
    def __init__(self, F, body, oracle=None, max_iter=20000, inline=(), depth=0):
        self.F = F
        self.body = body
        self.oracle = oracle or Oracle()
        self.max_iter = max_iter
        self.addr_taken = set()
        self.inline = tuple(inline)   # suffixes of crate functions evaluated by propagating constants through their bodies
        self.depth = depth

    # ------------------------------------------------------------------ values of operands/places
    def const_val(self, c):
        if "fn" in c:
            return ("fn", norm(c["fn"]))
        i = const_int(c)
        if i is not None:
            return Int(i)
        b = const_bytes(c)
        if b is not None:
            # a &str / &[u8; N] constant: reference to an anonymous bytes cell
            return ("ref", ("const", b), ())
        ty = c.get("ty", "")
        if ty == "()":
            return UNIT
        v = c.get("v", "")
        pm = _PROM.search(v)
        if pm:
            return self._promoted(int(pm.group(1)))
        if c.get("item"):
            iv = self._const_item(norm(c["item"]))
            if iv is not None:
                return iv
        # unit enum variants as constants: `const path::Variant`
        adt = self._adt_of_type(ty)
        if adt is not None:
            name = norm(v[6:] if v.startswith("const ") else v).split("::")[-1]
            for vi, var in enumerate(adt.variants):
                if var["name"] == name and not var["fields"]:
                    return Agg(adt.path, vi, ())
        return TOP

    def _const_item(self, path):
        """value of a `const` / `static` item of the crate, by propagating constants through its own body"""
        cache = self.F.__dict__.setdefault("_const_items", {})
        if path in cache:
            return cache[path]
        cache[path] = None
        cb = self.F.bodies.get(path)
        if cb is None or not cb.kind.startswith(("Const", "AssocConst", "Static")):
            return None
        try:
            it = Interp(self.F, cb)
            res = it.run()
            v = res.return_value()
            stf = {}
            for b in cb.return_blocks():
                stf = res.out_state(b)
                break
            v = _detach(it, stf, v) if v is not None else None
            if v is not None and v != TOP:
                cache[path] = v
        except Exception:
            pass
        return cache[path]

    def _promoted(self, idx):
        root = self.body.promoted_of or self.body
        if idx >= len(root.promoted):
            return TOP
        cache = getattr(root, "_prom_vals", None)
        if cache is None:
            cache = root._prom_vals = {}
        if idx not in cache:
            pb = root.promoted[idx]
            cache[idx] = TOP
            try:
                it = Interp(self.F, pb)
                res = it.run()
                v = res.return_value()
                stf = {}
                for b in pb.return_blocks():
                    stf = res.out_state(b)
                    break
                cache[idx] = _detach(it, stf, v) if v is not None else TOP
            except Exception:
                cache[idx] = TOP
        return cache[idx]

    def _adt_of_type(self, ty):
        t = norm(ty)
        if t is None:
            return None
        t = t.lstrip("&").replace("mut ", "").strip()
        return self.F.adts.get(t) or STD_ADTS.get(t)

    def read_cell(self, st, key):
        if isinstance(key, tuple) and key and key[0] == "const":
            return Bytes(key[1])
        if isinstance(key, tuple) and key and key[0] == "constv":
            return key[1]
        return st.get(key, TOP)

    def project(self, st, val, proj, place=None):
        """apply projection list to a value (following known refs)"""
        for e in proj:
            if val is None:
                return TOP
            e = _thaw(e)
            if e == "deref":
                if val[0] == "ref":
                    base = self.read_cell(st, val[1])
                    val = self.project(st, base, val[2])
                elif val[0] == "agg" and val[1] == "box":
                    val = val[3][0]
                else:
                    return TOP
            elif isinstance(e, dict) and "f" in e:
                if val[0] == "agg":
                    if e["f"] < len(val[3]):
                        val = val[3][e["f"]]
                    else:
                        return TOP
                else:
                    return TOP
            elif isinstance(e, dict) and "dc" in e:
                # downcast: the value must be that variant on an executable path
                if val[0] == "oneof":
                    keep = [x for x in val[1] if x[2] == e["vi"]]
                    if len(keep) == 1:
                        val = keep[0]
                    else:
                        return TOP
                elif val[0] == "agg" and val[2] != e["vi"]:
                    return TOP
            elif isinstance(e, dict) and "ci" in e:
                if val[0] == "bytes":
                    b = val[1]
                    i = e["ci"]
                    if e.get("fe"):
                        i = len(b) - i
                    if 0 <= i < len(b):
                        val = Int(b[i])
                    else:
                        return TOP
                elif val[0] == "agg" and val[1] == "array":
                    i = e["ci"]
                    if e.get("fe"):
                        i = len(val[3]) - i
                    if 0 <= i < len(val[3]):
                        val = val[3][i]
                    else:
                        return TOP
                else:
                    return TOP
            else:
                return TOP
        return val

    def read_place(self, st, bb, place):
        base = st.get(place["l"], TOP)
        v = self.project(st, base, place["p"], place)
        r = self.oracle.read(self, bb, place, v)
        if r is not None:
            return r
        if v == TOP and self.oracle._read is not None and place["p"] and place["p"][0] == "deref":
            # `_3 = &(*_1).tag; ... (*_3)`: let the oracle see the place the reference was taken of
            q = self._ref_source(place["l"])
            if q is not None:
                comb = {"l": q["l"], "p": list(q["p"]) + list(place["p"][1:])}
                r = self.oracle.read(self, bb, comb, v)
                if r is not None:
                    return r
        return v

    def _ref_source(self, local):
        m = getattr(self, "_refdefs", None)
        if m is None:
            m = {}
            cnt = {}
            for blk in self.body.blocks:
                for s in blk.stmts:
                    if s["k"] == "assign" and not s["place"]["p"]:
                        l = s["place"]["l"]
                        cnt[l] = cnt.get(l, 0) + 1
                        if s["rv"]["k"] == "ref":
                            m[l] = s["rv"]["p"]
                t = blk.term
                if t["k"] == "call" and not t["dest"]["p"]:
                    cnt[t["dest"]["l"]] = cnt.get(t["dest"]["l"], 0) + 1
            self._refdefs = {l: p for l, p in m.items() if cnt.get(l) == 1}
            m = self._refdefs
        return m.get(local)

    def resolve_ref(self, st, place):
        """('ref', key, proj) naming `place` after resolving derefs of known refs, or TOP"""
        key = place["l"]
        proj = []
        for e in place["p"]:
            if e == "deref":
                cur = self.project(st, self.read_cell(st, key), proj)
                if cur[0] == "ref":
                    key = cur[1]
                    proj = list(cur[2])
                else:
                    return TOP
            else:
                proj.append(e if not isinstance(e, dict) else _freeze(e))
        return ("ref", key, tuple(proj))

    def write_cell_proj(self, st, key, proj, v):
        if isinstance(key, tuple):
            return  # constants are immutable
        if not proj:
            st[key] = v
            return
        base = st.get(key, TOP)
        st[key] = self._update(st, base, list(proj), v)

    def _update(self, st, base, proj, v):
        if not proj:
            return v
        e = proj[0]
        if e == "deref":
            if base is not None and base[0] == "ref":
                self.write_cell_proj(st, base[1], tuple(base[2]) + tuple(proj[1:]), v)
                return base
            # write through an unknown pointer: every address-taken cell may change
            for k in list(self.addr_taken):
                if k in st:
                    st[k] = TOP
            return base
        e = _thaw(e)
        if isinstance(e, dict) and "f" in e:
            if base is not None and base[0] == "agg" and e["f"] < len(base[3]):
                fields = list(base[3])
                fields[e["f"]] = self._update(st, fields[e["f"]], proj[1:], v)
                return ("agg", base[1], base[2], tuple(fields))
            return TOP
        if isinstance(e, dict) and "dc" in e:
            return self._update(st, base, proj[1:], v)
        return TOP

    def write_place(self, st, place, v):
        self.write_cell_proj(st, place["l"], [(_freeze(e) if isinstance(e, dict) else e) for e in place["p"]], v)

    def operand(self, st, bb, op):
        if "c" in op:
            return self.const_val(op["c"])
        pl = op.get("cp") or op.get("mv")
        if pl is None:
            return TOP
        return self.read_place(st, bb, pl)

    # ------------------------------------------------------------------ rvalues
    def rvalue(self, st, bb, stmt, dest):
        rv = stmt["rv"]
        k = rv["k"]
        if k == "use":
            return self.operand(st, bb, rv["a"])
        if k == "ref" or k == "rawptr":
            r = self.resolve_ref(st, rv["p"])
            if r[0] == "ref" and not isinstance(r[1], tuple):
                self.addr_taken.add(r[1])
            return r
        if k == "binop":
            a = self.operand(st, bb, rv["a"])
            b = self.operand(st, bb, rv["b"])
            o = self.oracle.binop(self, bb, stmt, rv["op"], a, b)
            if o is not None:
                return o
            return binop(rv["op"], a, b)
        if k == "unop":
            a = self.operand(st, bb, rv["a"])
            op = rv["op"]
            if op == "Not":
                if is_int(a):
                    ty = self.body.locals[dest["l"]]["ty"] if not dest["p"] else ""
                    if ty == "bool":
                        return Bool(not a[1])
                    return TOP
                return TOP
            if op == "Neg" and is_int(a):
                return Int(-a[1])
            if op == "PtrMetadata":
                if a[0] == "ref":
                    tgt = self.project(st, self.read_cell(st, a[1]), a[2])
                    if tgt[0] == "bytes":
                        return Int(len(tgt[1]))
                    if tgt[0] == "agg" and tgt[1] == "array":
                        return Int(len(tgt[3]))
                return TOP
            return TOP
        if k == "cast":
            a = self.operand(st, bb, rv["a"])
            ck = rv["ck"]
            if ck.startswith("IntToInt"):
                return a if is_int(a) else TOP
            if "Unsize" in ck or "PtrToPtr" in ck or "MutToConstPointer" in ck:
                return a
            return TOP
        if k == "discr":
            v = self.read_place(st, bb, rv["p"])
            if v[0] == "agg":
                adt = self.F.adts.get(v[1]) or STD_ADTS.get(v[1])
                if adt is not None:
                    return Int(int(adt.variants[v[2]]["discr"]))
            return TOP
        if k == "agg":
            ops = [self.operand(st, bb, o) for o in rv["ops"]]
            ak = rv["ak"]
            if ak == "adt":
                return Agg(norm(rv["adt"]), rv["vi"], ops)
            if ak == "tuple":
                return Agg("tuple", 0, ops)
            if ak == "array":
                return Agg("array", 0, ops)
            if ak in ("closure", "coroutine", "coroutine_closure"):
                return Agg("closure:" + norm(rv["def"]), 0, ops)
            return TOP
        return TOP

    # ------------------------------------------------------------------ calls
    def call(self, st, bb, term):
        self._st = st    # current abstract state, for oracles that need to look at other locals
        argvals = [self.operand(st, bb, a) for a in term["args"]]
        r = self.oracle.call(self, bb, term, argvals)
        if r is None and self.inline and self.depth < 4:
            r = self._inline(st, term, argvals)
        if r is None:
            r = model_call(self, st, term, argvals)
        if r is None:
            r = TOP
            # unknown callee: anything reachable through a &mut argument may change
            for a, ty in zip(argvals, term.get("atys", [])):
                if a[0] == "ref" and ty.startswith("&mut") and not isinstance(a[1], tuple):
                    self.write_cell_proj(st, a[1], a[2], TOP)
        return r, argvals

    def _inline(self, st, term, argvals):
        c = callee_of(term)
        if not c or not any(c == s or c.endswith("::" + s) for s in self.inline):
            return None
        cb = self.F.bodies.get(c)
        if cb is None:
            return None
        # pass argument values; references to caller locals are replaced by references to the values they point to
        args = {}
        for i, v in enumerate(argvals):
            if v[0] == "ref" and not isinstance(v[1], tuple):
                tgt = deref_val(self, st, v, depth=1)
                v = ("ref", ("constv", tgt), ())
            args[i + 1] = v
        try:
            sub = Interp(self.F, cb, Oracle(args=args, call=self.oracle._call), inline=self.inline, depth=self.depth + 1)
            rv = sub.run().return_value()
            return rv
        except Exception:
            return None

    # ------------------------------------------------------------------ fixpoint
    def run(self):
        body = self.body
        init = {}
        for l, v in self.oracle.args.items():
            init[l] = v
        for c, v in self.oracle.cells.items():
            init[c] = v
        for l in range(1, body.argc + 1):
            init.setdefault(l, TOP)
        in_states = {0: init}
        out_states = {}
        exec_edges = set()
        exec_blocks = set()
        call_args = {}
        switch_vals = {}
        work = [0]
        iters = 0
        while work:
            iters += 1
            if iters > self.max_iter:
                raise RuntimeError("sccp did not converge on %s" % body.path)
            bb = work.pop()
            exec_blocks.add(bb)
            st = dict(in_states[bb])
            blk = body.blocks[bb]
            for s in blk.stmts:
                if s["k"] == "assign":
                    v = self.rvalue(st, bb, s, s["place"])
                    self.write_place(st, s["place"], v)
                elif s["k"] == "setdiscr":
                    self.write_place(st, s["place"], TOP)
            t = blk.term
            k = t["k"]
            succs = []
            if k == "goto" or k == "false_unwind" or k == "false_edge" or k == "drop":
                succs = [t["target"]]
            elif k == "assert":
                c = self.operand(st, bb, t["cond"])
                if is_int(c) and bool(c[1]) != bool(t["expected"]):
                    succs = []   # certain panic
                else:
                    succs = [t["target"]]
            elif k == "switch":
                d = self.operand(st, bb, t["discr"])
                switch_vals[bb] = join(switch_vals.get(bb), d)
                if is_int(d):
                    tgt = None
                    for val, tb in t["targets"]:
                        if int(val) == d[1] or (d[1] < 0 and int(val) == d[1] + (1 << 128)):
                            tgt = tb
                            break
                    succs = [tgt if tgt is not None else t["otherwise"]]
                else:
                    succs = [tb for _, tb in t["targets"]] + [t["otherwise"]]
                    # refine a plain local discriminant along each edge (correlated tests)
            elif k == "call":
                r, argvals = self.call(st, bb, t)
                prev = call_args.get(bb)
                call_args[bb] = argvals if prev is None else [join(x, y) for x, y in zip(prev, argvals)]
                if r == "diverge":
                    succs = []
                else:
                    self.write_place(st, t["dest"], r)
                    if t["target"] is not None:
                        succs = [t["target"]]
            elif k == "yield":
                self.write_place(st, t["resume_arg"], TOP)
                succs = [t["target"]]
            out_states[bb] = st
            for s in dict.fromkeys(succs):
                exec_edges.add((bb, s))
                st_edge = st
                if k == "switch":
                    st_edge = self._refine(st, t, s)
                old = in_states.get(s)
                new = join_state(old, st_edge)
                if old is None or new != old:
                    in_states[s] = new
                    if s not in work:
                        work.append(s)
        res = Result(body, in_states, exec_edges, exec_blocks, call_args, switch_vals, self.F.adts)
        res._out = out_states
        res.interp = self
        return res

    def state_at(self, res, bb, idx):
        """abstract state just before statement idx of block bb (replay from the block's in-state)"""
        if bb not in res.in_states:
            return None
        st = dict(res.in_states[bb])
        for s in self.body.blocks[bb].stmts[:idx]:
            if s["k"] == "assign":
                self.write_place(st, s["place"], self.rvalue(st, bb, s, s["place"]))
            elif s["k"] == "setdiscr":
                self.write_place(st, s["place"], TOP)
        return st

    def _refine(self, st, term, succ):
        """on an unknown switch over a plain local, record the value implied by the edge taken"""
        d = term["discr"]
        pl = d.get("cp") or d.get("mv")
        if pl is None or pl["p"]:
            return st
        cur = st.get(pl["l"], TOP)
        if cur != TOP:
            return st
        vals = [int(v) for v, tb in term["targets"] if tb == succ]
        if succ == term["otherwise"]:
            # bool: otherwise means the remaining value
            ty = self.body.locals[pl["l"]]["ty"]
            if ty == "bool" and len(term["targets"]) == 1 and not vals:
                other = 1 - int(term["targets"][0][0])
                st2 = dict(st)
                st2[pl["l"]] = Int(other)
                return st2
            return st
        if len(vals) == 1:
            st2 = dict(st)
            st2[pl["l"]] = Int(vals[0])
            return st2
        return st


def _detach(it, st, v, depth=0):
    """make a value independent of the body it was computed in: references to that body's locals become references to
    constant cells holding the (detached) pointee"""
    if v is None or depth > 6:
        return TOP
    if v[0] == "ref" and not isinstance(v[1], tuple):
        tgt = it.project(st, st.get(v[1], TOP), v[2])
        return ("ref", ("constv", _detach(it, st, tgt, depth + 1)), ())
    if v[0] == "agg":
        return ("agg", v[1], v[2], tuple(_detach(it, st, f, depth + 1) for f in v[3]))
    return v


def _freeze(e):
    if isinstance(e, dict):
        return tuple(sorted((k, v if not isinstance(v, list) else tuple(v)) for k, v in e.items()))
    return e


def _thaw(e):
    if isinstance(e, tuple) and e and isinstance(e[0], tuple):
        return dict(e)
    return e


def binop(op, a, b):
    if is_int(a) and is_int(b):
        x, y = a[1], b[1]
        try:
            if op == "Eq":
                return Bool(x == y)
            if op == "Ne":
                return Bool(x != y)
            if op == "Lt":
                return Bool(x < y)
            if op == "Le":
                return Bool(x <= y)
            if op == "Gt":
                return Bool(x > y)
            if op == "Ge":
                return Bool(x >= y)
            if op in ("Add", "AddUnchecked"):
                return Int(x + y)
            if op in ("Sub", "SubUnchecked"):
                return Int(x - y)
            if op in ("Mul", "MulUnchecked"):
                return Int(x * y)
            if op == "Div":
                return Int(int(x / y)) if y != 0 else TOP
            if op == "Rem":
                return Int(x - y * int(x / y)) if y != 0 else TOP
            if op == "BitAnd":
                return Int(x & y)
            if op == "BitOr":
                return Int(x | y)
            if op == "BitXor":
                return Int(x ^ y)
            if op in ("Shl", "ShlUnchecked"):
                return Int(x << y)
            if op in ("Shr", "ShrUnchecked"):
                return Int(x >> y)
            if op in ("AddWithOverflow", "SubWithOverflow", "MulWithOverflow"):
                v = {"AddWithOverflow": x + y, "SubWithOverflow": x - y, "MulWithOverflow": x * y}[op]
                return Agg("tuple", 0, (Int(v), Bool(v < 0)))
            if op == "Cmp":
                return TOP
        except Exception:
            return TOP
    # x == x on the same symbolic input
    if a[0] == "sym" and a == b:
        if op in ("Eq", "Le", "Ge"):
            return Bool(True)
        if op in ("Ne", "Lt", "Gt"):
            return Bool(False)
    return TOP


# --------------------------------------------------------------------------- std models
class _StdAdt:
    def __init__(self, path, variants):
        self.path = path
        self.variants = [{"name": n, "discr": str(i), "fields": [{"name": str(j)} for j in range(k)]} for i, (n, k) in enumerate(variants)]


STD_ADTS = {
    "std::option::Option": _StdAdt("std::option::Option", [("None", 0), ("Some", 1)]),
    "std::result::Result": _StdAdt("std::result::Result", [("Ok", 1), ("Err", 1)]),
    "std::ops::ControlFlow": _StdAdt("std::ops::ControlFlow", [("Continue", 1), ("Break", 1)]),
    "std::cmp::Ordering": _StdAdt("std::cmp::Ordering", [("Less", 0), ("Equal", 0), ("Greater", 0)]),
}
# Ordering discriminants are -1, 0, 1
STD_ADTS["std::cmp::Ordering"].variants[0]["discr"] = "-1"
STD_ADTS["std::cmp::Ordering"].variants[1]["discr"] = "0"
STD_ADTS["std::cmp::Ordering"].variants[2]["discr"] = "1"

_INT_RANGES = {
    "i8": (-(1 << 7), (1 << 7) - 1), "i16": (-(1 << 15), (1 << 15) - 1), "i32": (-(1 << 31), (1 << 31) - 1), "i64": (-(1 << 63), (1 << 63) - 1),
    "i128": (-(1 << 127), (1 << 127) - 1), "isize": (-(1 << 63), (1 << 63) - 1),
    "u8": (0, (1 << 8) - 1), "u16": (0, (1 << 16) - 1), "u32": (0, (1 << 32) - 1), "u64": (0, (1 << 64) - 1), "u128": (0, (1 << 128) - 1), "usize": (0, (1 << 64) - 1),
}

OPTION = "std::option::Option"
RESULT = "std::result::Result"
CFLOW = "std::ops::ControlFlow"


def Some(v):
    return Agg(OPTION, 1, (v,))


NONE = Agg(OPTION, 0, ())


def Ok(v):
    return Agg(RESULT, 0, (v,))


def Err(v):
    return Agg(RESULT, 1, (v,))


def deref_val(interp, st, v, depth=3):
    """follow known references to the value they point to"""
    while v is not None and v[0] == "ref" and depth > 0:
        v = interp.project(st, interp.read_cell(st, v[1]), v[2])
        depth -= 1
    return v if v is not None else TOP


def deep_deref(interp, st, v, depth=0):
    """replace references by the values they point to, inside aggregates too (for structural equality)"""
    if v is None or depth > 6:
        return TOP
    if v[0] == "ref":
        return deep_deref(interp, st, deref_val(interp, st, v), depth + 1)
    if v[0] == "agg":
        return ("agg", v[1], v[2], tuple(deep_deref(interp, st, f, depth + 1) for f in v[3]))
    return v


def _cmp_vals(a, b):
    """three-way comparison of two concrete values or None"""
    if is_int(a) and is_int(b):
        return (a[1] > b[1]) - (a[1] < b[1])
    if a[0] == "bytes" and b[0] == "bytes":
        return (a[1] > b[1]) - (a[1] < b[1])
    return None


def model_call(interp, st, term, argvals):
    decl = callee_decl(term)
    res = callee_of(term)
    if decl is None:
        return None
    a = [deref_val(interp, st, v) for v in argvals]
    if decl in ("std::cmp::PartialEq::eq", "std::cmp::PartialEq::ne"):
        a = [deep_deref(interp, st, v) for v in a]
        if len(a) == 2 and is_concrete(a[0]) and is_concrete(a[1]):
            eq = a[0] == a[1]
            return Bool(eq if decl.endswith("eq") else not eq)
        if len(a) == 2 and a[0][0] == "sym" and a[0] == a[1]:
            return Bool(decl.endswith("eq"))
        # different variants of the same enum are unequal even with unknown payloads
        if len(a) == 2 and a[0][0] == "agg" and a[1][0] == "agg" and a[0][1] == a[1][1] and a[0][2] != a[1][2]:
            return Bool(not decl.endswith("eq"))
        return None
    if decl in ("std::cmp::PartialOrd::lt", "std::cmp::PartialOrd::le", "std::cmp::PartialOrd::gt", "std::cmp::PartialOrd::ge"):
        if len(a) == 2:
            c = _cmp_vals(a[0], a[1])
            if c is not None:
                m = decl.rsplit("::", 1)[1]
                return Bool({"lt": c < 0, "le": c <= 0, "gt": c > 0, "ge": c >= 0}[m])
        return None
    if decl in ("std::cmp::max", "std::cmp::Ord::max", "std::cmp::min", "std::cmp::Ord::min"):
        if len(a) == 2:
            c = _cmp_vals(a[0], a[1])
            if c is not None:
                if "max" in decl:
                    return a[1] if c <= 0 else a[0]
                return a[0] if c <= 0 else a[1]
        return None
    if decl == "std::clone::Clone::clone":
        if a and a[0] != TOP and argvals[0][0] == "ref":
            return a[0]
        return None
    if decl in ("std::ops::Deref::deref", "std::convert::AsRef::as_ref", "std::borrow::Borrow::borrow") or res in ("std::vec::Vec::as_slice",):
        # Vec<u8> / String modelled as their bytes: dereferencing yields a reference to the same bytes
        if argvals and argvals[0][0] == "ref" and a and a[0][0] == "bytes":
            return ("ref", ("const", a[0][1]), ())
        return None
    if res == "std::vec::Vec::clear":
        if argvals and argvals[0][0] == "ref" and a and a[0][0] == "bytes" and not isinstance(argvals[0][1], tuple):
            interp.write_cell_proj(st, argvals[0][1], argvals[0][2], Bytes(b""))
            return UNIT
        return None
    if res == "std::vec::Vec::extend_from_slice":
        if len(a) == 2 and argvals[0][0] == "ref" and a[0][0] == "bytes" and a[1][0] == "bytes" and not isinstance(argvals[0][1], tuple):
            interp.write_cell_proj(st, argvals[0][1], argvals[0][2], Bytes(a[0][1] + a[1][1]))
            return UNIT
        return None
    if decl in ("std::convert::Into::into", "std::convert::From::from"):
        if a and is_int(a[0]):
            return a[0]
        return None
    if decl == "std::ops::Try::branch":
        v = a[0] if a else TOP
        if v[0] == "agg" and v[1] == RESULT:
            if v[2] == 0:
                return Agg(CFLOW, 0, (v[3][0],))
            return Agg(CFLOW, 1, (Err(v[3][0]),))
        if v[0] == "agg" and v[1] == OPTION:
            if v[2] == 1:
                return Agg(CFLOW, 0, (v[3][0],))
            return Agg(CFLOW, 1, (NONE,))
        return None
    if decl == "std::ops::FromResidual::from_residual":
        v = a[0] if a else TOP
        if v[0] == "agg" and v[1] == RESULT and v[2] == 1:
            ta = term.get("targs") or []
            if len(ta) == 2:
                e1 = ta[0].rstrip(">").rsplit(", ", 1)[-1]
                e2 = ta[1].rstrip(">").rsplit(", ", 1)[-1]
                if e1 == e2:
                    return Err(v[3][0])     # same error type: `?` passes the error through unchanged
            return Err(TOP)
        if v[0] == "agg" and v[1] == OPTION and v[2] == 0:
            return NONE
        return None
    if res in ("std::option::Option::is_some", "std::option::Option::is_none"):
        v = a[0] if a else TOP
        if v[0] == "agg" and v[1] == OPTION:
            return Bool((v[2] == 1) == res.endswith("is_some"))
        return None
    if res in ("std::result::Result::is_ok", "std::result::Result::is_err"):
        v = a[0] if a else TOP
        if v[0] == "agg" and v[1] == RESULT:
            return Bool((v[2] == 0) == res.endswith("is_ok"))
        return None
    if res in ("std::option::Option::cloned", "std::option::Option::copied"):
        v = a[0] if a else TOP
        if v[0] == "agg" and v[1] == OPTION:
            if v[2] == 0:
                return NONE
            return Some(deref_val(interp, st, v[3][0]))
        return None
    if res in ("core::slice::<impl [T]>::len", "std::slice::<impl [T]>::len", "core::str::<impl str>::len", "std::str::<impl str>::len"):
        v = a[0] if a else TOP
        if v[0] == "bytes":
            return Int(len(v[1]))
        return None
    if res in ("std::str::<impl str>::as_bytes", "core::str::<impl str>::as_bytes", "std::string::String::as_str"):
        if argvals and argvals[0][0] == "ref":
            return argvals[0]
        return None
    # ---- byte slices, ranges, iterators over literal bytes, closures on Option (enough for small pure helpers)
    if res in ("memchr::memchr", "memchr::memchr::memchr"):
        if len(a) == 2 and is_int(a[0]) and a[1][0] == "bytes":
            i_ = a[1][1].find(bytes([a[0][1] & 0xFF]))
            return Some(Int(i_)) if i_ >= 0 else NONE
        return None
    if res in ("core::slice::first", "std::slice::first"):
        if a and a[0][0] == "bytes":
            return Some(("ref", ("constv", Int(a[0][1][0])), ())) if a[0][1] else NONE
        return None
    if res in ("core::slice::is_empty", "std::slice::is_empty"):
        if a and a[0][0] == "bytes":
            return Bool(len(a[0][1]) == 0)
        return None
    if res in ("core::slice::len", "std::slice::len"):
        if a and a[0][0] == "bytes":
            return Int(len(a[0][1]))
        return None
    if res in ("std::result::Result::map_err",):
        if len(a) == 2 and a[0][0] == "agg" and a[0][1] == RESULT:
            if a[0][2] == 0:
                return a[0]
            if a[1][0] == "agg" and a[1][1].startswith("closure:") and interp.depth < 4:
                cb = interp.F.bodies.get(a[1][1][8:])
                if cb is not None:
                    try:
                        rv = Interp(interp.F, cb, Oracle(args={1: ("ref", ("constv", a[1]), ()), 2: a[0][3][0]}), inline=interp.inline, depth=interp.depth + 1).run().return_value()
                        return Err(rv if rv is not None else TOP)
                    except Exception:
                        return Err(TOP)
            return Err(TOP)
        return None
    if res in ("std::option::Option::ok_or",):
        if len(a) == 2 and a[0][0] == "agg" and a[0][1] == OPTION:
            return Ok(a[0][3][0]) if a[0][2] == 1 else Err(a[1])
        return None
    if res in ("core::slice::iter", "std::slice::iter"):
        if a and a[0][0] == "bytes":
            return Agg("sliceiter", 0, (a[0],))
        return None
    if res in ("core::slice::get", "std::slice::get"):
        if len(a) == 2 and a[0][0] == "bytes":
            bts = a[0][1]
            idx = a[1]
            if is_int(idx):
                return Some(("ref", ("constv", Int(bts[idx[1]])), ())) if 0 <= idx[1] < len(bts) else NONE
            if idx[0] == "agg" and idx[1].endswith("ops::RangeFrom") and is_int(idx[3][0]):
                st_ = idx[3][0][1]
                return Some(("ref", ("const", bts[st_:]), ())) if 0 <= st_ <= len(bts) else NONE
            if idx[0] == "agg" and idx[1].endswith("ops::Range") and is_int(idx[3][0]) and is_int(idx[3][1]):
                st_, en_ = idx[3][0][1], idx[3][1][1]
                return Some(("ref", ("const", bts[st_:en_]), ())) if 0 <= st_ <= en_ <= len(bts) else NONE
            if idx[0] == "agg" and idx[1].endswith("ops::RangeTo") and is_int(idx[3][0]):
                en_ = idx[3][0][1]
                return Some(("ref", ("const", bts[:en_]), ())) if 0 <= en_ <= len(bts) else NONE
        return None
    if decl == "std::iter::Iterator::position":
        if len(a) == 2 and a[0][0] == "agg" and a[0][1] == "sliceiter" and a[1][0] == "agg" and a[1][1].startswith("closure:"):
            cb = interp.F.bodies.get(a[1][1][8:])
            if cb is None or interp.depth >= 4:
                return None
            bts = a[0][3][0][1]
            for i_, byte in enumerate(bts):
                sub = Interp(interp.F, cb, Oracle(args={1: ("ref", ("constv", a[1]), ()), 2: ("ref", ("constv", Int(byte)), ())}), inline=interp.inline, depth=interp.depth + 1)
                try:
                    rv = sub.run().return_value()
                except Exception:
                    return None
                if rv is None or not is_int(rv):
                    return None
                if rv[1]:
                    return Some(Int(i_))
            return NONE
        return None
    if res in ("std::option::Option::and_then", "std::option::Option::map"):
        if len(a) == 2 and a[0][0] == "agg" and a[0][1] == OPTION:
            if a[0][2] == 0:
                return NONE
            if a[1][0] == "agg" and a[1][1].startswith("closure:") and interp.depth < 4:
                cb = interp.F.bodies.get(a[1][1][8:])
                if cb is None:
                    return None
                sub = Interp(interp.F, cb, Oracle(args={1: ("ref", ("constv", a[1]), ()), 2: a[0][3][0]}), inline=interp.inline, depth=interp.depth + 1)
                try:
                    rv = sub.run().return_value()
                except Exception:
                    return None
                if rv is None:
                    return None
                return rv if res.endswith("and_then") else Some(rv)
        return None
    if res in ("core::num::is_negative", "core::num::is_positive", "core::num::signum"):
        if a and a[0][0] == "int":
            n = a[0][1]
            if res.endswith("is_negative"):
                return Bool(n < 0)
            if res.endswith("is_positive"):
                return Bool(n > 0)
            return Int((n > 0) - (n < 0))
        return None
    if res in ("std::option::Option::unwrap_or", "std::option::Option::unwrap_or_default"):
        if a and a[0][0] == "agg" and a[0][1] == OPTION:
            if a[0][2] == 1:
                return a[0][3][0]
            if res.endswith("unwrap_or") and len(a) > 1:
                return a[1]
        return None
    if res in ("std::option::Option::is_some", "std::option::Option::is_none"):
        if a and a[0][0] == "ref":
            v0 = deref_val(interp, interp._st, a[0])
        else:
            v0 = a[0] if a else TOP
        if v0 and v0[0] == "agg" and v0[1] == OPTION:
            return Bool((v0[2] == 1) == res.endswith("is_some"))
        return None
    if res in ("std::option::Option::expect", "std::option::Option::unwrap"):
        if a and a[0][0] == "agg" and a[0][1] == OPTION:
            if a[0][2] == 1:
                return a[0][3][0]
            return "diverge"
        return None
    if res in ("btoi::btoi", "btoi::btou", "atoi::atoi"):
        v = a[0] if a else TOP
        ok_ = (lambda x: Ok(x)) if res.startswith("btoi") else (lambda x: Some(x))
        bad = Err(TOP) if res.startswith("btoi") else NONE
        tys = term.get("targs") or []
        ity = tys[0] if tys else "i64"
        rng = _INT_RANGES.get(ity)
        if v[0] == "bytes" and rng is not None:
            try:
                sx = v[1].decode()
            except Exception:
                return bad
            signed_ok = res != "btoi::btou"
            body_ = sx[1:] if (sx[:1] in "+-" and signed_ok) else sx
            if not body_ or not body_.isdigit() or not body_.isascii():
                return bad
            n = int(sx)
            if rng[0] <= n <= rng[1]:
                return ok_(Int(n))
            return bad
        return None
    return None
