"""Rule runner: collects rule instances, applies floors and known findings, writes evidence
and replay files, prints KNOWN-FINDING / VIOLATION lines and decides the exit code."""
import importlib
import json
import os
import shutil
import sys
import time

from . import build
from .facts import Facts

VERIF = build.VERIF
EVIDENCE = os.path.join(VERIF, "evidence")
KNOWN = os.path.join(VERIF, "known_findings.json")


class Instance:
    __slots__ = ("rule", "key", "status", "site", "detail", "path", "extra")

    def __init__(self, rule, key, status, site=None, detail="", path=None, extra=None):
        self.rule = rule
        self.key = key
        self.status = status  # holds | violation | anchor-lost | info
        self.site = site
        self.detail = detail
        self.path = path
        self.extra = extra

    def to_json(self):
        d = {"rule": self.rule, "key": self.key, "status": self.status, "site": self.site, "detail": self.detail}
        if self.path:
            d["path"] = self.path
        if self.extra:
            d["extra"] = self.extra
        return d


class Ctx:
    """what a rule module reports into"""

    def __init__(self, F, prop, tier):
        self.F = F
        self.prop = prop
        self.tier = tier
        self.instances = []
        self.functions = set()
        self.call_sites = 0
        self.paths = 0
        self.rules = {}          # rule id -> description
        self.exhaustive_rules = set()
        self.notes = []

    # -- declaration
    def rule(self, rid, text, exhaustive=False):
        self.rules[rid] = text
        if exhaustive:
            self.exhaustive_rules.add(rid)

    # -- reporting
    @staticmethod
    def site(body, line=None):
        if body is None:
            return None
        if line is None:
            line = body.line
        return "%s:%s (%s)" % (body.file, line, body.path)

    def holds(self, rule, key, site=None, detail="", extra=None):
        self.instances.append(Instance(rule, "%s:%s" % (rule, key), "holds", site, detail, extra=extra))

    def violation(self, rule, key, site=None, detail="", path=None, extra=None):
        self.instances.append(Instance(rule, "%s:%s" % (rule, key), "violation", site, detail, path, extra))

    def lost(self, rule, key, detail=""):
        self.instances.append(Instance(rule, "%s:%s" % (rule, key), "anchor-lost", None, detail))

    def info(self, rule, key, detail="", site=None):
        self.instances.append(Instance(rule, "%s:%s" % (rule, key), "info", site, detail))

    def check(self, cond, rule, key, site=None, ok="", bad="", path=None, extra=None):
        if cond:
            self.holds(rule, key, site, ok, extra)
        else:
            self.violation(rule, key, site, bad, path, extra)
        return cond

    def floor(self, rule, what, found, minimum):
        """fewer matched instances than confirmed by reading = anchor lost (fail closed)"""
        if found < minimum:
            self.lost(rule, "floor:%s" % what, "matched %d instance(s) of %s, expected at least %d" % (found, what, minimum))
            return False
        return True

    def analysed(self, *bodies):
        for b in bodies:
            if b is not None:
                self.functions.add(b.path)

    def note(self, text):
        self.notes.append(text)


class AliasCtx:
    """lets one property reuse the rule functions of another: every instance is reported under rule id `to` with the
    original rule id kept as a key prefix (e.g. C05.D1:setcluster:.. -> C07.D6:C05.D1:setcluster:..)"""

    def __init__(self, ctx, to, only=None):
        self._c = ctx
        self._to = to
        self._only = only     # rule ids of the source module to forward (None = all)
        self.F = ctx.F
        self.prop = ctx.prop
        self.tier = ctx.tier

    def _ok(self, rule):
        return self._only is None or rule in self._only

    def rule(self, rid, text, exhaustive=False):
        pass

    site = staticmethod(Ctx.site)

    def holds(self, rule, key, site=None, detail="", extra=None):
        if self._ok(rule):
            self._c.holds(self._to, "%s:%s" % (rule, key), site, detail, extra)

    def violation(self, rule, key, site=None, detail="", path=None, extra=None):
        if self._ok(rule):
            self._c.violation(self._to, "%s:%s" % (rule, key), site, detail, path, extra)

    def lost(self, rule, key, detail=""):
        if self._ok(rule):
            self._c.lost(self._to, "%s:%s" % (rule, key), detail)

    def info(self, rule, key, detail="", site=None):
        if self._ok(rule):
            self._c.info(self._to, "%s:%s" % (rule, key), detail, site)

    def check(self, cond, rule, key, site=None, ok="", bad="", path=None, extra=None):
        if cond:
            self.holds(rule, key, site, ok, extra)
        else:
            self.violation(rule, key, site, bad, path, extra)
        return cond

    def floor(self, rule, what, found, minimum):
        if found < minimum:
            self.lost(rule, "floor:%s" % what, "matched %d instance(s) of %s, expected at least %d" % (found, what, minimum))
            return False
        return True

    def analysed(self, *bodies):
        self._c.analysed(*bodies)

    def note(self, text):
        self._c.note(text)

    @property
    def paths(self):
        return self._c.paths

    @paths.setter
    def paths(self, v):
        self._c.paths = v

    @property
    def call_sites(self):
        return self._c.call_sites

    @call_sites.setter
    def call_sites(self, v):
        self._c.call_sites = v


def load_known():
    if not os.path.exists(KNOWN):
        return []
    return json.load(open(KNOWN)).get("findings", [])


def run_check(prop, tier, repo=None, facts_dir=None, quiet=False, write=True):
    """returns exit code"""
    t0 = time.time()
    seed = int(os.environ.get("VERIF_SEED", "0") or 0)
    info = {}
    if facts_dir is None:
        try:
            facts_dir, info = build.ensure_facts(repo or build.REPO)
        except build.BuildFailed as e:
            print("BUILD-FAILED property=%s: %s" % (prop, e))
            return 2
    F = Facts(facts_dir)
    mod = importlib.import_module("sa.rules.%s" % prop)
    ctx = Ctx(F, prop, tier)
    mod.run(ctx)
    selftest = None
    if tier == "thorough" and write and hasattr(mod, "MUTANTS"):
        from . import selftest as st
        selftest = st.run_mutants(prop, mod)
    return finish(ctx, mod, tier, seed, t0, info, quiet, write, selftest)


def finish(ctx, mod, tier, seed, t0, info, quiet, write, selftest):
    prop = ctx.prop
    known = [k for k in load_known() if k.get("property") == prop]
    known_keys = {k["key"]: k for k in known if k.get("status") == "known"}
    viols = [i for i in ctx.instances if i.status in ("violation", "anchor-lost")]
    holds = [i for i in ctx.instances if i.status == "holds"]
    infos = [i for i in ctx.instances if i.status == "info"]
    unlisted = []
    listed = []
    for v in viols:
        if v.status == "violation" and v.key in known_keys:
            listed.append(v)
        else:
            unlisted.append(v)
    vdir = os.path.join(EVIDENCE, "%s.violations" % prop)
    if write:
        os.makedirs(EVIDENCE, exist_ok=True)
        if os.path.isdir(vdir):
            shutil.rmtree(vdir)
    out = []
    for v in listed:
        out.append("KNOWN-FINDING: property=%s %s %s" % (prop, v.key, known_keys[v.key].get("what", v.detail)))
    for n, v in enumerate(unlisted):
        rp = os.path.join(vdir, "%d.json" % n)
        if write:
            os.makedirs(vdir, exist_ok=True)
            json.dump({"property": prop, "tier": tier, **v.to_json(), "rule_text": ctx.rules.get(v.rule, ""),
                       "tree_hash": info.get("tree_hash")}, open(rp, "w"), indent=1)
        out.append("VIOLATION property=%s replay=%s" % (prop, rp))
        out.append("  rule=%s kind=%s key=%s" % (v.rule, v.status, v.key))
        if v.site:
            out.append("  at %s" % v.site)
        if v.detail:
            out.append("  %s" % v.detail)
        if v.path:
            out.append("  path: %s" % v.path)
    st_failed = False
    if selftest is not None:
        for m in selftest["mutants"]:
            if m["status"] == "missed":
                st_failed = True
                out.append("SELFTEST-FAILED property=%s mutant=%s was applied and not detected (expected %s)" % (prop, m["name"], m.get("expect")))
    # ---- evidence
    obligations = len(holds) + len(viols)
    discharged = len(holds) + len(listed)
    distinct = len({i.key for i in holds + viols})
    samples = []
    seen_rules = set()
    for i in holds + viols:
        if i.rule not in seen_rules or len(samples) < 12:
            if len(samples) < 40:
                samples.append(i.to_json())
            seen_rules.add(i.rule)
    cov = {
        "explanation": getattr(mod, "EXPLANATION", "") + " Rules: " + "; ".join("%s = %s" % kv for kv in sorted(ctx.rules.items())),
        "obligations": obligations,
        "discharged": discharged,
        "undecided": len([v for v in viols if v.status == "anchor-lost"]),
        "known_findings_matched": [v.key for v in listed],
        "evaluations": obligations,
        "distinct_nontrivial": distinct,
        "rule": "one evaluation = one rule instance (a function, call site, table cell or path obligation located in the MIR facts of the current tree); distinct = distinct instance keys; an instance is non-trivial because it is only created when its anchor construct was found in the facts",
        "samples": samples,
        "functions_analysed": len(ctx.functions),
        "functions": sorted(ctx.functions)[:200],
        "call_sites": ctx.call_sites,
        "paths": ctx.paths,
        "observations": [i.to_json() for i in infos][:60],
        "exhaustive": bool(ctx.exhaustive_rules) and all(r in ctx.exhaustive_rules for r in ctx.rules),
        "exhaustive_rules": sorted(ctx.exhaustive_rules),
        "checker_cmd": "bin/verif check %s --tier %s" % (prop, tier),
        "trusted_base": ["rustc nightly MIR construction (mir_promoted) and type checking", "umfacts fact extractor (driver/src/main.rs)",
                         "python analyses in /verif/sa"] + list(getattr(mod, "TRUSTED", [])),
        "facts": ctx.F.counts(),
        "tree_hash": info.get("tree_hash"),
        "facts_refreshed_this_run": info.get("refreshed"),
        "notes": ctx.notes,
    }
    if selftest is not None:
        cov["selftest"] = selftest
    ev = {
        "property_id": prop,
        "tier": tier,
        "seed": seed,
        "level": "other",
        "coverage": cov,
        "assumptions": list(getattr(mod, "ASSUMPTIONS", [])),
        "wall_s": round(time.time() - t0, 2),
        "violations": len(unlisted),
    }
    if write:
        tmp = os.path.join(EVIDENCE, "%s.json.tmp" % prop)
        json.dump(ev, open(tmp, "w"), indent=1)
        os.replace(tmp, os.path.join(EVIDENCE, "%s.json" % prop))
    if not quiet:
        print("property %s tier=%s: %d rule instances, %d hold, %d known finding(s), %d violation(s); %d functions analysed; %.1fs" % (
            prop, tier, obligations, len(holds), len(listed), len(unlisted), len(ctx.functions), time.time() - t0))
        for l in out:
            print(l)
    ctx.result_lines = out
    if unlisted:
        return 1
    if st_failed:
        return 2
    return 0
