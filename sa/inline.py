"""A8: bounded inlining of crate-private helper calls at the level of the extracted MIR.

Purpose: a rule that looks for a guard / validation / comparison inside a function must not lose its subject when a
maintainer moves that piece of code into a private helper (`extract method`).  `inlined(F, body)` returns a copy of the
body in which every call to an eligible helper is replaced by the helper's blocks (locals and block ids shifted,
parameters bound by plain assignments, `return` turned into an assignment of the call's destination plus a goto to
the call's continuation).  Eligible: a function of this crate, not public, not a trait method implementation reached
through dynamic dispatch, not (mutually) recursive with the caller, at most MAX_BLOCKS blocks.  Rules use the inlined
view only as a fallback when they do not find their subject in the function itself, so nothing changes for the
unchanged tree."""
import copy

from .facts import Body, norm, callee_of

MAX_BLOCKS = 120
MAX_DEPTH = 2


def _shift_place(pl, dl):
    pl["l"] += dl
    for e in pl["p"]:
        if isinstance(e, dict) and "idx" in e:
            e["idx"] += dl


def _shift_op(op, dl):
    if not isinstance(op, dict):
        return
    for k in ("mv", "cp"):
        if k in op:
            _shift_place(op[k], dl)


def _shift_rv(rv, dl):
    for k in ("a", "b"):
        if k in rv and isinstance(rv[k], dict):
            _shift_op(rv[k], dl)
    if "p" in rv and isinstance(rv["p"], dict):
        _shift_place(rv["p"], dl)
    for o in rv.get("ops", []) or []:
        _shift_op(o, dl)


def _shift_block(b, dl, db):
    for s in b["stmts"]:
        if s["k"] == "assign":
            _shift_place(s["place"], dl)
            _shift_rv(s["rv"], dl)
        elif s["k"] == "dead":
            s["l"] += dl
        elif "place" in s and isinstance(s["place"], dict):
            _shift_place(s["place"], dl)
    t = b["term"]
    for k in ("target", "unwind", "otherwise", "drop"):
        if isinstance(t.get(k), int):
            t[k] += db
    if "targets" in t:
        t["targets"] = [[v, tg + db] for v, tg in t["targets"]]
    if "imaginary" in t and isinstance(t["imaginary"], int):
        t["imaginary"] += db
    for k in ("discr", "cond", "value"):
        if k in t and isinstance(t[k], dict):
            _shift_op(t[k], dl)
    for k in ("dest", "place", "resume_arg"):
        if k in t and isinstance(t[k], dict):
            _shift_place(t[k], dl)
    for a in t.get("args", []) or []:
        _shift_op(a, dl)
    b["id"] += db


def eligible(F, caller, callee_path):
    c = F.bodies.get(callee_path)
    if c is None or c.crate != "undermoon" or c.kind not in ("Fn", "AssocFn"):
        return None
    if c.path == caller.path or c.is_mock() or "tests::" in c.path:
        return None
    if c.sig and c.sig.get("pub"):
        return None
    if len(c.blocks) > MAX_BLOCKS:
        return None
    # no direct recursion back into the caller or itself
    for bb, t in c.calls():
        if (callee_of(t) or "") in (caller.path, c.path):
            return None
    return c


def inlined(F, body, depth=1, only=None):
    """Body with eligible helper calls inlined (None when there is nothing to inline).  `only`: optional predicate on the
    callee Body."""
    raw = copy.deepcopy(body.raw)
    changed = False
    for _ in range(depth if depth <= MAX_DEPTH else MAX_DEPTH):
        sites = []
        tmp = Body(raw, body.crate)
        for bb, t in tmp.calls():
            cp = callee_of(t)
            c = eligible(F, body, cp) if cp else None
            if c is not None and (only is None or only(c)) and isinstance(t.get("target"), int):
                sites.append((bb, c))
        if not sites:
            break
        for bb, c in sites:
            blk = raw["blocks"][bb]
            t = blk["term"]
            if t["k"] != "call":
                continue
            dl = len(raw["locals"])
            db = len(raw["blocks"])
            craw = copy.deepcopy(c.raw)
            raw["locals"].extend(craw["locals"])
            for n in craw.get("names", []):
                n2 = copy.deepcopy(n)
                _shift_place(n2["place"], dl)
                raw["names"].append(n2)
            # parameter binding: callee local i (1..argc) <- argument i-1
            bind = []
            for i, a in enumerate(t["args"]):
                if i + 1 <= craw["argc"]:
                    bind.append({"k": "assign", "place": {"l": dl + i + 1, "p": []}, "rv": {"k": "use", "a": a}, "line": t.get("line"), "file": t.get("file")})
            cont = t["target"]
            dest = t["dest"]
            unwind = t.get("unwind")
            for cb in craw["blocks"]:
                _shift_block(cb, dl, db)
                ct = cb["term"]
                if ct["k"] == "return":
                    cb["stmts"].append({"k": "assign", "place": copy.deepcopy(dest), "rv": {"k": "use", "a": {"mv": {"l": dl, "p": []}}}, "line": ct.get("line"), "file": ct.get("file")})
                    cb["term"] = {"k": "goto", "target": cont, "line": ct.get("line"), "file": ct.get("file"), "exp": ct.get("exp"), "mac": ct.get("mac")}
                elif ct["k"] == "resume" and isinstance(unwind, int):
                    cb["term"] = {"k": "goto", "target": unwind, "line": ct.get("line"), "file": ct.get("file"), "exp": ct.get("exp"), "mac": ct.get("mac")}
                raw["blocks"].append(cb)
            blk["stmts"].extend(bind)
            blk["term"] = {"k": "goto", "target": db, "line": t.get("line"), "file": t.get("file"), "exp": t.get("exp"), "mac": t.get("mac"), "inlined": c.path}
            changed = True
    if not changed:
        return None
    nb = Body(raw, body.crate)
    nb.inlined_from = body.path
    return nb
