"""A7: taint of attacker-chosen integers. Sources = results of integer parsers; propagated forward
through copies, arithmetic, casts, aggregates and non-crate calls (flow-insensitive per body),
through crate function returns, parameters, captured variables and ADT fields (object-insensitive),
to a fix-point over a set of bodies.  Sanitisers: min with an untainted operand."""
from .facts import norm, callee_of, callee_decl, place_fields

SOURCES = ("btoi::btoi", "btoi::btou", "btoi::btoi_radix", "atoi::atoi", "std::str::<impl str>::parse", "core::str::<impl str>::parse", "std::str::parse", "core::str::parse",
           "std::str::FromStr::from_str")
KILL = ("std::cmp::min", "std::cmp::Ord::min", "std::cmp::Ord::clamp")
# results bounded by the amount of data actually present
BOUNDED_LAST = ("len", "count", "capacity", "is_empty", "remaining", "size_hint")


CONTAINER_WRITES = ("push", "push_back", "push_front", "insert", "extend", "append", "or_insert", "or_insert_with", "extend_from_slice", "resize", "fill")


def _self_stepped(b, du, l, depth=0):
    """is local l (or the variable it copies) updated as x = x + const somewhere in the body"""
    seen = set()
    work = [l]
    while work:
        x = work.pop()
        if x in seen:
            continue
        seen.add(x)
        for d in du.defs.get(x, []):
            if d[0] != "assign":
                continue
            rv = d[3]["rv"]
            if rv["k"] in ("use", "cast"):
                pl = rv["a"].get("cp") or rv["a"].get("mv")
                if pl is not None:
                    if pl["p"]:
                        # field .0 of an AddWithOverflow pair
                        for d2 in du.defs.get(pl["l"], []):
                            if d2[0] == "assign" and d2[3]["rv"]["k"] == "binop" and d2[3]["rv"]["op"] in ("AddWithOverflow", "Add"):
                                a_ = d2[3]["rv"]["a"]; b_ = d2[3]["rv"]["b"]
                                apl = a_.get("cp") or a_.get("mv")
                                if "c" in b_ and apl is not None:
                                    if apl["l"] in seen or apl["l"] == l:
                                        return True
                                    work.append(apl["l"])
                    else:
                        work.append(pl["l"])
            elif rv["k"] == "binop" and rv["op"] in ("Add", "AddWithOverflow"):
                apl = rv["a"].get("cp") or rv["a"].get("mv")
                if "c" in rv["b"] and apl is not None:
                    if apl["l"] in seen:
                        return True
                    work.append(apl["l"])
    return False


def _is_int_ty(ty):
    t = ty.replace("&", "").replace("mut ", "").strip()
    return t in ("usize", "u64", "u32", "u16", "u8", "i64", "i32", "isize", "i16", "i8", "u128", "i128")


class Taint:
    def __init__(self, F, bodies):
        self.F = F
        self.bodies = {b.path: b for b in bodies if b.kind != "Promoted"}
        self.local = {p: set() for p in self.bodies}      # tainted locals per body
        self.ret = set()
        self.param = {p: set() for p in self.bodies}
        self.field = set()
        self.why = {}
        self.blocked = {p: set() for p in self.bodies}   # locals compared with an untainted bound in their body
        self._run()
        self._sanitise()

    def _op_tainted(self, b, tl, op):
        pl = op.get("cp") or op.get("mv")
        if pl is None:
            return False
        return self._place_tainted(b, tl, pl)

    def _place_tainted(self, b, tl, pl):
        if pl["l"] in tl:
            return True
        for a, n in place_fields(pl):
            if (norm(a), n) in self.field:
                return True
        # captured variable of a closure: taint of the parent's local with that name
        if b.kind == "Closure" and pl["l"] == 1:
            names = [e["name"] for e in pl["p"] if isinstance(e, dict) and "name" in e]
            if names:
                par = self.bodies.get(b.parent)
                if par is not None:
                    l = par.local_by_name(names[0])
                    if l is not None and l in self.local[par.path]:
                        return True
        return False

    def _ref_bases(self, b, l, depth=0):
        """locals a temporary `&mut` local points into (`_t = &mut base...`)"""
        out = {l}
        if depth > 4:
            return out
        for blk in b.blocks:
            for s in blk.stmts:
                if s["k"] == "assign" and s["place"]["l"] == l and not s["place"]["p"]:
                    rv = s["rv"]
                    src = rv.get("p") if rv["k"] == "ref" else ((rv.get("a") or {}).get("mv") or (rv.get("a") or {}).get("cp")) if rv["k"] == "use" else None
                    if src is not None:
                        out |= self._ref_bases(b, src["l"], depth + 1)
            t = blk.term
            if t["k"] == "call" and t["dest"]["l"] == l and not t["dest"]["p"]:
                last = (callee_of(t) or callee_decl(t) or "").rsplit("::", 1)[-1]
                if last in ("deref_mut", "as_mut", "entry", "or_insert_with", "or_insert", "or_default", "get_mut", "borrow_mut") and t["args"]:
                    src = t["args"][0].get("mv") or t["args"][0].get("cp")
                    if src is not None:
                        out |= self._ref_bases(b, src["l"], depth + 1)
        return out

    def _body_round(self, b):
        tl = self.local[b.path]
        n0 = len(tl)
        for l in self.param[b.path]:
            tl.add(l)
        changed = True
        while changed:
            changed = False
            for blk in b.blocks:
                if blk.cleanup:
                    continue
                for s in blk.stmts:
                    if s["k"] != "assign":
                        continue
                    rv = s["rv"]
                    t = False
                    for k in ("a", "b"):
                        if k in rv and isinstance(rv[k], dict) and self._op_tainted(b, tl, rv[k]):
                            t = True
                    if "p" in rv and self._place_tainted(b, tl, rv["p"]):
                        t = True
                    for o in rv.get("ops", []):
                        if self._op_tainted(b, tl, o):
                            t = True
                    if rv["k"] == "binop" and rv["op"] in ("Eq", "Ne", "Lt", "Le", "Gt", "Ge"):
                        t = False
                    if t:
                        dl = s["place"]["l"]
                        if dl in self.blocked[b.path]:
                            continue
                        fs = place_fields(s["place"])
                        if fs and any(e == "deref" for e in s["place"]["p"]):
                            for a, n in fs[-1:]:
                                if (norm(a), n) not in self.field:
                                    self.field.add((norm(a), n)); changed = True
                        if dl not in tl:
                            tl.add(dl); changed = True
                        if rv["k"] == "agg" and rv.get("ak") == "adt":
                            for fn_, o in zip(rv["fields"], rv["ops"]):
                                if self._op_tainted(b, tl, o) and (norm(rv["adt"]), fn_) not in self.field and not norm(rv["adt"]).startswith("std::"):
                                    self.field.add((norm(rv["adt"]), fn_)); changed = True
                t = blk.term
                if t["k"] != "call":
                    continue
                c = callee_of(t) or ""
                d = callee_decl(t) or ""
                dest = t["dest"]["l"]
                args_t = [self._op_tainted(b, tl, a) for a in t["args"]]
                res_t = False
                if c in SOURCES or d in SOURCES or c.startswith("btoi::") or c.startswith("atoi::"):
                    res_t = True
                    self.why.setdefault((b.path, dest), "result of %s" % (c or d))
                elif c in self.bodies or d in self.bodies:
                    tgt = c if c in self.bodies else d
                    if tgt in self.ret:
                        res_t = True
                    for i, at in enumerate(args_t):
                        if at and (i + 1) not in self.param[tgt]:
                            self.param[tgt].add(i + 1)
                            self._dirty = True
                elif c in KILL or d in KILL:
                    res_t = all(args_t[:2]) if len(args_t) >= 2 else any(args_t)
                elif (c or d).rsplit("::", 1)[-1] in BOUNDED_LAST:
                    res_t = False
                else:
                    res_t = any(args_t)
                    # storing a tainted value into a collection taints the collection (push / insert / extend / entry..)
                    atys = t.get("atys") or []
                    if len(args_t) >= 2 and any(args_t[1:]) and atys and atys[0].startswith("&mut") and (c or d).rsplit("::", 1)[-1] in CONTAINER_WRITES:
                        rpl = t["args"][0].get("mv") or t["args"][0].get("cp")
                        if rpl is not None:
                            for base in self._ref_bases(b, rpl["l"]):
                                if base not in tl and base not in self.blocked[b.path]:
                                    tl.add(base); changed = True
                if res_t and dest not in tl and dest not in self.blocked[b.path]:
                    tl.add(dest); changed = True
        # return taint
        if 0 in tl and b.path not in self.ret:
            self.ret.add(b.path)
            self._dirty = True
        return len(tl) != n0

    def _run(self):
        for _ in range(8):
            self._dirty = False
            nf = len(self.field)
            ch = False
            for b in self.bodies.values():
                if self._body_round(b):
                    ch = True
            if not ch and not self._dirty and len(self.field) == nf:
                break

    def _sanitise(self):
        """a value compared (<,<=,>,>=) with an untainted bound in its body counts as checked there: block the tainted
        locals feeding that comparison and recompute"""
        from .defuse import DefUse
        any_block = False
        for b in self.bodies.values():
            tl = self.local[b.path]
            if not tl:
                continue
            du = None
            for blk in b.blocks:
                for s in blk.stmts:
                    if s["k"] == "assign" and s["rv"]["k"] == "binop" and s["rv"]["op"] in ("Lt", "Le", "Gt", "Ge"):
                        ta = self._op_tainted(b, tl, s["rv"]["a"]); tb = self._op_tainted(b, tl, s["rv"]["b"])
                        other = s["rv"]["b"] if ta else s["rv"]["a"]
                        if "c" in other and other["c"].get("int") in (0, None):
                            continue   # a test against zero is a lower bound, not an upper bound
                        if ta != tb:
                            du = du or DefUse(b)
                            # the other side must be a bound, not a counter that is stepped towards the tainted value
                            # (`retry_num < timeout` with retry_num += 1 checks nothing about timeout)
                            if "c" not in other:
                                osl = du.slice_operand(other, deep=False)
                                opl = other.get("mv") or other.get("cp")
                                if (osl.binops & {"Add", "AddWithOverflow"}) and opl is not None and _self_stepped(b, du, opl["l"]):
                                    continue
                            sl = du.slice_operand(s["rv"]["a"] if ta else s["rv"]["b"])
                            blk_set = {l for l in sl.locals if l in tl}
                            if blk_set - self.blocked[b.path]:
                                self.blocked[b.path] |= blk_set
                                any_block = True
        if any_block:
            for p in self.local:
                self.local[p] = set()
            self.ret = set()
            self.param = {p: set() for p in self.bodies}
            self.field = set()
            self._run()

    def tainted(self, b, op):
        return self._op_tainted(b, self.local[b.path], op)
