"""A3: effect summaries. Which (ADT, field) a function may write through references, directly or
through crate callees / closures, fix-point over the crate call graph.

Write events recognised in a body:
  * an assignment whose place goes through a dereference and names fields: every named field
  * a call to a non-crate function passing a `&mut` argument: the fields of the place borrowed
    (shallow slice through reference-propagating accessors) plus a type-based classification
  * a call to a crate function: the callee's summary
  * a closure created in the body: the closure body's own events, attributed to the creation site
"""
from .facts import norm, callee_of, callee_decl, place_fields
from .defuse import DefUse

# callees that hand out references / iterate without mutating the collection itself
ACCESSOR_LAST = {
    "get_mut", "iter_mut", "values_mut", "deref_mut", "as_mut", "as_mut_slice", "entry", "last_mut", "first_mut",
    "next", "into_iter", "iter", "by_ref", "as_deref_mut", "get_many_mut", "peek_mut", "split_at_mut", "chunks_mut",
    "borrow_mut", "index_mut", "write", "lock", "get_or_insert_with", "map", "and_then", "ok_or", "ok_or_else", "expect", "unwrap",
    "enumerate", "zip", "filter", "filter_map", "rev", "skip", "take_while", "peekable", "flatten", "flat_map", "chain", "cloned", "copied",
    "as_ref", "as_deref", "poll", "poll_next", "fmt", "write_fmt", "write_str", "hash", "eq", "ne", "cmp", "partial_cmp",
    "branch", "from_residual", "from_output",
}


class Event:
    __slots__ = ("bb", "idx", "tags", "fields", "desc", "callee", "line")

    def __init__(self, bb, idx, tags, fields, desc, callee=None, line=None):
        self.bb = bb
        self.idx = idx
        self.tags = set(tags)
        self.fields = fields
        self.desc = desc
        self.callee = callee
        self.line = line

    def __repr__(self):
        return "Event(bb%d %s %s)" % (self.bb, sorted(self.tags), self.desc)


class Effects:
    def __init__(self, F, classify, classify_type=None, bodies=None):
        """classify(adt, field) -> iterable of tags; classify_type(type string) -> iterable of tags"""
        self.F = F
        self.classify = classify
        self.classify_type = classify_type or (lambda t: ())
        self.bodies = {b.path: b for b in (bodies if bodies is not None else F.all_bodies(bins=True))}
        self.direct = {}     # path -> [Event] (no crate-callee events)
        self.callsites = {}  # path -> [(bb, term, callee path)] crate calls
        self.closures = {}   # path -> [(bb, idx, closure path)]
        self.summary = {}
        self._alias_du = {}
        self._scan()
        self._fix()

    def _captures_reach_params(self, body, captures, depth=0):
        """does any captured variable of a closure body alias state reachable from the enclosing function's parameters
        (as opposed to a value owned by a local of the enclosing function)"""
        if not captures:
            return False
        parent = self.bodies.get(body.parent)
        if parent is None or depth > 4:
            return True
        du = self._alias_du.get(parent.path)
        if du is None:
            du = DefUse(parent)
            du.follow_accessors = True
            du.alias_mode = True
            self._alias_du[parent.path] = du
        for name in captures:
            l = parent.local_by_name(name)
            if l is None:
                # captured from the grand-parent (nested closure): look there
                if parent.kind == "Closure":
                    if self._captures_reach_params(parent, {name}, depth + 1):
                        return True
                    continue
                return True
            sl = du.slice_local(l, deep=False)
            if sl.params:
                return True
            if sl.captures and self._captures_reach_params(parent, sl.captures, depth + 1):
                return True
        return False

    def _tags_for_fields(self, fields):
        tags = set()
        for a, n in fields:
            for t in self.classify(norm(a) if a else None, n):
                tags.add(t)
        return tags

    def _scan(self):
        for path, b in self.bodies.items():
            if b.kind == "Promoted":
                continue
            evs = []
            calls = []
            clos = []
            du = None
            for blk in b.blocks:
                if blk.cleanup:
                    continue
                for i, s in enumerate(blk.stmts):
                    if s["k"] != "assign":
                        continue
                    pl = s["place"]
                    if pl["p"] and any(e == "deref" for e in pl["p"]):
                        fs = [(norm(a), n) for a, n in place_fields(pl)]
                        if fs:
                            tags = self._tags_for_fields(fs)
                            if tags:
                                if du is None:
                                    du = DefUse(b)
                                    du.follow_accessors = True
                                    du.alias_mode = True
                                root = du.slice_place({"l": pl["l"], "p": []}, deep=False)
                                if not root.params and not self._captures_reach_params(b, root.captures):
                                    tags = None   # reference into a local owned value (e.g. a clone being edited)
                            if tags:
                                evs.append(Event(blk.id, i, tags, fs, "assign " + ".".join(n for _, n in fs), line=s.get("line")))
                    rv = s["rv"]
                    if rv["k"] == "agg" and rv["ak"] in ("closure", "coroutine", "coroutine_closure"):
                        clos.append((blk.id, i, norm(rv["def"])))
                t = blk.term
                if t["k"] != "call":
                    continue
                c = callee_of(t)
                d = callee_decl(t)
                target = None
                for cand in (c, d):
                    if cand and cand in self.bodies:
                        target = cand
                        break
                if target is not None:
                    calls.append((blk.id, t, target))
                    continue
                if c is None and d is None:
                    continue
                last = (c or d).rsplit("::", 1)[-1]
                if last in ACCESSOR_LAST:
                    continue
                if (d or "").startswith("std::iter::") or (d or "").startswith("std::fmt::"):
                    continue
                for a, ty in zip(t["args"], t.get("atys", [])):
                    nty = norm(ty)
                    if not (ty.startswith("&mut") or nty.startswith("std::collections::hash_map::Entry")
                            or nty.startswith("std::collections::hash_map::OccupiedEntry") or nty.startswith("std::collections::hash_map::VacantEntry")
                            or nty.startswith("std::collections::btree_map::Entry")):
                        continue
                    if du is None:
                        du = DefUse(b)
                        du.follow_accessors = True
                        du.alias_mode = True
                    sl = du.slice_operand(a, deep=False)
                    if not sl.params and not self._captures_reach_params(b, sl.captures):
                        continue   # rooted in a local owned value: not a write through a reference into caller state
                    tags = self._tags_for_fields(sl.fields)
                    for tg in self.classify_type(ty):
                        tags.add(tg)
                    if tags:
                        evs.append(Event(blk.id, None, tags, sorted(sl.fields, key=lambda x: (x[0] or "", x[1])), "call %s on &mut %s" % (last, norm(ty)[5:60]), callee=c or d, line=t.get("line")))
            self.direct[path] = evs
            self.callsites[path] = calls
            self.closures[path] = clos

    def _fix(self):
        summ = {p: set() for p in self.bodies}
        for p, evs in self.direct.items():
            for e in evs:
                summ[p] |= e.tags
        changed = True
        while changed:
            changed = False
            for p in self.bodies:
                cur = summ[p]
                n = len(cur)
                for bb, t, callee in self.callsites.get(p, []):
                    cur |= summ.get(callee, set())
                for bb, i, cp in self.closures.get(p, []):
                    cur |= summ.get(cp, set())
                if len(cur) != n:
                    changed = True
        self.summary = summ

    def events(self, body):
        """all write events of a body incl. crate callees (summaries) and closures created in it"""
        out = list(self.direct.get(body.path, []))
        for bb, t, callee in self.callsites.get(body.path, []):
            tags = self.summary.get(callee, set())
            if tags:
                out.append(Event(bb, None, tags, [], "call " + callee, callee=callee, line=t.get("line")))
        called_here = {callee for _, _, callee in self.callsites.get(body.path, [])}
        for bb, i, cp in self.closures.get(body.path, []):
            if cp in called_here:
                continue   # called directly in this body: its effects occur at the call sites, not where it is created
            tags = self.summary.get(cp, set())
            if tags:
                out.append(Event(bb, i, tags, [], "closure " + cp, callee=cp, line=None))
        return out

    def writers_of(self, tag, direct_only=True):
        out = []
        for p in self.bodies:
            evs = self.direct.get(p, [])
            if any(tag in e.tags for e in evs):
                out.append(p)
        return sorted(out)
