"""Query helpers shared by the rule modules."""
from .facts import norm, callee_of, callee_decl, place_key, place_fields, const_bytes, const_int, op_place
from .defuse import DefUse
from . import cfg

CMP_OPS = ("Lt", "Le", "Gt", "Ge", "Eq", "Ne")
ATOMIC_WRITES = ("store", "swap", "fetch_add", "fetch_sub", "fetch_max", "fetch_min", "fetch_and", "fetch_or",
                 "fetch_xor", "fetch_update", "compare_exchange", "compare_exchange_weak", "compare_and_swap", "fetch_nand")


def m(path, suffix):
    """does the normalised def path equal / end with the suffix"""
    if path is None:
        return False
    return path == suffix or path.endswith("::" + suffix)


def many(path, suffixes):
    return any(m(path, s) for s in suffixes)


def calls_to(body, *suffixes, decl=False):
    """[(bb, term)] of calls whose (resolved or declared) callee matches one suffix"""
    out = []
    for bb, t in body.calls():
        c = callee_of(t)
        d = callee_decl(t)
        if many(c, suffixes) or many(d, suffixes):
            out.append((bb, t))
    return out


def is_atomic_call(term):
    c = callee_of(term) or ""
    return c.startswith("std::sync::atomic::Atomic") or c.startswith("core::sync::atomic::Atomic")


def atomic_method(term):
    c = callee_of(term) or ""
    return c.rsplit("::", 1)[-1]


def atomic_sites(body, du=None):
    """[(bb, term, method, fields)] for every atomic operation; fields = (adt, name) pairs its
    receiver was borrowed from (slice of argument 0)"""
    out = []
    du = du or DefUse(body)
    for bb, t in body.calls():
        if is_atomic_call(t) and t["args"]:
            sl = du.slice_operand(t["args"][0], deep=False)
            out.append((bb, t, atomic_method(t), sl.fields))
    return out


def ordering_arg_consts(body, term):
    """memory orderings passed to an atomic call: variant names found in the slices of the
    arguments typed std::sync::atomic::Ordering"""
    out = []
    du = DefUse(body)
    for a, ty in zip(term["args"], term.get("atys", [])):
        if norm(ty) == "std::sync::atomic::Ordering":
            pl = op_place(a)
            names = set()
            if pl is not None:
                for d in du.defs.get(pl["l"], []):
                    if d[0] == "assign" and d[3]["rv"]["k"] == "agg" and d[3]["rv"]["ak"] == "adt":
                        names.add(d[3]["rv"]["variant"])
                    elif d[0] == "assign" and d[3]["rv"]["k"] == "use" and "c" in d[3]["rv"]["a"]:
                        names.add(norm(d[3]["rv"]["a"]["c"]["v"].replace("const ", "")).split("::")[-1])
                    else:
                        names.add("?")
            elif "c" in a:
                names.add(norm(a["c"]["v"].replace("const ", "")).split("::")[-1])
            out.append(sorted(names))
    return out


def field_writes(body):
    """[(bb, idx, stmt, fields)] direct assignments through a projection containing a field"""
    out = []
    for bb, i, s in body.assigns():
        fs = place_fields(s["place"])
        if fs:
            out.append((bb, i, s, [(norm(a), n) for a, n in fs]))
    return out


def agg_sites(body, adt_suffix, variant=None, cleanup=False):
    """[(bb, idx, stmt)] where an ADT value of the given type (and variant) is constructed"""
    out = []
    for bb, i, s in body.assigns(cleanup):
        rv = s["rv"]
        if rv["k"] == "agg" and rv["ak"] == "adt" and m(norm(rv["adt"]), adt_suffix):
            if variant is None or rv["variant"] == variant:
                out.append((bb, i, s))
    return out


def binop_sites(body, ops=CMP_OPS):
    out = []
    for bb, i, s in body.assigns():
        rv = s["rv"]
        if rv["k"] == "binop" and rv["op"] in ops:
            out.append((bb, i, s))
    return out


def drops_of(body, local):
    """blocks whose terminator drops (or moves into a call) the given local"""
    out = []
    for bb, t in body.iter_terms():
        if t["k"] == "drop" and t["place"]["l"] == local and not t["place"]["p"]:
            out.append(bb)
        elif t["k"] == "call":
            for a in t["args"]:
                pl = a.get("mv")
                if pl is not None and pl["l"] == local and not pl["p"]:
                    out.append(bb)
    return out


def line_of(body, bb, idx=None):
    b = body.blocks[bb]
    if idx is not None and idx < len(b.stmts):
        return b.stmts[idx].get("line")
    return b.term.get("line")


def site(body, bb=None, idx=None):
    if bb is None:
        return "%s:%s (%s)" % (body.file, body.line, body.path)
    return "%s:%s (%s bb%d)" % (body.file, line_of(body, bb, idx), body.path, bb)


def const_str_set(body, include_promoted=True):
    """all string / byte-string constants mentioned in the body"""
    out = set()

    def scan_op(o):
        if o and "c" in o:
            b = const_bytes(o["c"])
            if b is not None:
                out.add(b)

    def scan(bd):
        for blk in bd.blocks:
            for s in blk.stmts:
                if s["k"] != "assign":
                    continue
                rv = s["rv"]
                for k in ("a", "b"):
                    if k in rv:
                        scan_op(rv[k])
                for o in rv.get("ops", []):
                    scan_op(o)
            t = blk.term
            for a in t.get("args", []):
                scan_op(a)
    scan(body)
    if include_promoted:
        for p in body.promoted:
            scan(p)
    return out


def agg_variant_of(du, op, depth=0):
    """(adt, variant) when the operand is (a move/copy of) a local whose only definition is an ADT aggregate"""
    if op is None or depth > 4:
        return None
    pl = op.get("mv") or op.get("cp")
    if pl is None or pl["p"]:
        return None
    defs = du.defs.get(pl["l"], [])
    if len(defs) != 1 or defs[0][0] != "assign":
        return None
    rv = defs[0][3]["rv"]
    if rv["k"] == "agg" and rv["ak"] == "adt":
        return (norm(rv["adt"]), rv["variant"])
    if rv["k"] == "use":
        return agg_variant_of(du, rv["a"], depth + 1)
    return None


def lin_offset(body, du, op, depth=0):
    """(origin, k) when the operand equals origin + k through copies, casts and additions of constants;
    origin is ('param', local) | ('capture', name) | ('call', callee, bb) | ('field', name, origin) | ('const', n) | ('unknown', why)"""
    if depth > 12:
        return (("unknown", "depth"), 0)
    if "c" in op:
        n = const_int(op["c"])
        return (("const", n), 0) if n is not None else (("unknown", "const"), 0)
    pl = op.get("cp") or op.get("mv")
    return _lin_place(body, du, pl, depth)


def _lin_place(body, du, pl, depth):
    l = pl["l"]
    proj = [e for e in pl["p"]]
    names = [e.get("name") for e in proj if isinstance(e, dict) and "name" in e]
    if 1 <= l <= body.argc:
        if body.kind == "Closure" and l == 1 and names:
            return (("capture", names[0]) if len(names) == 1 else ("field", names[-1], ("capture", names[0])), 0)
        if not names:
            return (("param", l), 0)
        return (("field", names[-1], ("param", l)), 0)
    defs = du.defs.get(l, [])
    if len(defs) != 1:
        return (("unknown", "defs=%d" % len(defs)), 0)
    d = defs[0]
    if d[0] == "call":
        if names:
            return (("field", names[-1], ("call", callee_of(d[2]), d[1])), 0)
        return (("call", callee_of(d[2]), d[1]), 0)
    if d[0] != "assign":
        return (("unknown", d[0]), 0)
    rv = d[3]["rv"]
    if d[3]["place"]["p"]:
        return (("unknown", "partial"), 0)
    if rv["k"] == "binop" and rv["op"] in ("AddWithOverflow", "Add", "AddUnchecked"):
        if rv["op"] == "AddWithOverflow" and names != ["0"]:
            return (("unknown", "overflow-flag"), 0)
        ka = const_int(rv["b"].get("c")) if "c" in rv["b"] else None
        if ka is not None:
            o, k = lin_offset(body, du, rv["a"], depth + 1)
            return (o, k + ka)
        kb = const_int(rv["a"].get("c")) if "c" in rv["a"] else None
        if kb is not None:
            o, k = lin_offset(body, du, rv["b"], depth + 1)
            return (o, k + kb)
        return (("unknown", "add"), 0)
    if rv["k"] == "binop" and rv["op"] in ("SubWithOverflow", "Sub"):
        ka = const_int(rv["b"].get("c")) if "c" in rv["b"] else None
        if ka is not None:
            o, k = lin_offset(body, du, rv["a"], depth + 1)
            return (o, k - ka)
        return (("unknown", "sub"), 0)
    if rv["k"] in ("use", "cast") and not names:
        return lin_offset(body, du, rv["a"], depth + 1)
    if rv["k"] == "use" and names:
        o, k = lin_offset(body, du, rv["a"], depth + 1)
        return (("field", names[-1], o), 0)
    if rv["k"] == "agg" and names and rv["ak"] in ("adt", "tuple"):
        flds = rv.get("fields") or [str(i) for i in range(len(rv["ops"]))]
        if names[0] in flds:
            return lin_offset(body, du, rv["ops"][flds.index(names[0])], depth + 1)
    return (("unknown", rv["k"]), 0)


TRUNCATING = ("take", "skip", "take_while", "skip_while", "step_by", "nth", "last", "find", "find_map", "position", "max", "min", "max_by", "max_by_key",
              "min_by", "min_by_key", "zip", "unique", "unique_by", "dedup", "dedup_by", "dedup_by_key", "truncate", "pop", "first", "nth_back",
              "map_while", "fuse_first", "single", "exactly_one", "at_most_one", "find_or_first", "find_or_last", "reduce")


def lossy_ops(body, sl):
    """operations along a def-use slice that can drop elements of a collection: iterator truncators / single-element
    reductions, collecting key-value pairs into a map or a set (a second pair with the same key replaces the first),
    and Map::insert.  returns [(name, bb or None)]"""
    out = []
    allc = {}
    for d_ in (sl.calls, sl.decls):
        for c, bbs in d_.items():
            allc.setdefault(c, set()).update(bbs)
    for c, bbs in sorted(allc.items()):
        last = c.rsplit("::", 1)[-1]
        iterish = "iter::" in c or "Iterator" in c or "itertools" in c.lower() or c.startswith(("std::vec::Vec", "std::slice", "core::slice", "std::collections::VecDeque"))
        if last in TRUNCATING and iterish:
            out.append((last, min(bbs) if bbs else None))
        if last in ("collect", "from_iter"):
            for bb in sorted(bbs):
                t = body.blocks[bb].term
                tgt = " ".join([t.get("inst") or ""] + [str(x) for x in (t.get("targs") or [])][-1:])
                tail = (t.get("targs") or [""])[-1] if t.get("targs") else ""
                if any(tail.startswith(x) for x in ("std::collections::BTreeMap<", "std::collections::HashMap<", "std::collections::HashSet<", "std::collections::BTreeSet<")):
                    out.append(("collect-into-%s" % tail.split("<")[0].rsplit("::", 1)[-1], bb))
        if last == "insert" and any(x in c for x in ("BTreeMap", "HashMap", "DashMap")):
            # a single insert into a fresh map outside any loop cannot overwrite; inside a loop / closure it can
            from . import cfg as _cfg
            loopb = set()
            for t_, h in _cfg.natural_loops(body):
                loopb |= _cfg.loop_blocks(body, t_, h)
            if not bbs or any(x in loopb for x in bbs):
                out.append(("map-insert", min(bbs) if bbs else None))
    return out


def branch_conditions(body, bb, dom=None):
    """switches that control `bb`: [(switch bb, discr operand, value)] where value is the integer of the taken target,
    or ("not", [values]) for the otherwise edge.  A switch controls bb when one of its targets dominates bb and is
    entered only from the switch."""
    from . import cfg as _cfg
    dom = dom or _cfg.dominators(body)
    preds = {}
    for x, ss in body.succs().items():
        for y in ss:
            preds.setdefault(y, set()).add(x)
    out = []
    for d in dom.get(bb, ()):
        t = body.blocks[d].term
        if t["k"] != "switch" or d == bb:
            continue
        for v, tg in t["targets"]:
            if tg in dom[bb] and preds.get(tg) == {d} and tg != t["otherwise"]:
                out.append((d, t["discr"], int(v)))
        o = t["otherwise"]
        if o in dom[bb] and preds.get(o) == {d} and all(tg != o for _, tg in t["targets"]):
            out.append((d, t["discr"], ("not", [int(v) for v, _ in t["targets"]])))
    return out


def guarded_true_by_call(body, du, bb, callee_suffix, dom=None):
    """is bb controlled by the true branch of a boolean that derives from a call to callee_suffix"""
    for d, discr, val in branch_conditions(body, bb, dom):
        is_true = (val == 1) or (isinstance(val, tuple) and val[1] == [0])
        if not is_true:
            continue
        sl = du.slice_operand(discr)
        if sl.has_call(callee_suffix):
            return True
    return False


def capture_sources(F, body, names, depth=0):
    """for captured variable names of a closure / async body: {name: Slice of the parent's local with that name}.
    The link child-capture -> parent-local goes through the variable's name, which is the same identifier on both sides,
    so a rename keeps it; what the variable *is* should then be decided from the returned slice (fields, calls, type)."""
    from .defuse import DefUse
    out = {}
    par = F.bodies.get(body.parent) if getattr(body, "parent", None) else None
    if par is None:
        return out
    du = DefUse(par)
    for nm in names:
        l = par.local_by_name(nm)
        if l is not None:
            out[nm] = du.slice_local(l)
        elif par.kind == "Closure" and depth < 4:
            out.update(capture_sources(F, par, [nm], depth + 1))
    return out


def captures_with(F, body, sl, pred):
    """does any captured variable in slice `sl` come from a parent local whose slice satisfies pred"""
    src = capture_sources(F, body, sl.captures)
    return any(pred(v) for v in src.values())


def capture_types(F, body, names, depth=0):
    """{name: type string of the parent's local with that name}"""
    out = {}
    par = F.bodies.get(body.parent) if getattr(body, "parent", None) else None
    if par is None:
        return out
    for nm in names:
        l = par.local_by_name(nm)
        if l is not None:
            out[nm] = par.locals[l]["ty"]
        elif par.kind == "Closure" and depth < 4:
            out.update(capture_types(F, par, [nm], depth + 1))
    return out


def producers(body, du, op, depth=0, seen=None):
    """what computes an operand, following only plain copies, casts, arithmetic and references (no calls, no
    out-argument aliasing): [("call", callee) | ("field", (adt, name)) | ("const", c) | ("param", local) | ("other", kind)]"""
    from .facts import callee_of as _co, callee_decl as _cd, norm as _norm, place_fields as _pf
    seen = seen if seen is not None else set()
    out = []
    if "c" in op:
        return [("const", op["c"].get("int", op["c"].get("v")))]
    pl = op.get("mv") or op.get("cp")
    if pl is None:
        return [("other", "?")]
    fs = [(_norm(a) if a else None, n) for a, n in _pf(pl)]
    if fs and fs[-1][0] is not None and not fs[-1][0].startswith("("):
        return [("field", fs[-1])]
    l = pl["l"]     # tuple projections (the `.0` of checked arithmetic) are looked through
    if l in seen or depth > 12:
        return []
    seen.add(l)
    if 1 <= l <= body.argc:
        out.append(("param", l))
    for d in du.defs.get(l, []):
        if d[0] == "assign":
            rv = d[3]["rv"]
            if d[3]["place"]["p"]:
                continue
            if rv["k"] in ("use", "cast", "unop"):
                out += producers(body, du, rv["a"], depth + 1, seen)
            elif rv["k"] == "binop":
                out += producers(body, du, rv["a"], depth + 1, seen) + producers(body, du, rv["b"], depth + 1, seen)
            elif rv["k"] == "ref" or rv["k"] == "discr":
                fs2 = [(_norm(a) if a else None, n) for a, n in _pf(rv["p"])]
                out += [("field", fs2[-1])] if fs2 else producers(body, du, {"cp": {"l": rv["p"]["l"], "p": []}}, depth + 1, seen)
            elif rv["k"] == "agg":
                for o in rv.get("ops", []):
                    out += producers(body, du, o, depth + 1, seen)
            else:
                out.append(("other", rv["k"]))
        elif d[0] == "call":
            c = _co(d[2]) or _cd(d[2]) or ""
            last = c.rsplit("::", 1)[-1]
            if last in ("clone", "into", "from", "deref", "to_owned", "min", "max", "wrapping_add", "checked_add", "saturating_add", "unwrap_or", "unwrap", "expect") and d[2]["args"]:
                for a in d[2]["args"]:
                    out += producers(body, du, a, depth + 1, seen)
                out.append(("via", last))
            else:
                out.append(("call", c))
    return out


def affine(body, du, op, depth=0):
    """(coef, const) when op = coef * x + const for a single unknown x (a loop variable), through copies, casts, checked
    add / sub / mul with constants; None when it is not of that form"""
    if depth > 15:
        return None
    if "c" in op:
        n = op["c"].get("int")
        return (0, n) if n is not None else None
    pl = op.get("mv") or op.get("cp")
    if pl is None:
        return None
    defs = [d for d in du.defs.get(pl["l"], []) if d[0] == "assign" and not d[3]["place"]["p"]]
    calls = [d for d in du.defs.get(pl["l"], []) if d[0] == "call"]
    if len(defs) == 1 and not calls:
        rv = defs[0][3]["rv"]
        if rv["k"] in ("use", "cast"):
            return affine(body, du, rv["a"], depth + 1)
        if rv["k"] == "binop":
            a = affine(body, du, rv["a"], depth + 1)
            c = affine(body, du, rv["b"], depth + 1)
            if a is None or c is None:
                return None
            o = rv["op"].replace("WithOverflow", "").replace("Unchecked", "")
            if o == "Add":
                return (a[0] + c[0], a[1] + c[1])
            if o == "Sub":
                return (a[0] - c[0], a[1] - c[1])
            if o == "Mul":
                if a[0] == 0:
                    return (a[1] * c[0], a[1] * c[1])
                if c[0] == 0:
                    return (c[1] * a[0], c[1] * a[1])
            return None
    return (1, 0)


def producer_calls(body, du, op, depth=0, seen=None):
    """[(callee, bb)] of the calls whose result an operand is, looking through plain copies, casts, references, the
    payload of Option / Result / tuple values (match arms, `?`), and unwrap-like / conversion calls"""
    from .facts import callee_of as _co, callee_decl as _cd
    seen = seen if seen is not None else set()
    pl = op.get("mv") or op.get("cp")
    if pl is None or depth > 14:
        return []
    l = pl["l"]
    if l in seen:
        return []
    seen.add(l)
    out = []
    for d in du.defs.get(l, []):
        if d[0] == "assign":
            rv = d[3]["rv"]
            if rv["k"] in ("use", "cast", "unop"):
                out += producer_calls(body, du, rv["a"], depth + 1, seen)
            elif rv["k"] in ("ref", "discr"):
                out += producer_calls(body, du, {"cp": {"l": rv["p"]["l"], "p": []}}, depth + 1, seen)
            elif rv["k"] == "agg":
                for o in rv.get("ops", []):
                    out += producer_calls(body, du, o, depth + 1, seen)
        elif d[0] == "call":
            c = _cd(d[2]) or _co(d[2]) or ""
            last = c.rsplit("::", 1)[-1]
            if last in ("clone", "into", "from", "deref", "to_owned", "to_string", "unwrap", "expect", "unwrap_or", "ok_or", "ok_or_else", "branch", "from_residual", "map_err", "as_str", "as_ref", "to_uppercase", "parse", "try_from", "from_arg", "into_inner") and d[2]["args"]:
                for a in d[2]["args"][:1]:
                    out += producer_calls(body, du, a, depth + 1, seen)
            else:
                out.append((c, d[1]))
    return out
