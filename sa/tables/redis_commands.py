"""Frozen domain knowledge about Redis commands (Redis documentation, not this repository's text).

KEY_REMOVING: commands that can make an existing key disappear from the keyspace as an immediate effect of the
command itself (delete it, move it away, pop its last element, overwrite a destination with an empty result,
or give it an expiry that may already be in the past).
"""
KEY_REMOVING = {
    "DEL", "UNLINK", "EXPIRE", "EXPIREAT", "PEXPIRE", "PEXPIREAT", "RENAME", "RENAMENX", "MOVE",
    "LPOP", "RPOP", "RPOPLPUSH", "LREM", "LTRIM", "LMOVE", "BLMOVE", "BLPOP", "BRPOP", "BRPOPLPUSH",
    "SPOP", "SREM", "SMOVE", "HDEL", "ZREM", "ZREMRANGEBYLEX", "ZREMRANGEBYRANK", "ZREMRANGEBYSCORE",
    "ZPOPMIN", "ZPOPMAX", "BZPOPMIN", "BZPOPMAX", "EVAL", "EVALSHA", "GETDEL", "GETEX",
    "SINTERSTORE", "SDIFFSTORE", "SUNIONSTORE", "ZINTERSTORE", "ZUNIONSTORE", "ZDIFFSTORE", "ZRANGESTORE",
    "XTRIM", "RESTORE", "COPY", "SORT", "GEORADIUS", "GEORADIUSBYMEMBER", "GEOSEARCHSTORE", "LPOPRPUSH",
}
BLOCKING_VARIANTS = {"BLPOP": "LPOP", "BRPOP": "RPOP", "BRPOPLPUSH": "RPOPLPUSH", "BZPOPMIN": "ZPOPMIN", "BZPOPMAX": "ZPOPMAX"}

# value positions (1-based index of the element in the command array, element 0 = command name) of string *write* commands
STRING_WRITE_VALUE_POS = {"SET": [2], "SETNX": [2], "GETSET": [2], "SETEX": [3], "PSETEX": [3], "MSET": "even>=2", "MSETNX": "even>=2"}
STRING_READ = {"GET": "bulk", "GETSET": "bulk", "MGET": "array"}
# other commands of the Redis string family that would observe / modify the stored bytes
STRING_OTHER = {"APPEND", "BITCOUNT", "BITFIELD", "BITOP", "BITPOS", "DECR", "DECRBY", "GETBIT", "GETRANGE", "INCR", "INCRBY", "INCRBYFLOAT",
                "SETBIT", "SETRANGE", "STRLEN"}
RESP_PREFIX = {"Error": ord("-"), "Simple": ord("+"), "Integer": ord(":"), "Bulk": ord("$"), "Arr": ord("*")}


# arity as in the Redis command table (whole RESP array incl. the command name; negative = at least)
BLOCKING_ARITY = {"Blpop": -3, "Brpop": -3, "Brpoplpush": 4, "Bzpopmin": -3, "Bzpopmax": -3}
