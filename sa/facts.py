"""Loader for the MIR facts written by the umfacts driver, plus small accessors.

Everything here is purely structural: no undermoon code is executed.
"""
import json
import os
import re

LIB = "undermoon"
BINS = ("server_proxy", "coordinator", "mem_broker")


def norm(path):
    """Strip generic argument lists (`::<...>` and trailing `<...>`) from a def path so that
    `proxy::manager::MetaManager::<F, C>::set_meta` == `proxy::manager::MetaManager::set_meta`.
    Qualified forms `<T as Trait>::m` keep their outer brackets (inner args stripped)."""
    if path is None:
        return None
    out = []
    depth = 0
    i = 0
    n = len(path)
    # keep a leading '<' (qualified path) as structure
    lead = path.startswith("<")
    while i < n:
        c = path[i]
        if c == "<":
            if i == 0 and lead:
                out.append(c)
                i += 1
                continue
            depth += 1
            # drop a preceding '::'
            if depth == 1 and len(out) >= 2 and out[-1] == ":" and out[-2] == ":":
                out.pop()
                out.pop()
            i += 1
            continue
        if c == ">":
            if depth > 0:
                # '->' inside fn types
                if i > 0 and path[i - 1] == "-":
                    i += 1
                    continue
                depth -= 1
                i += 1
                continue
            out.append(c)
            i += 1
            continue
        if depth == 0:
            out.append(c)
        i += 1
    s = "".join(out)
    if s.startswith(LIB + "::"):
        s = s[len(LIB) + 2:]
    return s


def place_key(pl):
    """Readable canonical string of a place: _3.*.epoch"""
    parts = ["_%d" % pl["l"]]
    for e in pl["p"]:
        if e == "deref":
            parts.append("*")
        elif isinstance(e, dict):
            if "name" in e:
                parts.append(e["name"])
            elif "dc" in e:
                parts.append("as " + e["dc"])
            elif "idx" in e:
                parts.append("[_%d]" % e["idx"])
            elif "ci" in e:
                parts.append("[%d of %d%s]" % (e["ci"], e["of"], " from end" if e.get("fe") else ""))
            elif "sub" in e:
                parts.append("[%s]" % e["sub"])
            else:
                parts.append("?")
        else:
            parts.append("?")
    return ".".join(parts)


def place_fields(pl):
    """[(adt, field name)] along the projection"""
    return [(e.get("adt"), e["name"]) for e in pl["p"] if isinstance(e, dict) and "name" in e]


def op_place(op):
    if op is None:
        return None
    return op.get("cp") or op.get("mv")


def op_const(op):
    return op.get("c") if op else None


class Block:
    __slots__ = ("id", "stmts", "term", "cleanup")

    def __init__(self, d):
        self.id = d["id"]
        self.stmts = d["stmts"]
        self.term = d["term"]
        self.cleanup = d["cleanup"]


class Body:
    def __init__(self, d, crate, promoted_of=None, index=None):
        self.raw = d
        self.crate = crate
        self.promoted_of = promoted_of
        self.promoted_index = index
        if promoted_of is None:
            self.defpath = d["def"]
            self.path = norm(d["def"])
            self.kind = d["kind"]
            self.parent = norm(d.get("parent"))
            self.root = norm(d.get("root"))
            self.impl_self = d.get("impl_self")
            self.impl_adt = norm(d.get("impl_adt"))
            self.impl_trait = norm(d.get("impl_trait"))
            self.in_trait = norm(d.get("in_trait"))
            self.span = d["span"]
            self.exp_mac = d.get("exp_mac")
            self.sig = d.get("sig")
        else:
            self.defpath = promoted_of.defpath + "::promoted[%d]" % index
            self.path = promoted_of.path + "::promoted[%d]" % index
            self.kind = "Promoted"
            self.parent = promoted_of.path
            self.root = promoted_of.root
            self.impl_self = promoted_of.impl_self
            self.impl_adt = promoted_of.impl_adt
            self.impl_trait = promoted_of.impl_trait
            self.in_trait = promoted_of.in_trait
            self.span = promoted_of.span
            self.exp_mac = promoted_of.exp_mac
            self.sig = None
        self.argc = d["argc"]
        self.locals = d["locals"]
        self.blocks = [Block(b) for b in d["blocks"]]
        self.names = {}
        self.name_places = []
        for n in d["names"]:
            self.name_places.append((n["name"], n["place"]))
            if not n["place"]["p"]:
                self.names.setdefault(n["place"]["l"], n["name"])
        self.promoted = []
        if promoted_of is None:
            for i, p in enumerate(d.get("promoted", [])):
                self.promoted.append(Body(p, crate, promoted_of=self, index=i))
        self._succ = None
        self._pred = None

    # ------------------------------------------------------------------ basic accessors
    @property
    def file(self):
        return self.span["file"]

    @property
    def line(self):
        return self.span["lo"]

    @property
    def module(self):
        """module path of the root item: everything before the type/fn name"""
        p = self.root or self.path
        segs = p.split("::")
        # heuristics: module segments are lower-case identifiers
        out = []
        for s in segs:
            if s and (s[0].islower() or s[0] == "_") and not s.startswith("{"):
                out.append(s)
            else:
                break
        # the last lower-case seg may be the fn name itself
        if len(out) == len(segs):
            out = out[:-1]
        return "::".join(out)

    def is_mock(self):
        return self.exp_mac in ("automock", "mock") or "::Mock" in (self.path or "") or "::__mock_" in (self.path or "")

    def local_name(self, l):
        return self.names.get(l)

    def local_by_name(self, name):
        for l, n in self.names.items():
            if n == name:
                return l
        return None

    def local_ty(self, l):
        return self.locals[l]["ty"]

    def local_adt(self, l):
        return norm(self.locals[l].get("adt"))

    def iter_terms(self, cleanup=False):
        for b in self.blocks:
            if b.cleanup and not cleanup:
                continue
            yield b.id, b.term

    def calls(self, cleanup=False):
        """yield (bb, term) for every call terminator"""
        for b in self.blocks:
            if b.cleanup and not cleanup:
                continue
            if b.term["k"] == "call":
                yield b.id, b.term

    def assigns(self, cleanup=False):
        """yield (bb, idx, stmt) for assignments"""
        for b in self.blocks:
            if b.cleanup and not cleanup:
                continue
            for i, s in enumerate(b.stmts):
                if s["k"] == "assign":
                    yield b.id, i, s

    # ------------------------------------------------------------------ CFG
    def succ(self, bb, unwind=False, imaginary=False, yield_drop=False):
        t = self.blocks[bb].term
        k = t["k"]
        out = []
        if k in ("goto", "drop", "assert", "false_unwind"):
            out.append(t["target"])
        elif k == "call":
            if t["target"] is not None:
                out.append(t["target"])
        elif k == "switch":
            for _, tgt in t["targets"]:
                out.append(tgt)
            out.append(t["otherwise"])
        elif k == "yield":
            out.append(t["target"])
            if yield_drop and t.get("drop") is not None:
                out.append(t["drop"])
        elif k == "false_edge":
            out.append(t["target"])
            if imaginary:
                out.append(t["imaginary"])
        if unwind and t.get("unwind") is not None:
            out.append(t["unwind"])
        # dedupe, keep order
        seen = []
        for o in out:
            if o not in seen:
                seen.append(o)
        return seen

    def succs(self):
        if self._succ is None:
            self._succ = {b.id: self.succ(b.id) for b in self.blocks}
        return self._succ

    def preds(self):
        if self._pred is None:
            p = {b.id: [] for b in self.blocks}
            for b, ss in self.succs().items():
                for s in ss:
                    p[s].append(b)
            self._pred = p
        return self._pred

    def return_blocks(self):
        return [b.id for b in self.blocks if b.term["k"] == "return" and not b.cleanup]

    def callee(self, term):
        return callee_of(term)


def callee_of(term):
    """normalised callee path of a call terminator: resolved impl item if known, else the
    declared callee (trait item for unresolved trait calls)"""
    if term["k"] != "call":
        return None
    r = term.get("resolved")
    if r:
        return norm(r)
    c = term.get("callee")
    return norm(c) if c else None


def callee_decl(term):
    c = term.get("callee")
    return norm(c) if c else None


class Adt:
    def __init__(self, d):
        self.raw = d
        self.path = norm(d["def"])
        self.kind = d["kind"]
        self.variants = d["variants"]
        self.drop_fn = norm(d.get("drop_fn"))
        self.file = d["file"]
        self.line = d["line"]
        self.exp = d.get("exp")

    def field(self, name, variant=0):
        for f in self.variants[variant]["fields"]:
            if f["name"] == name:
                return f
        return None

    def fields(self, variant=0):
        return self.variants[variant]["fields"]

    def variant_names(self):
        return [v["name"] for v in self.variants]

    def variant_by_discr(self, d):
        for i, v in enumerate(self.variants):
            if int(v["discr"]) == d:
                return i, v
        return None, None


class Facts:
    def __init__(self, directory):
        self.dir = directory
        self.bodies = {}      # path -> Body (lib)
        self.by_crate = {}    # crate -> [Body]
        self.adts = {}
        self.impls = []
        self.headers = {}
        self._load()

    def _load(self):
        import gc
        for c in (LIB,) + BINS:
            s = os.path.join(self.dir, "%s.bodies.jsonl" % c)
            if not os.path.exists(s):
                raise FileNotFoundError(s)
        raw = {"bodies": {}, "adts": {}, "headers": {}}
        gc_was = gc.isenabled()
        gc.disable()
        try:
            for c in (LIB,) + BINS:
                with open(os.path.join(self.dir, "%s.bodies.jsonl" % c)) as f:
                    raw["bodies"][c] = [json.loads(l) for l in f if l.strip()]
                with open(os.path.join(self.dir, "%s.adts.json" % c)) as f:
                    raw["adts"][c] = json.load(f)
                with open(os.path.join(self.dir, "%s.header.json" % c)) as f:
                    raw["headers"][c] = json.load(f)
        finally:
            if gc_was:
                gc.enable()
                gc.freeze()
        self.headers = raw["headers"]
        for c in (LIB,) + BINS:
            lst = []
            for d in raw["bodies"][c]:
                b = Body(d, c)
                lst.append(b)
                if c == LIB:
                    # several closures can share a path only if rustc numbers them equally: it does not
                    self.bodies[b.path] = b
            self.by_crate[c] = lst
            for a in raw["adts"][c]["adts"]:
                ad = Adt(a)
                if c == LIB:
                    self.adts[ad.path] = ad
            for im in raw["adts"][c]["impls"]:
                im = dict(im)
                im["crate"] = c
                im["self_adt_n"] = norm(im.get("self_adt"))
                im["trait_n"] = norm(im.get("trait"))
                self.impls.append(im)
        from . import defuse
        defuse.install_closure_info(self)

    # ------------------------------------------------------------------ lookup helpers
    def all_bodies(self, bins=True, mocks=False):
        for c in ((LIB,) + BINS) if bins else (LIB,):
            for b in self.by_crate[c]:
                if not mocks and b.is_mock():
                    continue
                yield b

    def body(self, path):
        """exact normalised path"""
        return self.bodies.get(path)

    def find(self, suffix, kind=None):
        """bodies of the lib whose normalised path equals or ends with `::suffix`"""
        out = []
        for p, b in self.bodies.items():
            if p == suffix or p.endswith("::" + suffix):
                if kind and b.kind != kind:
                    continue
                if b.is_mock():
                    continue
                out.append(b)
        return out

    def one(self, suffix):
        r = self.find(suffix)
        if len(r) == 1:
            return r[0]
        return None

    def children(self, body):
        """closure / async bodies nested (transitively) in `body`"""
        out = []
        pref = body.path + "::{"
        for p, b in self.bodies.items():
            if p.startswith(pref):
                out.append(b)
        return out

    def family(self, body):
        return [body] + self.children(body)

    def adt(self, path):
        a = self.adts.get(path)
        if a:
            return a
        for p, ad in self.adts.items():
            if p.endswith("::" + path):
                return ad
        return None

    def impls_of_trait(self, trait_suffix):
        return [i for i in self.impls if i["trait_n"] and (i["trait_n"] == trait_suffix or i["trait_n"].endswith("::" + trait_suffix))]

    def has_impl(self, adt_path, trait_suffix):
        for i in self.impls_of_trait(trait_suffix):
            if i["self_adt_n"] == adt_path:
                return True
        return False

    def counts(self):
        return {
            "bodies": sum(h["bodies"] for h in self.headers.values()),
            "statements": sum(h["statements"] for h in self.headers.values()),
            "calls": sum(h["calls"] for h in self.headers.values()),
            "rustc": self.headers[LIB]["rustc"],
        }


_byte_re = re.compile(r'^(?:const )?b"(.*)"$', re.S)


def const_bytes(c):
    """bytes of a byte-string / str constant operand, or None"""
    if c is None:
        return None
    if "str" in c:
        return c["str"].encode("utf-8", "surrogateescape")
    v = c.get("v", "")
    m = _byte_re.match(v)
    if m:
        s = m.group(1)
        try:
            return bytes(s, "utf-8").decode("unicode_escape").encode("latin-1")
        except Exception:
            return s.encode()
    m = re.match(r'^(?:const )?"(.*)"$', v, re.S)
    if m:
        try:
            return bytes(m.group(1), "utf-8").decode("unicode_escape").encode("latin-1")
        except Exception:
            return m.group(1).encode()
    return None


def const_int(c):
    if c is None:
        return None
    if "int" in c:
        return int(c["int"])
    return None
