"""Infeasible-path pruning for path rules: the CFG is evaluated once per valuation of the
function's *correlated flags* (bool locals defined once by a call and deciding two or more
switches), after conditional constant propagation (A4).  A path rule holds when it holds in every
valuation."""
import itertools

from .defuse import DefUse
from .sccp import Interp, Oracle, Bool
from . import cfg


def _root_flag(body, du, local, depth=0):
    """follow copies / Not back to a bool local defined exactly once by a call"""
    if depth > 6:
        return None
    defs = du.defs.get(local, [])
    if len(defs) != 1:
        return None
    d = defs[0]
    if d[0] == "call":
        if body.locals[local]["ty"] == "bool":
            return (local, d[1])
        return None
    if d[0] == "assign":
        s = d[3]
        if s["place"]["p"]:
            return None
        rv = s["rv"]
        if rv["k"] == "use" or (rv["k"] == "unop" and rv["op"] == "Not"):
            pl = rv["a"].get("cp") or rv["a"].get("mv")
            if pl is not None and not pl["p"]:
                return _root_flag(body, du, pl["l"], depth + 1)
    return None


def correlated_flags(body, max_flags=3):
    du = DefUse(body)
    count = {}
    for bb, t in body.iter_terms():
        if t["k"] != "switch":
            continue
        pl = t["discr"].get("cp") or t["discr"].get("mv")
        if pl is None or pl["p"]:
            continue
        r = _root_flag(body, du, pl["l"])
        if r is not None:
            count[r] = count.get(r, 0) + 1
    flags = sorted([r for r, n in count.items() if n >= 2], key=lambda r: r[1])
    return flags[:max_flags]


def feasible_views(F, body, extra_oracle=None):
    """yield (valuation description, successor map restricted to executable edges, sccp result)"""
    flags = correlated_flags(body)
    out = []
    for vals in itertools.product((0, 1), repeat=len(flags)):
        assign = {flags[i][1]: vals[i] for i in range(len(flags))}   # defining bb -> value

        def call(interp, bb, term, argvals, assign=assign):
            if bb in assign:
                return Bool(assign[bb])
            if extra_oracle is not None:
                return extra_oracle(interp, bb, term, argvals)
            return None
        try:
            res = Interp(F, body, Oracle(call=call)).run()
            succs = cfg.exec_succs(body, res.exec_edges)
        except Exception:
            res = None
            succs = body.succs()
        desc = ",".join("%s=%d" % (body.local_name(flags[i][0]) or "_%d" % flags[i][0], vals[i]) for i in range(len(flags))) or "all"
        out.append((desc, succs, res))
    return out
