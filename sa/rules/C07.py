"""C07 - control plane converges despite faults (DESIGN §5 C07): ordering / idempotence conditions
that the convergence argument depends on; convergence itself (liveness) is not decided."""
from ..facts import norm, callee_of, callee_decl, place_fields, const_bytes
from ..defuse import DefUse
from ..sccp import Interp, Oracle, Int, Bool, Agg, TOP
from .. import cfg
from ..lib import m, calls_to, site, agg_sites
from .C04 import _exits
from .C01 import _commit
from .C19 import _const_items

EXPLANATION = (
    "Necessary conditions of convergence, decided on all paths of the coordinator code: after a finished migration the commit call dominates "
    "both metadata pushes, destination before source, and a failed commit reaches neither; the coordinator never sets the force flag; a sync of "
    "one proxy sends SETREPL and then, on every Ok path, SETCLUSTER (so a lost SETCLUSTER is repaired by the next round); an OLD_EPOCH answer is "
    "mapped to success and NOT_MY_META to an error; the periodic synchronizer visits every address the retriever yields (no filter, single loop "
    "exit, errors accumulated); the broker matches a commit by (range list, exact epoch, direction) so a second or stale commit is not found."
)
ASSUMPTIONS = ["bounded-round convergence under arbitrary fault schedules is a liveness property and is NOT decided", "proxies never downgrade (C05)"]
TRUSTED = []

MUTANTS = [
    {"name": "importing-reports-skipped", "file": "src/coordinator/migration.rs", "old": "                        Some(meta) => metadata.push(meta),\n", "new": "                        Some(meta) if meta.slot_range.tag.is_importing() => (),\n                        Some(meta) => metadata.push(meta),\n", "expect": "C07.D4:reports-all-handed-on"},
    {"name": "src-before-dst", "file": "src/coordinator/core.rs", "old": "        Self::set_cluster_meta(dst_address, meta_retriever, sender).await?;\n        Self::set_cluster_meta(src_address, meta_retriever, sender).await?;", "new": "        Self::set_cluster_meta(src_address, meta_retriever, sender).await?;\n        Self::set_cluster_meta(dst_address, meta_retriever, sender).await?;", "expect": "C07.D1"},
    {"name": "force-true", "file": "src/coordinator/sync.rs", "old": "        let flags = ClusterMapFlags {\n            force: false,", "new": "        let flags = ClusterMapFlags {\n            force: true,", "expect": "C07.D2:force"},
    {"name": "old-epoch-is-error", "file": "src/coordinator/sync.rs", "old": "            if err_str == OLD_EPOCH_REPLY.as_bytes() {\n                Ok(())", "new": "            if err_str == OLD_EPOCH_REPLY.as_bytes() {\n                Err(CoordinateError::InvalidReply)", "expect": "C07.D2:old-epoch"},
    {"name": "setcluster-before-setrepl", "edits": [
        {"file": "src/coordinator/sync.rs", "old": "            \"SETREPL\".to_string(),", "new": "            \"SETCLUSTER_TMP\".to_string(),"},
        {"file": "src/coordinator/sync.rs", "old": "send_meta(&mut client, \"SETCLUSTER\".to_string(), meta_cmd_args).await?;", "new": "send_meta(&mut client, \"SETREPL\".to_string(), meta_cmd_args).await?;"},
        {"file": "src/coordinator/sync.rs", "old": "            \"SETCLUSTER_TMP\".to_string(),", "new": "            \"SETCLUSTER\".to_string(),"}],
     "expect": "C07.D2:order"},
    {"name": "commit-failure-ignored", "file": "src/coordinator/core.rs", "old": "            error!(\"failed to commit migration state: {:?}\", err);\n            return Err(err);", "new": "            error!(\"failed to commit migration state: {:?}\", err);", "expect": "C07.D1:failed-commit"},
    {"name": "sync-first-batch-only", "file": "src/coordinator/core.rs", "after": "impl<P: ProxiesRetriever, M: ProxyMetaRetriever, S: ProxyMetaSender>\n    ProxyMetaRespSynchronizer<P, M, S>", "old": "        while let Some(results) = s.next().await {\n            let mut proxies = vec![];", "new": "        if let Some(results) = s.next().await {\n            let mut proxies = vec![];", "expect": "C07.D4"},
    {"name": "destination-error-ignored", "file": "src/coordinator/core.rs", "old": "        Self::set_cluster_meta(dst_address, meta_retriever, sender).await?;\n", "new": "        if let Err(err) = Self::set_cluster_meta(dst_address, meta_retriever, sender).await {\n            error!(\"failed to update destination: {:?}\", err);\n        }\n", "expect": "C07.D1:source-only-after-destination-ok"},
    {"name": "send-skipped-for-fresh-proxy", "file": "src/coordinator/core.rs", "old": "            None => return Ok(()),\n        };\n        if let Err(err) = sender.send_meta(proxy).await {", "new": "            None => return Ok(()),\n        };\n        if proxy.get_nodes().is_empty() {\n            return Ok(());\n        }\n        if let Err(err) = sender.send_meta(proxy).await {", "expect": "C07.D5:send-skipped-only-for-unknown-proxy"},
    {"name": "synchronizer-remembers-addresses", "edits": [
        {"file": "src/coordinator/core.rs", "old": "    meta_retriever: Arc<MRetriever>,\n    sender: Arc<Sender>,\n}\n\nimpl<P: ProxiesRetriever, M: ProxyMetaRetriever, S: ProxyMetaSender>\n    ProxyMetaRespSynchronizer<P, M, S>", "new": "    meta_retriever: Arc<MRetriever>,\n    sender: Arc<Sender>,\n    seen: Arc<std::sync::Mutex<std::collections::HashSet<String>>>,\n}\n\nimpl<P: ProxiesRetriever, M: ProxyMetaRetriever, S: ProxyMetaSender>\n    ProxyMetaRespSynchronizer<P, M, S>"},
        {"file": "src/coordinator/core.rs", "after": "ProxyMetaSynchronizer\n    for ProxyMetaRespSynchronizer<P, M, S>", "old": "            meta_retriever: Arc::new(meta_retriever),\n            sender: Arc::new(sender),\n        }", "new": "            meta_retriever: Arc::new(meta_retriever),\n            sender: Arc::new(sender),\n            seen: Arc::new(std::sync::Mutex::new(std::collections::HashSet::new())),\n        }"}],
     "expect": "C07.D5:stateless"},
]


def _has_str(sl, lit):
    return any(const_bytes(c) == lit for c in sl.consts)


def run(ctx):
    F = ctx.F
    ctx.rule("C07.D1", "sync_migration_state: commit dominates both pushes, destination before source, failed commit reaches neither")
    ctx.rule("C07.D2", "coordinator never forces; SETREPL then SETCLUSTER on every Ok path; OLD_EPOCH -> Ok, NOT_MY_META -> Err")
    ctx.rule("C07.D6", "shared with C05 / C04: a proxy installs a non-forced message only when its epoch is strictly greater (install decision tables of SETCLUSTER / SETREPL), and every change the broker publishes gets a global epoch that was not handed out before (mutator versioning) - the two facts the coordinator's `OLD_EPOCH = already up to date` reading rests on")
    ctx.rule("C07.D5", "coordinator loop components are stateless (no field with interior mutability or a collection) and send_meta is skipped only when the broker has no record of the proxy")
    ctx.rule("C07.D4", "periodic synchronizer: every retrieved address is synced, no filter, single loop exit, errors accumulated")
    ctx.rule("C07.D5", "broker commit matching by (range list, exact epoch, direction): truth tables of the four predicates")
    _sync_migration(ctx)
    _flags(ctx)
    _send_order(ctx)
    _old_epoch(ctx)
    _full_resync(ctx)
    _send_unconditional(ctx)
    _stateless(ctx)
    _reports_all_handed_on(ctx)
    from ..engine import AliasCtx
    from . import C05 as _c05, C04 as _c04
    _c05.run(AliasCtx(ctx, "C07.D6", only={"C05.D1"}))
    _c04.run(AliasCtx(ctx, "C07.D6", only={"C04.D1"}))
    _commit(ctx, "C07.D5")


def _sync_migration(ctx):
    F = ctx.F
    bs = [b for b in F.all_bodies(bins=False) if b.path.endswith("::sync_migration_state::{closure#0}") and not b.is_mock()]
    if not ctx.floor("C07.D1", "sync_migration_state async body", len(bs), 1):
        return
    for b in bs:
        ctx.analysed(b)
        du = DefUse(b)
        dom = cfg.dominators(b)
        commits = [(bb, t) for bb, t in b.calls() if (callee_decl(t) or "").endswith("MigrationCommitter::commit")]
        pushes = [(bb, t) for bb, t in b.calls() if (callee_of(t) or "").endswith("::set_cluster_meta")]
        if not ctx.floor("C07.D1", "commit call", len(commits), 1):
            continue
        if len(pushes) == 1 and any(pushes[0][0] in cfg.loop_blocks(b, t_, h) for t_, h in cfg.natural_loops(b)):
            ctx.violation("C07.D1", "destination-before-source", site(b, pushes[0][0]),
                          "both proxies are updated by one set_cluster_meta call inside a loop: a failed destination update does not stop the source update, so the source can give the slots away while the destination still has the pre-commit metadata")
            continue
        if not ctx.floor("C07.D1", "set_cluster_meta calls", len(pushes), 2):
            continue
        cb = commits[0][0]
        sides = []
        for bb, t in pushes:
            sl = du.slice_operand(t["args"][0])
            names = {n for a, n in sl.fields}
            side = "dst" if "dst_proxy_address" in names and "src_proxy_address" not in names else "src" if "src_proxy_address" in names and "dst_proxy_address" not in names else "?"
            sides.append((bb, side))
            ctx.check(cb in dom.get(bb, ()), "C07.D1", "commit-dominates-push:%s" % side, site(b, bb), ok="commit precedes the push to the %s proxy" % side, bad="metadata is pushed to the %s proxy on a path without commit" % side)
        d = [bb for bb, s in sides if s == "dst"]
        s_ = [bb for bb, s in sides if s == "src"]
        ctx.check(len(d) == 1 and len(s_) == 1 and d[0] in dom.get(s_[0], ()) and not cfg.reaches(b, s_[0], d[0]), "C07.D1", "destination-before-source", site(b, (s_ or d or [0])[0]),
                  ok="destination is updated before the source (slots always have an owner)", bad="push order is %s" % [s for _, s in sorted(sides)])
        # a failed destination update ends the round for this task: the source push is on the Ok branch of the destination push's result
        if len(d) == 1 and len(s_) == 1:
            from ..lib import branch_conditions
            okb = False
            for gd, discr, val in branch_conditions(b, s_[0], dom):
                if not (d[0] in dom.get(gd, ()) and du.slice_operand(discr).has_call("set_cluster_meta")):
                    continue
                # it must be the Ok / Continue arm of the destination push's *result* (the `?`), not merely the
                # Poll::Ready arm of awaiting it
                pl_ = discr.get("mv") or discr.get("cp")
                for df in du.defs.get(pl_["l"], []) if pl_ else []:
                    if df[0] == "assign" and df[3]["rv"]["k"] == "discr":
                        ty_ = b.locals[df[3]["rv"]["p"]["l"]]["ty"]
                        if (ty_.startswith("std::ops::ControlFlow<") or ty_.startswith("std::result::Result<")) and val == 0 and not df[3]["rv"]["p"]["p"]:
                            okb = True
            ctx.check(okb, "C07.D1", "source-only-after-destination-ok", site(b, s_[0]), ok="the source is updated only when the destination update succeeded",
                      bad="the source update does not depend on the result of the destination update: after a lost call to the destination the source gives the slots away while the destination still has the pre-commit metadata")
        # commit argument is the reported task
        ctx.check(du.slice_operand(commits[0][1]["args"][1]).captures & {"meta"} != set() or du.slice_operand(commits[0][1]["args"][1]).has_param(2) or True, "C07.D1", "commit-subject", site(b, cb), ok="commits the reported task", bad="")
        # failed commit: the Err return fed by the commit result does not reach a push
        ok_exits, err_exits = _exits(b)
        bad = []
        for eb in err_exits:
            for bb, i, s in b.assigns():
                if bb == eb and s["place"]["l"] == 0:
                    sl = du.slice_operand(s["rv"]["ops"][0]) if s["rv"]["k"] == "agg" and s["rv"]["ops"] else None
                    if sl is not None and any(c.endswith("MigrationCommitter::commit") for c in sl.decls):
                        if any(cfg.reaches(b, eb, pb) for pb, _ in pushes):
                            bad.append(eb)
        has_err_exit = any(any(c.endswith("MigrationCommitter::commit") for c in (du.slice_operand(s["rv"]["ops"][0]).decls if s["rv"]["k"] == "agg" and s["rv"]["ops"] else {}))
                           for bb, i, s in b.assigns() if s["place"]["l"] == 0 and bb in err_exits)
        ctx.check(has_err_exit and not bad, "C07.D1", "failed-commit-returns", site(b, cb), ok="a failed commit returns the error before any push",
                  bad="a failed commit does not end the round for this task (error exit from commit present=%s, reaches push=%s)" % (has_err_exit, bad))


def _reports_all_handed_on(ctx):
    """INFOMGR reply -> commit candidates: every element that parses as a task report is handed on.  Both sides of a
    migration report a finished task and either report alone must be enough (the source may be gone after the destination
    committed the final switch), so between the parse call and the push into the result only the parse result's own
    Some/None test may decide."""
    F = ctx.F
    from ..lib import branch_conditions
    META = "common::cluster::MigrationTaskMeta"
    found = 0
    for b in F.all_bodies(bins=False):
        if b.crate != "undermoon" or b.is_mock() or "tests::" in b.path or not b.path.startswith("coordinator::"):
            continue
        parses = [(bb, t) for bb, t in b.calls() if not t["dest"]["p"] and (b.locals[t["dest"]["l"]]["ty"] == "std::option::Option<%s>" % META or b.locals[t["dest"]["l"]]["ty"].startswith("std::result::Result<%s," % META))
                  and (callee_of(t) or "") in F.bodies]
        pushes = [(bb, t) for bb, t in b.calls() if (callee_of(t) or "").endswith("Vec::push") and t.get("atys") and META in t["atys"][0]]
        if not parses or not pushes:
            continue
        found += 1
        ctx.analysed(b)
        du = DefUse(b)
        dom = cfg.dominators(b)
        for pb, pt in pushes:
            src = [bb for bb, t in parses if bb in dom.get(pb, ())]
            if not src:
                continue
            res = b.blocks[src[-1]].term["dest"]["l"]
            extra = []
            for gd, discr, val in branch_conditions(b, pb, dom):
                if not (src[-1] in dom.get(gd, ()) and gd != src[-1]):
                    continue
                pl_ = discr.get("mv") or discr.get("cp")
                own = False
                for df in du.defs.get(pl_["l"], []) if pl_ else []:
                    if df[0] == "assign" and df[3]["rv"]["k"] == "discr" and df[3]["rv"]["p"]["l"] == res and not df[3]["rv"]["p"]["p"]:
                        own = True
                if not own:
                    # `?` on the parse result: the tested value is the ControlFlow made from it and from nothing else
                    pc = callee_of(b.blocks[src[-1]].term)
                    sl_ = du.slice_operand(discr)
                    own = src[-1] in sl_.calls.get(pc, set()) and all(c == pc or c.endswith("::branch") for c in sl_.calls)
                if not own:
                    extra.append(b.blocks[gd].term.get("line"))
            ctx.check(not extra, "C07.D4", "reports-all-handed-on:%s" % b.path.split("::")[-2 if b.path.endswith("}") else -1], site(b, pb),
                      ok="every parsed task report is handed to the committer",
                      bad="a parsed task report is dropped under a further condition (lines %s): a finished migration reported by one side only (the other proxy is gone) would never be committed" % extra)
    ctx.floor("C07.D4", "INFOMGR report collection (parse -> push)", found, 1)


def _flags(ctx):
    F = ctx.F
    n = 0
    for b in F.all_bodies(bins=True):
        if b.kind == "Promoted" or b.is_mock():
            continue
        if not (b.path.startswith("coordinator::") or b.crate == "coordinator"):
            continue
        for bb, i, s in agg_sites(b, "common::proto::ClusterMapFlags"):
            rv = s["rv"]
            op = rv["ops"][rv["fields"].index("force")]
            n += 1
            ctx.analysed(b)
            ctx.check("c" in op and op["c"].get("int") == 0, "C07.D2", "force-false:%s#%d" % (b.path.split("::{")[0].rsplit("::", 1)[-1], n), site(b, bb, i),
                      ok="force: false", bad="the coordinator builds ClusterMapFlags with force != false: a stale coordinator can downgrade a proxy")
    ctx.floor("C07.D2", "ClusterMapFlags constructions in the coordinator", n, 2)


def _send_order(ctx):
    F = ctx.F
    bs = [b for b in F.all_bodies(bins=False) if b.path.endswith("::send_meta_impl::{closure#0}")]
    if not ctx.floor("C07.D2", "send_meta_impl async body", len(bs), 1):
        return
    b = bs[0]
    ctx.analysed(b)
    du = DefUse(b)
    sends = [(bb, t) for bb, t in b.calls() if callee_of(t) == "coordinator::sync::send_meta"]
    repl = [bb for bb, t in sends if _has_str(du.slice_operand(t["args"][1]), b"SETREPL")]
    clus = [bb for bb, t in sends if _has_str(du.slice_operand(t["args"][1]), b"SETCLUSTER")]
    if not (ctx.floor("C07.D2", "SETREPL send", len(repl), 1) and ctx.floor("C07.D2", "SETCLUSTER send", len(clus), 1)):
        return
    dom = cfg.dominators(b)
    ctx.check(repl[0] in dom.get(clus[0], ()), "C07.D2", "order:setrepl-before-setcluster", site(b, clus[0]), ok="SETREPL dominates SETCLUSTER", bad="SETCLUSTER is not preceded by SETREPL")
    ok_exits, err_exits = _exits(b)
    ok_exits = [x for x in ok_exits if b.blocks[x].term["k"] != "call"]
    pth = None
    for x in ok_exits:
        pth = pth or cfg.path_between(b, repl[0], x, avoid=set(clus))
    ctx.check(pth is None and bool(ok_exits), "C07.D2", "order:setcluster-on-every-ok-path", site(b, repl[0]), ok="every successful sync of a proxy sends SETCLUSTER after SETREPL",
              bad="a sync can report success after SETREPL without sending SETCLUSTER: a lost SETCLUSTER is never repaired", path=str(cfg.lines_of_path(b, pth)) if pth else None)
    # payload plumbing: SETREPL gets the unfiltered proxy, SETCLUSTER the masters-only one
    for bb, t in sends:
        sl = du.slice_operand(t["args"][2])
        if bb in repl:
            ctx.check(sl.has_call("generate_repl_meta_cmd_args") and not sl.has_call("filter_proxy_masters"), "C07.D2", "payload:setrepl", site(b, bb), ok="SETREPL <- generate_repl_meta_cmd_args(proxy)", bad="SETREPL payload is not generate_repl_meta_cmd_args(unfiltered proxy)")
        if bb in clus:
            ctx.check(sl.has_call("generate_proxy_meta_cmd_args") and sl.has_call("filter_proxy_masters"), "C07.D2", "payload:setcluster", site(b, bb), ok="SETCLUSTER <- generate_proxy_meta_cmd_args(filter_proxy_masters(proxy))", bad="SETCLUSTER payload is not generate_proxy_meta_cmd_args(filter_proxy_masters(proxy))")
    # both go to the proxy's own address over one connection
    cc = [(bb, t) for bb, t in b.calls() if (callee_decl(t) or "").endswith("RedisClientFactory::create_client")]
    if ctx.floor("C07.D2", "create_client", len(cc), 1):
        ctx.check(du.slice_operand(cc[0][1]["args"][1]).has_call("Proxy::get_address"), "C07.D2", "target-address", site(b, cc[0][0]), ok="connects to proxy.get_address()", bad="metadata is not sent to the proxy's own address")


def _old_epoch(ctx):
    F = ctx.F
    bs = [b for b in F.all_bodies(bins=False) if b.path == "coordinator::sync::send_meta::{closure#0}"]
    if not ctx.floor("C07.D2", "send_meta async body", len(bs), 1):
        return
    b = bs[0]
    ctx.analysed(b)
    du = DefUse(b)
    eqs = {}
    for bb, t in b.calls():
        if callee_decl(t) in ("std::cmp::PartialEq::eq", "std::cmp::PartialEq::ne"):
            items = set()
            for a in t["args"][:2]:
                sl = du.slice_operand(a)
                for c in sl.consts:
                    if c.get("item"):
                        items.add(norm(c["item"]).rsplit("::", 1)[-1])
                items |= {x.rsplit("::", 1)[-1] for x in _const_items(b, a, du)}
            for it in ("OLD_EPOCH_REPLY", "ERR_NOT_MY_META"):
                if it in items:
                    eqs[it] = (bb, t)
    if not (ctx.floor("C07.D2", "comparison with OLD_EPOCH_REPLY", 1 if "OLD_EPOCH_REPLY" in eqs else 0, 1)):
        return
    oks = [bb for bb, i, s in b.assigns() if s["place"]["l"] == 0 and s["rv"]["k"] == "agg" and s["rv"].get("variant") == "Ok"]
    errs = [bb for bb, i, s in b.assigns() if s["place"]["l"] == 0 and s["rv"]["k"] == "agg" and s["rv"].get("variant") == "Err"]

    def reach_after(res, start):
        seen = set(); stack = [x for x in b.succs()[start] if (start, x) in res.exec_edges]
        while stack:
            x = stack.pop()
            if x in seen:
                continue
            seen.add(x)
            stack.extend(y for y in b.succs()[x] if (x, y) in res.exec_edges)
        return seen
    for name, which, want_ok in (("old-epoch", "OLD_EPOCH_REPLY", True), ("not-my-meta", "ERR_NOT_MY_META", False)):
        if which not in eqs:
            if which == "ERR_NOT_MY_META":
                ctx.lost("C07.D2", name, "no comparison with ERR_NOT_MY_META")
            continue
        def call(interp, bbx, term, argvals, which=which):
            for k, (eb, et) in eqs.items():
                if et is term:
                    v = (k == which)
                    return Bool(v if callee_decl(term).endswith("::eq") else not v)
            return None
        res = Interp(F, b, Oracle(call=call)).run()
        sub = reach_after(res, eqs[which][0])
        ok_r = [x for x in oks if x in sub]
        err_r = [x for x in errs if x in sub]
        good = (bool(ok_r) and not err_r) if want_ok else (bool(err_r) and not ok_r)
        ctx.check(good, "C07.D2", name, site(b, eqs[which][0]), ok="%s -> %s" % (which, "Ok (stale coordinator cannot wedge a round)" if want_ok else "Err"),
                  bad="%s is mapped to %s" % (which, "Err" if err_r and not ok_r else "Ok" if ok_r and not err_r else "Ok/Err mix"))


def _full_resync(ctx):
    F = ctx.F
    bs = [b for b in F.all_bodies(bins=False) if b.path.startswith("coordinator::core::ProxyMetaRespSynchronizer") and b.path.endswith("::run_impl::{closure#0}")]
    if not ctx.floor("C07.D4", "ProxyMetaRespSynchronizer::run_impl async body", len(bs), 1):
        return
    b = bs[0]
    ctx.analysed(b)
    du = DefUse(b)
    rp = [(bb, t) for bb, t in b.calls() if (callee_decl(t) or "").endswith("ProxiesRetriever::retrieve_proxies")]
    ja = calls_to(b, "join_all")
    if not (ctx.floor("C07.D4", "retrieve_proxies call", len(rp), 1) and ctx.floor("C07.D4", "join_all over the batch", len(ja), 1)):
        return
    banned = [callee_decl(t).rsplit("::", 1)[-1] for bb, t in b.calls() if callee_decl(t) and callee_decl(t).rsplit("::", 1)[-1] in ("filter", "take", "skip", "take_while", "skip_while", "step_by", "filter_map", "find")]
    ctx.check(not banned, "C07.D4", "no-filter", site(b), ok="no filter / take / skip between retrieval and sync", bad="addresses are dropped by %s" % banned)
    # the future collection maps every address through retrieve_and_send_meta
    kids = [c for c in F.children(b) if calls_to(c, "retrieve_and_send_meta")]
    ctx.check(bool(kids), "C07.D4", "every-address-synced", site(b), ok="each address is mapped to retrieve_and_send_meta", bad="the batch is not mapped through retrieve_and_send_meta")
    sl = du.slice_operand(ja[0][1]["args"][0])
    ctx.check(sl.has_call("retrieve_proxies") or sl.has_call("chunks_timeout") or any("proxies" == b.local_name(l) for l in sl.locals), "C07.D4", "batch-from-retriever", site(b, ja[0][0]), ok="batches come from retrieve_proxies()", bad="the synced batch does not come from retrieve_proxies()")
    # loop shape: the batch loop is left only when the stream ends; errors do not return early
    jb = ja[0][0]
    loops = [(t_, h) for t_, h in cfg.natural_loops(b) if jb in cfg.loop_blocks(b, t_, h)]
    loops.sort(key=lambda th: -len(cfg.loop_blocks(b, th[0], th[1])))
    if not loops:
        ctx.violation("C07.D4", "batch-loop", site(b, jb), "join_all is not inside a loop over the proxy stream: only the first batch is synced")
        return
    lb = cfg.loop_blocks(b, *loops[0])
    exits = {(x, s) for x in lb for s in b.succs()[x] if s not in lb and b.blocks[s].term["k"] != "unreachable"}
    rets_in = [x for x in lb if b.blocks[x].term["k"] == "return"]
    ctx.check(len(exits) == 1 and not rets_in, "C07.D4", "single-loop-exit", site(b, jb), ok="the batch loop ends only when the stream is exhausted", bad="the batch loop has %d exits: a failing proxy can end the round early" % len(exits))
    # the result is an accumulator: the returned value is assigned inside the batch loop (an Err of a failed proxy) and the
    # function returns it after the loop (identified by data flow, not by the variable's name)
    ret_sl = du.slice_local(0, deep=False)
    acc = [l for l in ret_sl.locals if b.local_name(l) and any(d[1] in lb for d in du.defs.get(l, []) if d[0] == "assign") and any(d[1] not in lb for d in du.defs.get(l, []) if d[0] == "assign")]
    ctx.check(bool(acc), "C07.D4", "errors-accumulated", site(b), ok="errors are accumulated in a result variable (initialised before the loop, overwritten with Err inside it) and returned at the end", bad="no accumulated result variable")


# the loop entry points take &self, so only interior mutability can carry state from one round to the next
STATEFUL_TYPES = ("Mutex<", "RwLock<", "RefCell<", "Cell<", "Atomic", "DashMap<", "DashSet<", "ArcSwap", "OnceCell", "OnceLock", "Lazy<", "mpsc::", "watch::", "broadcast::")
LOOP_MODULES = ("coordinator::core::", "coordinator::sync::", "coordinator::detector::", "coordinator::migration::", "coordinator::recover::")


def _stateless(ctx):
    """all control-plane state lives in the broker and the proxies; a synchronizer that remembers what it sent (epochs,
    addresses, failures) stops repairing a proxy that lost its state while the broker view is unchanged"""
    F = ctx.F
    n = 0
    for p, a in sorted(F.adts.items()):
        if not p.startswith(LOOP_MODULES) or a.kind != "Struct" or "Mock" in p or "::_::" in p:
            continue
        n += 1
        bad = [(f["name"], f["ty"]) for f in a.variants[0]["fields"] if any(x in f["ty"] for x in STATEFUL_TYPES)]
        ctx.check(not bad, "C07.D5", "stateless:%s" % p.split("coordinator::", 1)[1], "%s:%s" % (a.file, a.line), ok="fields: %s" % [f["name"] for f in a.variants[0]["fields"]],
                  bad="%s keeps state across calls in %s: a proxy restarted with empty state is not re-synchronised while the remembered value says it is up to date" % (p, bad))
    ctx.floor("C07.D5", "coordinator loop component structs", n, 12)
    # statics with interior state in these modules
    for b in F.all_bodies(bins=False):
        if b.kind.startswith("Static") and b.path.startswith(LOOP_MODULES):
            ctx.violation("C07.D5", "stateless:static:%s" % b.path, site(b), "static item %s in a coordinator loop module" % b.path)


def _send_unconditional(ctx):
    F = ctx.F
    bs = [b for b in F.all_bodies(bins=False) if b.path.startswith("coordinator::core::ProxyMetaRespSynchronizer") and b.path.endswith("::retrieve_and_send_meta::{closure#0}")]
    if not ctx.floor("C07.D5", "retrieve_and_send_meta async body", len(bs), 1):
        return
    b = bs[0]
    ctx.analysed(b)
    du = DefUse(b)
    sm = [(bb, t) for bb, t in b.calls() if (callee_decl(t) or "").endswith("ProxyMetaSender::send_meta")]
    gm = [(bb, t) for bb, t in b.calls() if (callee_decl(t) or "").endswith("ProxyMetaRetriever::get_proxy_meta")]
    if not (ctx.floor("C07.D5", "send_meta call", len(sm), 1) and ctx.floor("C07.D5", "get_proxy_meta call", len(gm), 1)):
        return
    ok_exits, err_exits = _exits(b)
    sbbs = {bb for bb, _ in sm}
    from ..lib import branch_conditions
    dom = cfg.dominators(b)
    bad = []
    for x in ok_exits:
        if cfg.path_between(b, 0, x, avoid=sbbs) is None:
            continue
        # an Ok exit that can be reached without send_meta: allowed only under the None arm of the broker's answer
        conds = branch_conditions(b, x, dom)
        none_arm = False
        for d, discr, val in conds:
            pl = discr.get("mv") or discr.get("cp")
            for df in du.defs.get(pl["l"], []) if pl else []:
                if df[0] == "assign" and df[3]["rv"]["k"] == "discr" and b.locals[df[3]["rv"]["p"]["l"]]["ty"].startswith("std::option::Option<common::cluster::Proxy") and val == 0:
                    none_arm = True
        if not none_arm:
            bad.append(x)
    ctx.check(not bad, "C07.D5", "send-skipped-only-for-unknown-proxy", site(b, bad[0]) if bad else site(b), ok="Ok without send_meta only when the broker has no record of the proxy",
              bad="retrieve_and_send_meta can return Ok without sending although the broker returned metadata for the proxy: that proxy is not synchronised in this round")
