"""Index tables of a chunk (4 nodes, 2 proxies, 2 parts) extracted by conditional constant
propagation from the broker's view builder and from the store's index helpers.  Shared by C01,
C02 and C06."""
from ..facts import norm, callee_of, callee_decl, place_fields
from ..defuse import DefUse
from ..sccp import Interp, Oracle, Int, Agg, Some, TOP
from ..lib import m, calls_to, agg_sites, site

CRP = "broker::store::ChunkRolePosition"
CHS = "broker::store::ChunkStore"


class Tables:
    pass


def extract(ctx, rule):
    """returns Tables or None (anchor lost is reported into ctx)"""
    F = ctx.F
    T = Tables()
    crp = F.adt(CRP)
    if crp is None:
        ctx.lost(rule, "ChunkRolePosition", "enum not found")
        return None
    T.positions = [v["name"] for v in crp.variants]
    # ------------------------------------------------ store helpers
    T.node_index = {}
    T.proxy_index = {}
    for fn, tab in (("MigrationSlotRangeStore::chunk_part_to_node_index", T.node_index), ("MigrationSlotRangeStore::chunk_part_to_proxy_index", T.proxy_index)):
        b = F.one(fn)
        if b is None:
            ctx.lost(rule, fn, "function not found")
            return None
        ctx.analysed(b)
        for part in (0, 1):
            for vi, v in enumerate(crp.variants):
                r = Interp(F, b, Oracle(args={1: Int(part), 2: Agg(crp.path, vi, ())})).run().return_value()
                if r is None or r[0] != "int":
                    ctx.lost(rule, "%s(%d,%s)" % (fn, part, v["name"]), "result is not a constant: %s" % (r,))
                    return None
                tab[(part, v["name"])] = r[1]
    T.helpers = (F.one("MigrationSlotRangeStore::chunk_part_to_node_index"), F.one("MigrationSlotRangeStore::chunk_part_to_proxy_index"))
    # ------------------------------------------------ view builder: the closure that builds the nodes of a chunk
    view = None
    for b in F.find("MetaStoreQuery::cluster_store_to_cluster"):
        view = b
    if view is None:
        ctx.lost(rule, "cluster_store_to_cluster", "function not found")
        return None
    cands = [c for c in F.children(view) if calls_to(c, "Node::new") and calls_to(c, "ReplMeta::new")]
    if len(cands) != 1:
        ctx.lost(rule, "cluster_store_to_cluster node loop", "expected one closure building Node/ReplMeta, found %d" % len(cands))
        return None
    b = cands[0]
    T.view_body = b
    ctx.analysed(view, b)
    du = DefUse(b)
    node_new = calls_to(b, "Node::new")[0]
    repl_new = calls_to(b, "ReplMeta::new")[0]
    peers = agg_sites(b, "ReplPeer")
    if len(peers) != 1:
        ctx.lost(rule, "ReplPeer construction", "expected 1, found %d" % len(peers))
        return None
    prv = peers[0][2]["rv"]

    def get_sites(op):
        sl = du.slice_operand(op)
        out = set()
        for c, bbs in sl.calls.items():
            if c.endswith("slice::<impl [T]>::get") or c.endswith("slice::get") or c.endswith("Vec::get"):
                out |= bbs
        return out
    own_node = get_sites(node_new[1]["args"][0])
    own_proxy = get_sites(node_new[1]["args"][1])
    peer_node = get_sites(prv["ops"][prv["fields"].index("node_address")])
    peer_proxy = get_sites(prv["ops"][prv["fields"].index("proxy_address")])
    for nm, st in (("own node", own_node), ("own proxy", own_proxy), ("peer node", peer_node), ("peer proxy", peer_proxy)):
        if len(st) != 1:
            ctx.lost(rule, "index lookup for %s" % nm, "expected exactly one slice get feeding it, found %s" % sorted(st))
            return None
    # which array each lookup indexes
    def recv_field(bb):
        t = b.blocks[bb].term
        sl = du.slice_operand(t["args"][0], deep=False)
        return {n for a, n in sl.fields if a == CHS}
    T.lookup_fields = {"own_node": recv_field(next(iter(own_node))), "own_proxy": recv_field(next(iter(own_proxy))),
                       "peer_node": recv_field(next(iter(peer_node))), "peer_proxy": recv_field(next(iter(peer_proxy)))}
    # statements reading stable_slots[k] / migrating_slots[k]
    slot_reads = []
    for bb, i, s in b.assigns():
        rv = s["rv"]
        pl = rv.get("p") if rv["k"] in ("ref", "discr") else (rv["a"].get("cp") or rv["a"].get("mv")) if rv["k"] == "use" and "a" in rv else None
        if pl is None:
            continue
        names = [e.get("name") for e in pl["p"] if isinstance(e, dict)]
        for fld in ("stable_slots", "migrating_slots"):
            if fld in names:
                idxl = [e["idx"] for e in pl["p"] if isinstance(e, dict) and "idx" in e]
                ci = [e["ci"] for e in pl["p"] if isinstance(e, dict) and "ci" in e]
                slot_reads.append((bb, i, fld, idxl[0] if idxl else None, ci[0] if ci else None))
    if len(slot_reads) < 4:
        ctx.lost(rule, "slot attachment reads", "expected reads of stable_slots[k] and migrating_slots[k] for k=0,1; found %d" % len(slot_reads))
        return None
    T.rows = {}
    role_adt = F.adt("common::cluster::Role")
    for vi, v in enumerate(crp.variants):
        for i in range(4):
            def call(interp, bb, term, argvals, i=i):
                if callee_decl(term) == "std::iter::Iterator::next" and "std::ops::Range<" in (term.get("atys") or [""])[0]:
                    return Some(Int(i))
                return None

            def read(interp, bb, place, val, vi=vi):
                fs = place_fields(place)
                if fs and fs[-1][1] == "role_position" and norm(fs[-1][0]) == CHS:
                    return Agg(crp.path, vi, ())
                return None
            it = Interp(F, b, Oracle(call=call, read=read))
            res = it.run()
            row = {}

            def argval(bbs, k):
                bb = next(iter(bbs))
                if bb not in res.exec_blocks:
                    return None
                a = res.call_args.get(bb)
                return a[k][1] if a and a[k][0] == "int" else None
            row["node"] = argval(own_node, 1)
            row["proxy"] = argval(own_proxy, 1)
            row["peer_node"] = argval(peer_node, 1)
            row["peer_proxy"] = argval(peer_proxy, 1)
            ra = res.call_args.get(repl_new[0])
            row["role"] = role_adt.variants[ra[0][2]]["name"] if ra and ra[0][0] == "agg" else None
            owns = {"stable_slots": set(), "migrating_slots": set()}
            for bb, si, fld, idxl, ci in slot_reads:
                if bb not in res.exec_blocks:
                    continue
                if idxl is not None:
                    st = it.state_at(res, bb, si)
                    val = st.get(idxl, TOP)
                    if val[0] == "int":
                        owns[fld].add(val[1])
                    else:
                        owns[fld].add("?")
                elif ci is not None:
                    owns[fld].add(ci)
            row["owns_stable"] = sorted(owns["stable_slots"], key=str)
            row["owns_migrating"] = sorted(owns["migrating_slots"], key=str)
            T.rows[(v["name"], i)] = row
    return T
