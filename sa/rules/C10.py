"""C10 - scaling completes to a balanced partition and frees only empty chunks (DESIGN §5 C10):
the refusal / release / argument clauses are decided; balance arithmetic is not."""
from ..facts import norm, callee_of, callee_decl, place_fields
from ..defuse import DefUse
from ..effects import Effects
from ..sccp import Interp, Oracle, Int, Bool, Agg, TOP, Ok, Err, UNIT
from .. import cfg
from ..lib import m, calls_to, site, agg_sites, agg_variant_of
from .C04 import classify, classify_type

EXPLANATION = (
    "For each of the six scaling / config entry points the migration-running tests are located (ClusterStore::is_migrating, "
    "check_running_tasks, or an inline any() over migrating_slots) and assumed to answer `running`: by conditional constant propagation no "
    "write to cluster content is then executable and MigrationRunning is returned; assumed `not running` the writes are reachable. The "
    "chunk-release predicate's truth table shows a chunk is removed only when it owns no stable, migrating or importing slots. The "
    "scale-down argument guard is evaluated on concrete node numbers. The free-node cleanup dominates the resize decision. "
    "Termination with master slot counts differing by at most one (numeric) is NOT decided."
)
ASSUMPTIONS = ["balance arithmetic of remove_slots_from_src* is not decided", "MetaStoreError::MigrationRunning is the refusal signal"]
TRUSTED = []

UPD = "broker::update::MetaStoreUpdate"
MIG = "broker::migrate::MetaStoreMigrate"
MS = "broker::store::MetaStore"
ERR = "broker::store::MetaStoreError"

ENTRY = [UPD + "::auto_add_nodes", UPD + "::auto_delete_free_nodes", UPD + "::change_config", MIG + "::migrate_slots",
         MIG + "::migrate_slots_to_scale_down", MS + "::auto_change_node_number"]

MUTANTS = [
    {"name": "is_migrating-node-count-shortcut", "file": "src/broker/store.rs", "old": "    pub fn is_migrating(&self) -> bool {\n", "new": "    pub fn is_migrating(&self) -> bool {\n        if self.get_node_number_with_slots() == self.get_node_number() {\n            return false;\n        }\n", "expect": "C10.D1:is_migrating:running=1"},
    {"name": "running-test-all-halves", "file": "src/broker/migrate.rs", "old": "            .any(|chunk| chunk.migrating_slots.iter().any(|slots| !slots.is_empty()));\n        if running_migration {", "new": "            .any(|chunk| chunk.migrating_slots.iter().all(|slots| !slots.is_empty()));\n        if running_migration {", "expect": "C10.D1:existential"},
    {"name": "change_config-no-guard", "file": "src/broker/update.rs", "old": "                if cluster.is_migrating() {\n                    return Err(MetaStoreError::MigrationRunning);\n                }\n\n                let mut cluster_config", "new": "                let mut cluster_config", "expect": "C10.D1:change_config"},
    {"name": "release-ignores-migrating", "file": "src/broker/update.rs", "old": "                    for slots in chunk.migrating_slots.iter() {\n                        if !slots.is_empty() {\n                            return true;\n                        }\n                    }\n                    removed_chunks.push(chunk.clone());", "new": "                    removed_chunks.push(chunk.clone());", "expect": "C10.D2"},
    {"name": "scale-down-ge-to-gt", "file": "src/broker/migrate.rs", "old": "|| new_node_num >= cluster.chunks.len() * CHUNK_NODE_NUM", "new": "|| new_node_num > cluster.chunks.len() * CHUNK_NODE_NUM", "expect": "C10.D3"},
    {"name": "check_running_tasks-inverted", "file": "src/broker/migrate.rs", "old": "        if running_migration {\n            return Err(MetaStoreError::MigrationRunning);", "new": "        if !running_migration {\n            return Err(MetaStoreError::MigrationRunning);", "expect": "C10.D1"},
    {"name": "auto_add_nodes-guard-after-write", "file": "src/broker/update.rs", "old": "                if cluster\n                    .chunks\n                    .iter()\n                    .any(|chunk| chunk.migrating_slots.iter().any(|slots| !slots.is_empty()))\n                {\n                    return Err(MetaStoreError::MigrationRunning);\n                }\n                cluster.chunks.len() * CHUNK_PARTS", "new": "                cluster.chunks.len() * CHUNK_PARTS", "expect": "C10.D1:auto_add_nodes"},
]


def _guard_sites(F, b):
    """[(bb, term, kind)] migration-running tests in body b"""
    out = []
    for bb, t in b.calls():
        c = callee_of(t) or ""
        d = callee_decl(t) or ""
        if c.endswith("ClusterStore::is_migrating"):
            out.append((bb, t, "bool"))
        elif c.endswith("MetaStoreMigrate::check_running_tasks"):
            out.append((bb, t, "result"))
        elif d == "std::iter::Iterator::any":
            du = DefUse(b)
            sl = du.slice_operand(t["args"][1]) if len(t["args"]) > 1 else None
            if sl is not None and any(n == "migrating_slots" for a, n in sl.fields) and (sl.has_call("is_empty")):
                out.append((bb, t, "bool"))
    return out


def run(ctx):
    F = ctx.F
    ctx.rule("C10.D1", "refusal while migrating: with the migration-running tests answering `running`, no cluster-content write is executable in the six entry points and MigrationRunning is returned")
    ctx.rule("C10.D2", "only chunks without stable, migrating or importing slots are released (truth table of the retain predicate)")
    ctx.rule("C10.D3", "scale-down argument guard: 0, non-multiples of 4 and numbers >= current are InvalidNodeNum")
    ctx.rule("C10.D4", "auto_change_node_number removes free chunks before it compares node numbers (retry-able)")
    eff = Effects(F, classify, classify_type)
    for path in ENTRY:
        b = F.body(path)
        name = path.rsplit("::", 1)[-1]
        if b is None:
            ctx.lost("C10.D1", name, "entry point not found")
            continue
        ctx.analysed(b)
        guards = _guard_sites(F, b)
        writes = [e for e in eff.events(b) if e.tags & {"cluster-content", "clusters-map"}]
        if not guards:
            # the test may have been moved into a private helper: look at the function with such helpers inlined
            # (block ids of the original function are preserved, so `writes` stays valid)
            from ..inline import inlined
            b2 = inlined(F, b)
            if b2 is not None and _guard_sites(F, b2):
                b = b2
                guards = _guard_sites(F, b)
        if not ctx.floor("C10.D1", "%s content writes" % name, len(writes), 1):
            continue
        if not guards:
            ctx.violation("C10.D1", "%s:no-migration-test" % name, site(b), "%s writes cluster content without testing whether a migration is running" % name)
            continue
        running_err = [bb for bb, i, s in agg_sites(b, ERR, "MigrationRunning")]
        for running in (1, 0):
            def call(interp, bbx, term, argvals, running=running):
                for gb, gt, kind in guards:
                    if gt is term:
                        if kind == "bool":
                            return Bool(running)
                        return Err(Agg(ERR, _variant_index(F, "MigrationRunning"), ())) if running else Ok(UNIT)
                return None
            res = Interp(F, b, Oracle(call=call)).run()
            reach = [e for e in writes if e.bb in res.exec_blocks]
            if running:
                ctx.check(not reach, "C10.D1", "%s:refuses-while-migrating" % name, site(b, reach[0].bb, reach[0].idx) if reach else site(b),
                          ok="no content write reachable while a migration is running (%d guard site(s))" % len(guards),
                          bad="%s is reachable although a migration is running" % (reach[0].desc if reach else ""))
                if any(k == "bool" for _, _, k in guards):
                    ctx.check(any(x in res.exec_blocks for x in running_err), "C10.D1", "%s:returns-MigrationRunning" % name, site(b), ok="Err(MigrationRunning)", bad="no MigrationRunning error is produced while a migration is running")
            else:
                ctx.check(bool(reach), "C10.D1", "%s:proceeds-when-idle" % name, site(b), ok="writes reachable when idle", bad="content writes unreachable even when no migration is running")
    _check_running_tasks(ctx)
    _existential_guards(ctx)
    _is_migrating(ctx)
    _release(ctx)
    _scale_down_args(ctx)
    _cleanup_first(ctx)


def _variant_index(F, name):
    adt = F.adt(ERR)
    return adt.variant_names().index(name)


def _check_running_tasks(ctx):
    F = ctx.F
    b = F.one(MIG + "::check_running_tasks")
    if b is None:
        ctx.lost("C10.D1", "check_running_tasks", "not found")
        return
    ctx.analysed(b)
    anys = [(bb, t) for bb, t in b.calls() if callee_decl(t) == "std::iter::Iterator::any"]
    if not ctx.floor("C10.D1", "check_running_tasks any()", len(anys), 1):
        return
    du = DefUse(b)
    sl = du.slice_operand(anys[0][1]["args"][1])
    ctx.check(any(n == "migrating_slots" for a, n in sl.fields) and sl.has_call("is_empty"), "C10.D1", "check_running_tasks:subject", site(b), ok="tests migrating_slots emptiness", bad="check_running_tasks does not look at migrating_slots")
    for v in (0, 1):
        def call(interp, bbx, term, argvals, v=v):
            if term is anys[0][1]:
                return Bool(v)
            return None
        rv = Interp(F, b, Oracle(call=call)).run().return_value()
        good = rv is not None and rv[0] == "agg" and ((v == 1 and rv[2] == 1) or (v == 0 and rv[2] == 0))
        ctx.check(good, "C10.D1", "check_running_tasks:running=%d" % v, site(b), ok="Err(MigrationRunning)" if v else "Ok", bad="check_running_tasks returns %s when running=%d" % (rv, v))
    ctx.check(bool(agg_sites(b, ERR, "MigrationRunning")), "C10.D1", "check_running_tasks:error-kind", site(b), ok="error is MigrationRunning", bad="error is not MigrationRunning")


def _is_migrating(ctx):
    F = ctx.F
    b = F.one("ClusterStore::is_migrating")
    if b is None:
        ctx.lost("C10.D1", "is_migrating", "not found")
        return
    ctx.analysed(b)
    fam = F.family(b)
    fields = set()
    empties = 0
    for fb in fam:
        for bb, i, s in fb.assigns():
            for k in ("a",):
                pass
            pl = s["rv"].get("p") or (s["rv"].get("a", {}).get("cp") if isinstance(s["rv"].get("a"), dict) else None) or (s["rv"].get("a", {}).get("mv") if isinstance(s["rv"].get("a"), dict) else None)
            if pl:
                fields |= {n for a, n in place_fields(pl)}
        empties += len(calls_to(fb, "Vec::is_empty"))
    ctx.check("migrating_slots" in fields and empties >= 1, "C10.D1", "is_migrating:subject", site(b), ok="is_migrating = some migrating_slots non-empty", bad="is_migrating does not inspect migrating_slots")
    # and nothing else decides: with the existential answering v, the function returns v whatever the other calls say
    anys = [(bb, t) for bb, t in b.calls() if (callee_decl(t) or "") == "std::iter::Iterator::any"]
    if ctx.floor("C10.D1", "is_migrating any()", len(anys), 1):
        for v in (0, 1):
            def call(interp, bbx, term, argvals, v=v):
                if term is anys[0][1]:
                    return Bool(v)
                return None
            rv = Interp(F, b, Oracle(call=call)).run().return_value()
            ctx.check(rv == Int(v), "C10.D1", "is_migrating:running=%d" % v, site(b), ok="returns %s" % bool(v),
                      bad="with some chunk half %s, is_migrating can return %s: another test (a shortcut on node counts, a cached flag) overrides the scan of migrating_slots, so a running migration can be reported as idle" % ("busy" if v else "idle", rv))


def _release(ctx):
    F = ctx.F
    b = F.one(UPD + "::auto_delete_free_nodes")
    if b is None:
        ctx.lost("C10.D2", "auto_delete_free_nodes", "not found")
        return
    du = DefUse(b)
    rets = [(bb, t) for bb, t in calls_to(b, "Vec::retain") if (("broker::store::ClusterStore", "chunks") in du.slice_operand(t["args"][0], deep=False).fields)]
    if not ctx.floor("C10.D2", "chunks.retain in auto_delete_free_nodes", len(rets), 1):
        return
    cl = None
    for c in F.children(b):
        if c.locals[0]["ty"] == "bool" and c.parent == b.path:
            cd = DefUse(c)
            names = set()
            for bb, i, s in c.assigns():
                pl = s["rv"].get("p")
                if pl:
                    names |= {n for a, n in place_fields(pl)}
            if "stable_slots" in names or "migrating_slots" in names:
                cl = (c, names)
    if cl is None:
        ctx.lost("C10.D2", "release predicate", "retain closure over chunk slots not found")
        return
    c, names = cl
    ctx.analysed(c)
    ctx.check({"stable_slots", "migrating_slots"} <= names, "C10.D2", "release-predicate-reads", site(c), ok="predicate inspects stable_slots and migrating_slots", bad="release predicate only inspects %s" % sorted(n for n in names if "slots" in n))
    somes = calls_to(c, "Option::is_some", "Option::is_none")
    emps = calls_to(c, "Vec::is_empty")
    pushes = [bb for bb, t in calls_to(c, "Vec::push")]
    def reach_from(res, start):
        seen = set()
        stack = [x for x in c.succs()[start] if (start, x) in res.exec_edges]
        while stack:
            x = stack.pop()
            if x in seen:
                continue
            seen.add(x)
            stack.extend(y for y in c.succs()[x] if (x, y) in res.exec_edges)
        return seen
    ctx.floor("C10.D2", "stable-slot tests in the release predicate", len(somes), 1)
    ctx.floor("C10.D2", "migrating-slot tests in the release predicate", len(emps), 1)
    for st in (0, 1):
        for mg in (0, 1):
            def call(interp, bbx, term, argvals, st=st, mg=mg):
                for sb, t in somes:
                    if t is term:
                        return Bool(bool(st) == callee_of(term).endswith("is_some"))
                for eb, t in emps:
                    if t is term:
                        return Bool(not mg)
                return None
            res = Interp(F, c, Oracle(call=call)).run()
            key = "release:stable=%d,migrating-or-importing=%d" % (st, mg)
            if not st and not mg:
                rv = res.return_value()
                removed = any(p in res.exec_blocks for p in pushes)
                ctx.check(rv == Int(0) and removed, "C10.D2", key, site(c), ok="released (and recorded for untagging)", bad="an empty chunk is %s" % ("kept" if rv != Int(0) else "released without being recorded"))
                continue
            # a test that sees slots must lead to `keep` only: the removal is unreachable from it
            bad = []
            sites = ([sb for sb, t in somes] if st else []) + ([eb for eb, t in emps] if mg else [])
            for sb in sites:
                if sb in res.exec_blocks and any(p in reach_from(res, sb) for p in pushes):
                    bad.append(sb)
            ctx.check(not bad and bool(sites), "C10.D2", key, site(c), ok="kept: no removal reachable from a test that sees slots",
                      bad="a chunk that still owns %s slots can be released (test at bb%s reaches the removal)" % ("stable" if st else "migrating/importing", bad))
    # released chunks' proxies are untagged
    tags = [x for x in b.assigns() if [(norm(a), n) for a, n in place_fields(x[2]["place"])][-1:] == [("broker::store::ProxyResource", "cluster")]]
    ctx.check(bool(tags), "C10.D2", "released-proxies-freed", site(b), ok="proxies of released chunks get cluster = None", bad="released chunks' proxies stay tagged")


def _scale_down_args(ctx):
    F = ctx.F
    b = F.one(MIG + "::migrate_slots_to_scale_down")
    if b is None:
        ctx.lost("C10.D3", "migrate_slots_to_scale_down", "not found")
        return
    ctx.analysed(b)
    guards = _guard_sites(F, b)
    inv = [bb for bb, i, s in agg_sites(b, ERR, "InvalidNodeNum")]
    rem = [bb for bb, t in calls_to(b, "remove_slots_from_src_to_scale_down")]
    lens = [(bb, t) for bb, t in calls_to(b, "Vec::len")]
    anys = [(bb, t) for bb, t in b.calls() if callee_decl(t) == "std::iter::Iterator::any"]
    if not (ctx.floor("C10.D3", "InvalidNodeNum", len(inv), 1) and ctx.floor("C10.D3", "scale-down planner call", len(rem), 1) and ctx.floor("C10.D3", "chunks.len()", len(lens), 1)):
        return
    chunks = 2
    for n in (0, 3, 4, 6, 8, 12):
        def call(interp, bbx, term, argvals):
            for gb, gt, kind in guards:
                if gt is term:
                    return Ok(UNIT) if kind == "result" else Bool(False)
            for lb, lt in lens:
                if lt is term:
                    return Int(chunks)
            for ab, at in anys:
                if at is term:
                    return Bool(False)
            return None
        res = Interp(F, b, Oracle(args={b.local_by_name("new_node_num") or 3: Int(n)}, call=call)).run()
        invalid = any(x in res.exec_blocks for x in inv)
        plans = any(x in res.exec_blocks for x in rem)
        want_invalid = (n == 0 or n % 4 != 0 or n >= chunks * 4)
        ctx.check(invalid == want_invalid and plans == (not want_invalid), "C10.D3", "new_node_num=%d,current=%d" % (n, chunks * 4), site(b),
                  ok="InvalidNodeNum" if want_invalid else "accepted", bad="new_node_num=%d with %d nodes: InvalidNodeNum reachable=%s, planner reachable=%s" % (n, chunks * 4, invalid, plans))


def _cleanup_first(ctx):
    F = ctx.F
    b = F.body(MS + "::auto_change_node_number")
    if b is None:
        ctx.lost("C10.D4", "auto_change_node_number", "not found")
        return
    dom = cfg.dominators(b)
    clean = [bb for bb, t in calls_to(b, "auto_delete_free_nodes")]
    cmps = [bb for bb, t in b.calls() if callee_decl(t) == "std::cmp::Ord::cmp"] + [bb for bb, t in calls_to(b, "auto_scale_up_nodes", "migrate_slots_to_scale_down")]
    if not (ctx.floor("C10.D4", "free-node cleanup call", len(clean), 1) and ctx.floor("C10.D4", "size comparison / scale operations", len(cmps), 2)):
        return
    for cb in cmps:
        ctx.check(any(x in dom.get(cb, ()) for x in clean), "C10.D4", "cleanup-dominates:bb-kind-%s" % b.blocks[cb].term.get("callee", "").rsplit("::", 1)[-1], site(b, cb),
                  ok="free chunks are removed before the decision", bad="the resize decision at line %s is not dominated by the free-node cleanup" % b.blocks[cb].term.get("line"))
    # FreeNodeNotFound is the only tolerated cleanup error
    du = DefUse(b)
    tol = [x for x in b.calls() if callee_decl(x[1]) in ("std::cmp::PartialEq::ne", "std::cmp::PartialEq::eq")]
    ok = False
    for bb, t in tol:
        for a in t["args"][:2]:
            sl = du.slice_operand(a)
            import re
            for c in sl.consts:
                mm = re.search(r"promoted\[(\d+)\]$", c.get("v", ""))
                if mm:
                    pb = b.promoted[int(mm.group(1))]
                    if agg_sites(pb, ERR, "FreeNodeNotFound", cleanup=True):
                        ok = True
    ctx.check(ok, "C10.D4", "cleanup-tolerates-only-FreeNodeNotFound", site(b), ok="only FreeNodeNotFound is ignored", bad="the cleanup result is not compared with FreeNodeNotFound")


# quantifier-changing or element-dropping calls; other existential spellings (find(..).is_some(), filter(..).count() > 0) are not judged
QUANT = ("any", "all", "min", "max", "last", "nth", "take", "skip", "first", "step_by", "take_while", "skip_while")


def _existential_guards(ctx):
    """`a migration is running` means: SOME half of SOME chunk has a non-empty migrating_slots list.  Every form of the
    test (ClusterStore::is_migrating, MetaStoreMigrate::check_running_tasks, the inline any() guards) must be an
    existential at both levels: `all` at either level, or looking at one element only, lets a migration with a single busy
    half pass as `idle`"""
    F = ctx.F
    units = []
    for nm in ("broker::store::ClusterStore::is_migrating", MIG + "::check_running_tasks"):
        b = F.body(nm) if hasattr(F, "body") else F.bodies.get(nm)
        if b is not None:
            units.append((nm.rsplit("::", 1)[-1], b, None))
    for path in ENTRY:
        b = F.body(path)
        if b is None:
            continue
        for gb, gt, kind in _guard_sites(F, b):
            if (callee_decl(gt) or "") == "std::iter::Iterator::any":
                units.append((path.rsplit("::", 1)[-1] + ":inline", b, gt))
    if not ctx.floor("C10.D1", "migration-running predicates", len(units), 3):
        return
    for label, b, term in units:
        fam = [x for x in F.family(b) if x.kind == "Closure"]
        if term is not None:
            # only the closures that belong to this guard: those created for the any() call
            du = DefUse(b)
            sl = du.slice_operand(term["args"][1])
            fam = [x for x in fam if any(n_ == "migrating_slots" for x2 in F.family(x) for bb_, i_, s_ in x2.assigns() for a_, n_ in place_fields(s_["rv"].get("p") or {"p": []}))] or fam
        calls = []
        bodies = [b] + fam if term is None else fam + [b]
        for x in ([b] if term is None else []) + fam:
            for bb, t in x.calls():
                d = callee_decl(t) or ""
                if d.startswith("std::iter::Iterator::") or d.startswith("core::slice::"):
                    calls.append((d.rsplit("::", 1)[-1], x, bb))
        if term is not None:
            calls.append(("any", b, 0))
        anys = [c for c in calls if c[0] in ("any", "flat_map", "flatten")]
        others = [c for c in calls if c[0] in QUANT and c[0] not in ("any", "next")]
        if not any(c[0] == "any" for c in calls):
            others.append(("no-any", b, 0))
        ctx.check(len(anys) >= 2 and not others, "C10.D1", "existential:%s" % label, site(others[0][1], others[0][2]) if others else site(b), ok="any(any(non-empty)) over chunks and halves",
                  bad="the migration-running test in %s is not an existential over all chunk halves (quantifiers used: %s): a migration with one busy half can be taken for idle and a scaling request accepted" % (label, sorted({c[0] for c in calls})))
