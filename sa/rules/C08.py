"""C08 - every request gets exactly one reply, in order, from its own exchange (DESIGN §5 C08):
send-once typestate, FIFO-only queue operations, popped-implies-sent, failure drains."""
from ..facts import norm, callee_of, callee_decl, place_fields
from ..defuse import DefUse
from ..sccp import Interp, Oracle, Int, Bool, Agg, TOP, Some, NONE
from .. import cfg
from ..lib import m, calls_to, site, agg_sites, agg_variant_of
from .C02 import loop_can_skip

EXPLANATION = (
    "Structural conditions of exactly-one-reply-in-order: replying consumes the task by value in every CmdTask implementation, the reply channel "
    "is an Option emptied by take() in the only sending function, dropping an unanswered sender answers `Dropped`, and the sender is not Clone "
    "(send-once typestate from signatures and ADT facts); in the backend connection loop the task and packet queues are touched only by FIFO "
    "operations, every new task enqueues exactly one packet, a packet popped for writing is always handed to the sink, every packet read pops one "
    "task and hands both to the result handler; every error return of the connection loop drains all pending tasks into handle_conn_err, which either "
    "keeps them all for retry or answers each of them; when reconnecting fails, carried-over tasks are answered unconditionally. Association under "
    "all poll interleavings and fragmentations is behavioural and NOT decided."
)
ASSUMPTIONS = ["poll interleavings / fragmentation of the byte streams are not explored", "VecDeque push_back / pop_front are FIFO"]
TRUSTED = ["tokio oneshot delivers at most one value"]

MUTANTS = [
    {"name": "collect-loop-bounded-without-poll", "file": "src/proxy/session.rs", "old": "        while let Some(reply_receiver) = reply_receiver_list.front_mut() {\n            match Pin::new(reply_receiver).poll(cx) {", "new": "        while let Some(reply_receiver) = reply_receiver_list.front_mut() {\n            if replies.len() >= SESSION_BATCH_BUF {\n                break;\n            }\n            match Pin::new(reply_receiver).poll(cx) {", "expect": "C08.D5:collect-loop-stops-only-empty-or-polled"},
    {"name": "mget-subreplies-unordered", "file": "src/proxy/executor.rs", "old": "        let mut values = vec![];\n        let res = future::join_all(futs).await;", "new": "        let mut values = vec![];\n        let res: Vec<_> = futures::StreamExt::collect::<Vec<_>>(futs.into_iter().collect::<futures::stream::FuturesUnordered<_>>()).await;", "expect": "C08.D6:subreplies-in-request-order"},
    {"name": "tick-keeps-response-flag", "file": "src/proxy/backend.rs", "old": "                task_empty = tasks.is_empty();\n                response_received = false;", "new": "                task_empty = tasks.is_empty();\n                if task_empty {\n                    response_received = false;\n                }", "expect": "C08.D7:backend-tick-clears-response-flag"},
    {"name": "session-idle-timeout-ignores-pending", "file": "src/proxy/session.rs", "old": "                if !data_received && reply_receiver_list.is_empty() {", "new": "                if !data_received && replies.is_empty() {", "expect": "C08.D7:session-idle-timeout"},
    {"name": "fanout-without-count-check", "file": "src/proxy/backend.rs", "old": "                        if v.len() != results.len() {", "new": "                        if v.is_empty() && !results.is_empty() {", "expect": "C08.D6:pairing-after-count-check"},
    {"name": "fanout-replies-reversed", "file": "src/proxy/backend.rs", "old": "                        for (t, r) in v.into_iter().zip(results) {", "new": "                        for (t, r) in v.into_iter().rev().zip(results) {", "expect": "C08.D6:order-kept"},
    {"name": "need_flush-false-without-timer", "file": "src/common/batch.rs", "old": "        let mut flush = false;\n        match Pin::new(&mut self.flush_timer).poll_tick(cx) {", "new": "        if self.curr_wbuf_content_size < flush_size / 2 {\n            return false;\n        }\n        let mut flush = false;\n        match Pin::new(&mut self.flush_timer).poll_tick(cx) {", "expect": "C08.D5:need_flush"},
    {"name": "pop-back", "file": "src/proxy/backend.rs", "old": "                let mut task = match tasks.pop_front() {", "new": "                let mut task = match tasks.pop_back() {", "expect": "C08.D2:fifo-ops"},
    {"name": "drop-does-not-answer", "file": "src/proxy/command.rs", "old": "        self.try_send(Err(CommandError::Dropped));", "new": "        let _ = self.reply_sender.is_some();", "expect": "C08.D1"},
    {"name": "channel-peeked-not-taken", "file": "src/proxy/command.rs", "old": "        match self.try_send(res) {\n            Some(res) => res,", "new": "        if self.reply_sender.is_none() {\n            return Ok(());\n        }\n        match self.try_send(res) {\n            Some(res) => res,", "expect": "C08.D1:channel-only-via-take"},
    {"name": "packet-popped-before-ready", "file": "src/proxy/backend.rs", "old": "                match writer.as_mut().poll_ready(cx) {\n                    Poll::Pending => break Ok(()),\n                    Poll::Ready(Ok(())) => (),\n                    Poll::Ready(Err(err)) => break Err(err),\n                }\n\n                match packets.pop_front() {", "new": "                let popped = packets.pop_front();\n                match writer.as_mut().poll_ready(cx) {\n                    Poll::Pending => break Ok(()),\n                    Poll::Ready(Ok(())) => (),\n                    Poll::Ready(Err(err)) => break Err(err),\n                }\n\n                match popped {", "expect": "C08.D2:popped-packet-is-sent"},
    {"name": "timeout-without-drain", "file": "src/proxy/backend.rs", "old": "                    let failed_tasks = tasks.drain(..).collect();\n                    // For timeout we just don't retry as it will take a long time.\n                    let retry_state = handle_conn_err(Some(MAX_BACKEND_RETRY), failed_tasks, &err);", "new": "                    let failed_tasks = vec![];\n                    // For timeout we just don't retry as it will take a long time.\n                    let retry_state = handle_conn_err(Some(MAX_BACKEND_RETRY), failed_tasks, &err);", "expect": "C08.D3"},
    {"name": "conn-err-drops-tasks", "file": "src/proxy/backend.rs", "old": "            task.set_result(Err(cmd_err));\n        }\n        None", "new": "            drop((task, cmd_err));\n        }\n        None", "expect": "C08.D3:handle_conn_err"},
    {"name": "timeout-budget-off-by-one", "file": "src/proxy/backend.rs", "old": "    if retry_times >= MAX_BACKEND_RETRY {", "new": "    if retry_times > MAX_BACKEND_RETRY {", "expect": "C08.D3:constant-budget-gives-up"},
    {"name": "session-flush-skipped", "file": "src/proxy/session.rs", "old": "                    break Pin::new(&mut writer).poll_flush(cx);", "new": "                    if data_received {\n                        break Pin::new(&mut writer).poll_flush(cx);\n                    }\n                    break Poll::Ready(Ok(()));", "expect": "C08.D4:write-loop-never-skips-flush"},
    {"name": "session-future-pushed-front", "file": "src/proxy/session.rs", "old": "                    reply_receiver_list.push_back(fut);", "new": "                    reply_receiver_list.push_front(fut);", "expect": "C08.D4"},
    {"name": "session-future-dropped-when-full", "file": "src/proxy/session.rs", "old": "                    reply_receiver_list.push_back(fut);", "new": "                    if reply_receiver_list.len() < SESSION_BATCH_BUF * 1024 {\n                        reply_receiver_list.push_back(fut);\n                    }", "expect": "C08.D4:every-command-queues-its-future"},
]


def run(ctx):
    F = ctx.F
    _FACTS[0] = F
    ctx.rule("C08.D1", "send-once typestate: set_result / set_resp_result by value in all CmdTask impls; reply channel Option + take(); Drop answers Dropped; not Clone")
    ctx.rule("C08.D2", "FIFO discipline in handle_conn: only FIFO queue operations, one packet per task, popped packet is sent, one task popped per packet read and handled")
    ctx.rule("C08.D3", "failure drains: every error return drains all tasks into handle_conn_err (retry all or answer each); reconnect failure answers carried-over tasks")
    ctx.rule("C08.D7", "timer bookkeeping: every backend tick that does not time out clears the response flag (so a later stall is detected at the next tick), a tick with requests in flight and no response times out; the session is closed for idleness only when no reply future is pending")
    ctx.rule("C08.D6", "multi-request fan-out: ReqTask::set_result answers every sub-task in every arm (no iteration can pass without set_result), pairs tasks and replies only after their counts were compared, and keeps their order")
    ctx.rule("C08.D5", "buffered requests are eventually flushed: with bytes pending, BatchState::need_flush answers false only after polling the flush timer (a wake-up is registered), and answers true when batching is disabled")
    ctx.rule("C08.D4", "session side: reply futures and replies are queued and consumed in FIFO order only, each handled command contributes one queued future, a popped reply is sent, and the write loop never reports completion without flushing")
    _session(ctx)
    _flush_liveness(ctx)
    _collect_loop_exits(ctx)
    _fanout(ctx)
    _subreplies_in_request_order(ctx)
    _timers(ctx)
    _typestate(ctx)
    _fifo(ctx)
    _drains(ctx)


def _typestate(ctx):
    F = ctx.F
    n = 0
    for im in F.impls:
        if im["trait_n"] != "proxy::backend::CmdTask" or im.get("mac") in ("automock", "mock") or im["crate"] != "undermoon":
            continue
        for it in im["items"]:
            if it["name"] in ("set_result", "set_resp_result"):
                b = F.bodies.get(norm(it["def"]))
                if b is None or b.sig is None:
                    continue
                if "tests::" in b.path:
                    continue
                n += 1
                ctx.analysed(b)
                ctx.check(b.sig.get("self") == "value", "C08.D1", "by-value:%s" % b.path, site(b), ok="consumes the task", bad="%s takes %s self: a task could be answered twice" % (b.path, b.sig.get("self")))
    ctx.floor("C08.D1", "CmdTask reply methods", n, 8)
    a = F.adt("proxy::command::CmdReplySender")
    if a is None:
        ctx.lost("C08.D1", "CmdReplySender", "struct not found")
        return
    f = a.field("reply_sender")
    ctx.check(f is not None and f["ty"].startswith("std::option::Option<") and "oneshot::Sender" in f["ty"], "C08.D1", "reply-channel-option", "%s:%s" % (a.file, a.line), ok="reply_sender: Option<oneshot::Sender<..>>", bad="reply_sender has type %s" % (f["ty"] if f else None))
    ctx.check(not F.has_impl(a.path, "std::clone::Clone"), "C08.D1", "sender-not-clone", "%s:%s" % (a.file, a.line), ok="CmdReplySender is not Clone", bad="CmdReplySender is Clone: two owners could answer the same request")
    ctx.check(a.drop_fn is not None, "C08.D1", "sender-drop-impl", "%s:%s" % (a.file, a.line), ok="impl Drop for CmdReplySender", bad="CmdReplySender has no Drop impl: an abandoned request gets no reply")
    # the only function that touches the channel takes it
    users = []
    for b in F.all_bodies(bins=False):
        if b.kind == "Promoted" or b.is_mock():
            continue
        for bb, i, s in b.assigns():
            for pl in (s["rv"].get("p"), (s["rv"].get("a") or {}).get("mv"), (s["rv"].get("a") or {}).get("cp")):
                if pl and ("proxy::command::CmdReplySender", "reply_sender") in [(norm(x), y) for x, y in place_fields(pl)]:
                    users.append(b)
    users = {b.path: b for b in users if not b.path.endswith("new_command_pair")}
    takes = []
    for p, b in users.items():
        du = DefUse(b)
        for bb, t in calls_to(b, "Option::take"):
            if ("proxy::command::CmdReplySender", "reply_sender") in du.slice_operand(t["args"][0], deep=False).fields:
                takes.append(p)
    ctx.check(len(users) >= 1 and set(users) <= set(takes), "C08.D1", "channel-only-via-take", None, ok="reply_sender is only accessed through take() in %s" % sorted(set(takes)), bad="reply_sender is accessed without take() in %s" % sorted(set(users) - set(takes)))
    if a.drop_fn:
        d = F.bodies.get(a.drop_fn)
        if d is not None:
            ctx.analysed(d)
            fam = F.family(d)
            dropped = any(agg_sites(x, "CommandError", "Dropped") for x in fam)
            sends = any(calls_to(x, "CmdReplySender::send") or calls_to(x, "CmdReplySender::try_send") for x in fam)
            ctx.check(dropped and sends, "C08.D1", "drop-answers-dropped", site(d), ok="Drop sends CommandError::Dropped", bad="Drop of CmdReplySender does not send CommandError::Dropped (constructs Dropped=%s, sends=%s)" % (dropped, sends))


def _poll_closure(F, fn):
    cands = [b for b in F.all_bodies(bins=False) if b.path.startswith("proxy::backend::%s::{closure#0}::{closure" % fn) and b.kind == "Closure"]
    cands = [b for b in cands if calls_to(b, "VecDeque::pop_front")]
    return cands[0] if cands else None


_FACTS = [None]


def _cap_role(F, b, sl):
    """role of a captured queue / stream, decided from the captured variable's type (not its name)"""
    from ..lib import capture_types
    roles = set()
    for nm, ty in capture_types(F, b, sl.captures).items():
        if ty.startswith("std::collections::VecDeque<"):
            inner = ty[len("std::collections::VecDeque<"):]
            if "::Pkt" in inner:
                roles.add("packets")
            elif "CmdTaskResultHandler>::Task" in inner:
                roles.add("tasks")
            elif "CmdReplyReceiver" in inner or "Future" in inner:
                roles.add("reply_receiver_list")
            elif "RespPacket" in inner:
                roles.add("replies")
        elif "Stream" in ty and "Sink" not in ty.split("Stream")[0][-12:]:
            roles.add("reader")
        elif "RetryState" in ty:
            roles.add("retry_state")
    return roles


def _queue_of(du, b, t):
    sl = du.slice_operand(t["args"][0], deep=False)
    roles = _cap_role(_FACTS[0], b, sl)
    for nm in ("tasks", "packets"):
        if nm in roles:
            return nm
    return None


def _fifo(ctx):
    F = ctx.F
    b = _poll_closure(F, "handle_conn")
    if b is None:
        ctx.lost("C08.D2", "handle_conn poll closure", "not found")
        return
    ctx.analysed(b)
    du = DefUse(b)
    ops = {"tasks": {}, "packets": {}}
    for bb, t in b.calls():
        c = callee_of(t) or ""
        if "VecDeque" in c and t["args"]:
            q = _queue_of(du, b, t)
            if q:
                ops[q].setdefault(c.rsplit("::", 1)[-1], []).append(bb)
        elif (callee_decl(t) or "") == "std::iter::Extend::extend" and t["args"]:
            q = _queue_of(du, b, t)
            if q:
                ops[q].setdefault("extend", []).append(bb)
    allowed = {"push_back", "extend", "pop_front", "drain", "get_mut", "len", "is_empty", "iter_mut", "iter", "front", "front_mut"}
    for q in ("tasks", "packets"):
        bad = sorted(set(ops[q]) - allowed)
        ctx.check(not bad and "pop_front" in ops[q] and "push_back" in ops[q], "C08.D2", "fifo-ops:%s" % q, site(b), ok="%s: %s" % (q, sorted(ops[q])), bad="queue `%s` is manipulated with non-FIFO operations %s (all: %s)" % (q, bad, sorted(ops[q])))
    ctx.check(len(ops["tasks"].get("push_back", [])) + len(ops["tasks"].get("extend", [])) == len(ops["packets"].get("push_back", [])), "C08.D2", "one-packet-per-task", site(b),
              ok="every place that enqueues tasks enqueues their packets", bad="tasks are enqueued at %d places, packets at %d" % (len(ops["tasks"].get("push_back", [])) + len(ops["tasks"].get("extend", [])), len(ops["packets"].get("push_back", []))))
    dom = cfg.dominators(b)
    for tb in ops["tasks"].get("push_back", []):
        ctx.check(any(pb in dom.get(tb, ()) and cfg.reaches(b, pb, tb) for pb in ops["packets"].get("push_back", [])), "C08.D2", "packet-enqueued-with-task", site(b, tb), ok="packet pushed before its task", bad="a task is enqueued without its packet")
    # a packet popped for writing is handed to the sink
    pp = ops["packets"].get("pop_front", [])
    ss = [bb for bb, t in b.calls() if (callee_decl(t) or "").endswith("Sink::start_send")]
    if ctx.floor("C08.D2", "packets.pop_front", len(pp), 1) and ctx.floor("C08.D2", "start_send", len(ss), 1):
        pt = b.blocks[pp[0]].term

        def call(interp, bbx, term, argvals):
            if term is pt:
                return Some(TOP)
            return None
        res = Interp(F, b, Oracle(call=call)).run()
        succs = cfg.exec_succs(b, res.exec_edges)
        p = cfg.path_avoiding(b, (pp[0], len(b.blocks[pp[0]].stmts)), set(b.return_blocks()) | {pp[0]}, {(x, len(b.blocks[x].stmts)) for x in ss}, succs=succs, start_is_target=False)
        ctx.check(p is None, "C08.D2", "popped-packet-is-sent", site(b, pp[0]), ok="a packet taken from the write queue always reaches start_send", bad="a packet can be popped from the write queue and dropped while its task stays queued: every later reply is delivered to the previous request",
                  path=str(cfg.lines_of_path(b, p)) if p else None)
        # readiness is checked before popping
        rd = [bb for bb, t in b.calls() if (callee_decl(t) or "").endswith("Sink::poll_ready")]
        ctx.check(any(r in dom.get(pp[0], ()) for r in rd), "C08.D2", "ready-before-pop", site(b, pp[0]), ok="poll_ready dominates the pop", bad="packets are popped before the sink reported readiness")
    # each packet read pops one task and hands both to the handler
    tp = ops["tasks"].get("pop_front", [])
    ht = [bb for bb, t in b.calls() if (callee_decl(t) or "").endswith("CmdTaskResultHandler::handle_task")]
    rn = [bb for bb, t in b.calls() if (callee_decl(t) or "").endswith("Stream::poll_next") and "reader" in _cap_role(F, b, DefUse(b).slice_operand(t["args"][0]))]
    if ctx.floor("C08.D2", "tasks.pop_front", len(tp), 1) and ctx.floor("C08.D2", "handle_task", len(ht), 1) and ctx.floor("C08.D2", "reader.poll_next", len(rn), 1):
        ctx.check(any(r in dom.get(tp[0], ()) for r in rn), "C08.D2", "pop-per-read", site(b, tp[0]), ok="a task is popped only after a packet was read", bad="tasks are popped without a packet being read")
        tt = b.blocks[tp[0]].term

        def call2(interp, bbx, term, argvals):
            if term is tt:
                return Some(TOP)
            return None
        res = Interp(F, b, Oracle(call=call2)).run()
        succs = cfg.exec_succs(b, res.exec_edges)
        p = cfg.path_avoiding(b, (tp[0], len(b.blocks[tp[0]].stmts)), set(b.return_blocks()) | set(rn), {(x, len(b.blocks[x].stmts)) for x in ht}, succs=succs)
        ctx.check(p is None, "C08.D2", "popped-task-is-answered", site(b, tp[0]), ok="the popped task and the packet go to handle_task", bad="a task popped for a reply can be dropped without handle_task")
        h = b.blocks[ht[0]].term
        s1 = du.slice_operand(h["args"][1]); s2 = du.slice_operand(h["args"][2])
        ctx.check(s1.has_call("VecDeque::pop_front") and s2.has_call("poll_next"), "C08.D2", "handler-gets-front-task-and-read-packet", site(b, ht[0]), ok="handle_task(front task, packet just read)", bad="handle_task is not given the front task and the packet just read")


def _drains(ctx):
    F = ctx.F
    b = _poll_closure(F, "handle_conn")
    if b is not None:
        du = DefUse(b)
        dom = cfg.dominators(b)
        hce = calls_to(b, "handle_conn_err")
        errs = []
        for bb, i, s in b.assigns():
            rv = s["rv"]
            if rv["k"] == "agg" and rv["ak"] == "adt" and norm(rv["adt"]) == "std::task::Poll" and rv["variant"] == "Ready" and s["place"]["l"] == 0:
                av = agg_variant_of(du, rv["ops"][0])
                if av and av[1] == "Err":
                    errs.append((bb, i))
        if ctx.floor("C08.D3", "error returns of the connection loop", len(errs), 3) and ctx.floor("C08.D3", "handle_conn_err calls", len(hce), 3):
            for bb, i in errs:
                ctx.check(any(h in dom.get(bb, ()) for h, _ in hce), "C08.D3", "error-return-drains#%d" % (errs.index((bb, i)) + 1), site(b, bb, i), ok="dominated by handle_conn_err", bad="an error return of the connection loop does not go through handle_conn_err: pending requests stay unanswered")
            for h, t in hce:
                sl = du.slice_operand(t["args"][1])
                ctx.check(sl.has_call("VecDeque::drain") and "tasks" in _cap_role(F, b, sl), "C08.D3", "drain-all-tasks#%d" % (hce.index((h, t)) + 1), site(b, h), ok="all pending tasks are drained into handle_conn_err", bad="handle_conn_err is not given tasks.drain(..)")
    e = F.one("proxy::backend::handle_conn_err")
    if e is None:
        ctx.lost("C08.D3", "handle_conn_err", "not found")
    else:
        ctx.analysed(e)
        du = DefUse(e)
        rs = agg_sites(e, "RetryState")
        sr = [bb for bb, t in e.calls() if (callee_decl(t) or "").endswith("CmdTask::set_result") or (callee_decl(t) or "").endswith("CmdTask::set_resp_result")]
        keeps = bool(rs) and any(du.slice_operand(s["rv"]["ops"][s["rv"]["fields"].index("tasks")]).has_param(2) for bb, i, s in rs)
        ctx.check(keeps, "C08.D3", "handle_conn_err:retry-keeps-all", site(e), ok="retry keeps every task", bad="the retry branch does not keep all tasks")
        sk = loop_can_skip(e, sr)
        ctx.check(bool(sr) and not sk, "C08.D3", "handle_conn_err:answer-each", site(e), ok="give-up branch answers every task", bad="the give-up branch can skip tasks without answering them" if sr else "the give-up branch answers nobody")
        # the two branches are the only ways out: every return passes the RetryState construction or the answering loop entry
        it = [bb for bb, t in e.calls() if (callee_decl(t) or "") == "std::iter::IntoIterator::into_iter"]
        bars = {(x[0], x[1]) for x in rs} | {(x, len(e.blocks[x].stmts)) for x in it}
        p = cfg.path_avoiding(e, (0, -1), set(e.return_blocks()), bars)
        ctx.check(p is None, "C08.D3", "handle_conn_err:no-third-way", site(e), ok="tasks are either kept or answered", bad="handle_conn_err can return without keeping or answering the tasks")
    if e is not None and b is not None:
        _retry_budget(ctx, F, b, e)
    hb = [x for x in F.all_bodies(bins=False) if x.path == "proxy::backend::handle_backend::{closure#0}"]
    if not hb:
        ctx.lost("C08.D3", "handle_backend", "async body not found")
        return
    h = hb[0]
    ctx.analysed(h)
    du = DefUse(h)
    marks = []
    for bb, t in h.calls():
        if (callee_of(t) or "").endswith("::store") and "Atomic" in (callee_of(t) or "") and "Atomic<bool>" in " ".join(t.get("atys") or [])[:80] and t["args"][1].get("c", {}).get("int") == 1:
            marks.append(bb)
    takes = [(bb, t) for bb, t in calls_to(h, "Option::take") if "RetryState" in ((t.get("atys") or [""])[0])]
    sleeps = [bb for bb, t in calls_to(h, "tokio::time::sleep")]
    if not (ctx.floor("C08.D3", "reconnect failure marker", len(marks), 1) and ctx.floor("C08.D3", "retry_state.take()", len(takes), 2) and ctx.floor("C08.D3", "reconnect back-off", len(sleeps), 1)):
        return
    fail_takes = [(bb, t) for bb, t in takes if cfg.reaches(h, marks[0], bb) and any(cfg.reaches(h, bb, s) for s in sleeps) and not any(cfg.reaches(h, s, bb) and not cfg.reaches(h, bb, s) for s in sleeps)]
    dom = cfg.dominators(h)
    ft = [x for x in fail_takes if marks[0] in dom.get(x[0], ())]
    if not ft:
        ctx.violation("C08.D3", "reconnect-failure:answers-carried-over", site(h, marks[0]), "when reconnecting fails the carried-over tasks are not taken out of retry_state: requests in flight when the connection broke stay unanswered")
        return
    tb, tt = ft[0]
    ctx.check(all(tb in dom.get(s, ()) for s in sleeps if cfg.reaches(h, marks[0], s) and marks[0] in dom.get(s, ())), "C08.D3", "reconnect-failure:take-unconditional", site(h, tb),
              ok="retry_state.take() happens on every connect failure", bad="retry_state.take() is conditional on the connect-failure path")

    def call(interp, bbx, term, argvals):
        if term is tt:
            return Some(Agg("proxy::backend::RetryState", 0, (TOP, TOP)))
        return None
    res = Interp(F, h, Oracle(call=call)).run()
    succs = cfg.exec_succs(h, res.exec_edges)
    its = [bb for bb, t in h.calls() if (callee_decl(t) or "") == "std::iter::IntoIterator::into_iter" and du.slice_operand(t["args"][0]).has_call("Option::take")]
    tgt = {s for s in sleeps if cfg.reaches(h, tb, s)}
    p = cfg.path_avoiding(h, (tb, len(h.blocks[tb].stmts)), tgt, {(x, len(h.blocks[x].stmts)) for x in its}, succs=succs)
    ctx.check(bool(its) and p is None, "C08.D3", "reconnect-failure:answers-carried-over", site(h, tb), ok="carried-over tasks are answered before backing off",
              bad="with tasks carried over from the broken connection, the reconnect-failure path can back off without answering them (silence for as long as the backend is down)", path=str(cfg.lines_of_path(h, p)) if p else None)
    ans = [bb for bb, t in h.calls() if (callee_decl(t) or "").endswith("CmdTask::set_resp_result") or (callee_decl(t) or "").endswith("CmdTask::set_result")]
    loops = {}
    for t_, hd in cfg.natural_loops(h):
        loops.setdefault(hd, set()).update(cfg.loop_blocks(h, t_, hd))
    for it_bb in its:
        inner = [hd for hd, blks in loops.items() if any(a in blks for a in ans) and cfg.reaches(h, it_bb, hd) and len(blks) < 40]
        ok_loop = False
        for hd in inner:
            blks = loops[hd]
            succ_in = {x: [s for s in h.succs()[x] if s in blks] for x in blks}
            pth = cfg.path_between(h, hd, hd, avoid=set(a for a in ans if a in blks), succs={**h.succs(), **succ_in})
            if pth is None:
                ok_loop = True
        ctx.check(ok_loop, "C08.D3", "reconnect-failure:each-task-answered", site(h, it_bb), ok="every carried-over task gets set_resp_result", bad="the loop over carried-over tasks can skip a task")


def _retry_budget(ctx, F, b, e):
    """handle_conn_err evaluated on concrete retry counts (constant propagation): (i) a call site that passes a constant
    count means `do not retry` (the timeout branch) and must get None, otherwise a request the backend never answers is
    re-sent for ever and its client gets silence; (ii) starting from None the carried count reaches the give-up branch
    after finitely many failures"""
    from ..sccp import Interp, Oracle, Int, Some, NONE
    du = DefUse(b)

    def ev(v):
        try:
            return Interp(F, e, Oracle(args={1: v})).run().return_value()
        except Exception:
            return None
    n = 0
    for bb, t in calls_to(b, "handle_conn_err"):
        sl = du.slice_operand(t["args"][0])
        ints = [c.get("int") for c in sl.consts if c.get("int") is not None]
        if sl.captures or sl.params or len(ints) != 1:
            continue
        n += 1
        rv = ev(Some(Int(ints[0])))
        ctx.check(rv == NONE, "C08.D3", "constant-budget-gives-up#%d" % n, site(b, bb), ok="handle_conn_err(Some(%d)) answers every task (no retry)" % ints[0],
                  bad="this branch passes the constant retry count %d meaning `do not retry`, but handle_conn_err(Some(%d)) returns %s: the timed-out requests are re-sent on the next connection again and again and never get a reply" % (ints[0], ints[0], "a retry state" if rv != NONE and rv is not None else rv))
    ctx.floor("C08.D3", "handle_conn_err call sites with a constant retry count", n, 1)
    v = NONE
    steps = 0
    ended = False
    while steps < 64:
        rv = ev(v)
        if rv == NONE:
            ended = True
            break
        if not (rv and rv[0] == "agg" and rv[2] == 1 and rv[3] and rv[3][0][0] == "agg" and rv[3][0][3] and rv[3][0][3][0][0] == "int"):
            break
        nxt = rv[3][0][3][0][1]
        v = Some(Int(nxt))
        steps += 1
    ctx.check(ended, "C08.D3", "retry-budget-finite", site(e), ok="gives up after %d consecutive failures" % steps, bad="the carried retry count never reaches the give-up branch (stopped after %d steps at %s)" % (steps, v))


FIFO_OK = {"push_back", "pop_front", "front", "front_mut", "is_empty", "len", "with_capacity", "new", "capacity", "reserve", "iter"}


def _session(ctx):
    F = ctx.F
    R = "C08.D4"
    cands = [b for b in F.all_bodies(bins=False) if b.path.startswith("proxy::session::handle_session::{closure#0}::{closure") and b.kind == "Closure" and calls_to(b, "VecDeque::pop_front")]
    if not ctx.floor(R, "handle_session poll closure", len(cands), 1):
        return
    b = cands[0]
    ctx.analysed(b)
    du = DefUse(b)
    dom = cfg.dominators(b)
    # FIFO discipline on the two queues
    bad = []
    nq = 0
    for bb, t in b.calls():
        c = callee_of(t) or ""
        if not c.startswith("std::collections::VecDeque::"):
            continue
        sl = du.slice_operand(t["args"][0], deep=False) if t["args"] else None
        roles = _cap_role(F, b, sl) if sl is not None else set()
        q = next((x for x in ("reply_receiver_list", "replies") if x in roles), None)
        if q is None:
            continue
        nq += 1
        if c.rsplit("::", 1)[-1] not in FIFO_OK:
            bad.append((q, c.rsplit("::", 1)[-1], bb))
    ctx.floor(R, "queue operations in the session", nq, 5)
    ctx.check(not bad, R, "session-fifo-ops", site(b, bad[0][2]) if bad else site(b), ok="only push_back / pop_front / front on reply_receiver_list and replies", bad="non-FIFO operation %s: replies would be written out of request order" % [(q, o) for q, o, _ in bad])
    # one queued future per handled command
    hc = [(bb, t) for bb, t in b.calls() if (callee_decl(t) or "").endswith("CmdHandler::handle_cmd")]
    pb = [(bb, t) for bb, t in calls_to(b, "VecDeque::push_back") if "reply_receiver_list" in _cap_role(F, b, du.slice_operand(t["args"][0], deep=False))]
    if ctx.floor(R, "handle_cmd calls in the session", len(hc), 1) and ctx.floor(R, "push_back on reply_receiver_list", len(pb), 1):
        ok = all(du.slice_operand(t["args"][1]).has_call("handle_cmd") for bb, t in pb)
        ctx.check(ok, R, "queued-future-is-the-handlers", site(b, pb[0][0]), ok="the queued future is the one returned by handle_cmd", bad="a future that does not come from handle_cmd is queued")
        heads = {h for _, h in cfg.natural_loops(b)}
        for bb, t in hc:
            # from the handle_cmd call every way on (back to the loop head or out) passes the push
            pbb = {x for x, _ in pb}
            esc = cfg.path_avoiding(b, (bb, len(b.blocks[bb].stmts)), heads | set(b.return_blocks()), {(x, len(b.blocks[x].stmts)) for x in pbb}) if hasattr(cfg, "path_avoiding") else None
            ctx.check(esc is None, R, "every-command-queues-its-future", site(b, bb), ok="handle_cmd is always followed by push_back of its future", bad="a handled command can leave no future in the reply queue: it never gets a reply and later replies shift")
    # popped reply is sent
    pops = [(bb, t) for bb, t in calls_to(b, "VecDeque::pop_front") if "replies" in _cap_role(F, b, du.slice_operand(t["args"][0], deep=False))]
    sends = [(bb, t) for bb, t in b.calls() if (callee_decl(t) or callee_of(t) or "").endswith("Sink::start_send")]
    if ctx.floor(R, "replies.pop_front", len(pops), 1) and ctx.floor(R, "start_send", len(sends), 1):
        ctx.check(all(du.slice_operand(t["args"][1]).has_call("pop_front") for bb, t in sends), R, "popped-reply-is-sent", site(b, sends[0][0]), ok="start_send is given the popped reply", bad="start_send is not given the reply popped from the queue")
    # the write loop's result: Pending, an error, or the result of poll_flush - never a made-up Ready(Ok)
    fl = [(bb, t) for bb, t in b.calls() if (callee_decl(t) or callee_of(t) or "").endswith("Sink::poll_flush")]
    if not ctx.floor(R, "poll_flush in the session", len(fl), 1):
        return
    res_l = fl[0][1]["dest"]["l"]
    made_up = []
    for d in du.defs.get(res_l, []):
        if d[0] == "assign" and d[3]["rv"]["k"] == "agg" and d[3]["rv"].get("variant") == "Ready":
            av = agg_variant_of(du, d[3]["rv"]["ops"][0])
            if not (av and av[1] == "Err"):
                made_up.append(d[1])
    ctx.check(not made_up, R, "write-loop-never-skips-flush", site(b, made_up[0]) if made_up else site(b, fl[0][0]), ok="the write loop ends with Pending, an error or the result of poll_flush",
              bad="the write loop can end with a made-up Ready(Ok) without calling poll_flush: bytes left in the sink after an earlier Pending flush are never written, the client receives a truncated reply")
    # and poll_flush is reached whenever the queue is found empty
    for bb, t in pops:
        succ_none = None
        # the None arm of the pop: flush must be reachable from it without another pop / send and must be the only exit
        ctx.check(any(cfg.reaches(b, bb, f) for f, _ in fl), R, "flush-reachable-after-pop", site(b, bb), ok="poll_flush reachable after the queue was polled", bad="poll_flush is not reachable after replies.pop_front()")


def _flush_liveness(ctx):
    """a request written into the sink but not flushed reaches the backend only if the connection task is polled again:
    need_flush may answer `not yet` only after it polled the flush timer with the task's context (which registers the
    wake-up); a `false` on any other path with bytes pending leaves the request in the buffer until unrelated traffic
    arrives - its client gets silence"""
    from ..sccp import Interp, Oracle, Int, Agg
    F = ctx.F
    b = F.one("common::batch::BatchState::need_flush")
    sadt = F.adt("common::batch::BatchStrategy")
    if b is None or sadt is None:
        ctx.lost("C08.D5", "need_flush", "BatchState::need_flush / BatchStrategy not found")
        return
    ctx.analysed(b)
    dom = cfg.dominators(b)
    pt = [bb for bb, t in b.calls() if (callee_of(t) or callee_decl(t) or "").endswith("poll_tick")]
    if not ctx.floor("C08.D5", "flush timer polls in need_flush", len(pt), 1):
        return
    rets = [(bb, i, st) for bb, i, st in b.assigns() if st["place"]["l"] == 0 and not st["place"]["p"]]
    for vi, v in enumerate(sadt.variants):
        def read(interp, bbx, place, val, vi=vi):
            fs = [(norm(a), n) for a, n in place_fields(place)]
            if fs and fs[-1][1] == "curr_wbuf_content_size":
                return Int(5)
            if fs and fs[-1][1] == "strategy":
                return Agg(sadt.path, vi, ())
            return None
        res = Interp(F, b, Oracle(read=read)).run()
        bad = None
        for bb, i, st in rets:
            if bb not in res.exec_blocks:
                continue
            rv = st["rv"]
            if rv["k"] == "use" and "c" in rv["a"]:
                if rv["a"]["c"].get("int") == 0:
                    bad = (bb, "returns false")
            elif rv["k"] == "use":
                if not any(p_ in dom.get(bb, ()) for p_ in pt):
                    bad = (bb, "returns a flag without having polled the flush timer")
            elif rv["k"] == "binop":
                val = res.return_value()
                if v["name"] == "Disabled" and val != Int(1):
                    bad = (bb, "does not answer true")
        ctx.check(bad is None, "C08.D5", "need_flush:%s:bytes-pending" % v["name"], site(b, bad[0]) if bad else site(b), ok="false only after the flush timer was polled" if v["name"] != "Disabled" else "true",
                  bad="with bytes pending and strategy %s, need_flush %s: the buffered request is not flushed and nothing wakes the connection task up" % (v["name"], bad[1] if bad else ""))


def _collect_loop_exits(ctx):
    """the session's collect loop (`while let Some(r) = reply_receiver_list.front_mut() { poll r .. }`) may stop only when
    the queue is empty or after it polled the front future in that very iteration (Pending: the poll registered the
    task's waker).  Any other exit leaves a finished or pending reply future unpolled: nothing wakes the session for it
    and its client waits for ever while the connection stays open."""
    F = ctx.F
    R = "C08.D5"
    cands = [b for b in F.all_bodies(bins=False) if b.path.startswith("proxy::session::handle_session::{closure#0}::{closure") and b.kind == "Closure" and calls_to(b, "VecDeque::pop_front")]
    if not cands:
        ctx.lost(R, "collect-loop", "handle_session poll closure not found")
        return
    b = cands[0]
    du = DefUse(b)
    fm = [(bb, t) for bb, t in calls_to(b, "VecDeque::front_mut") if "reply_receiver_list" in _cap_role(F, b, du.slice_operand(t["args"][0], deep=False))]
    polls = [(bb, t) for bb, t in b.calls() if (callee_decl(t) or "").endswith("Future::poll")]
    if not (ctx.floor(R, "reply_receiver_list.front_mut()", len(fm), 1) and ctx.floor(R, "poll of a reply future", len(polls), 1)):
        return
    loops = [(t_, h, cfg.loop_blocks(b, t_, h)) for t_, h in cfg.natural_loops(b)]
    loops = [(t_, h, L) for t_, h, L in loops if fm[0][0] in L and any(pb in L for pb, _ in polls)]
    if not ctx.floor(R, "collect loop", len(loops), 1):
        return
    L = set().union(*[l for _, _, l in loops])
    head = loops[0][1]
    pset = {pb for pb, _ in polls if pb in L}
    succs = b.succs()
    inner = {x: [y for y in succs[x] if y in L and y != head] for x in L}
    for x in range(len(b.blocks)):
        inner.setdefault(x, [])
    fres = fm[0][1]["dest"]["l"]
    bad = []
    n = 0
    for u in sorted(L):
        for v in succs[u]:
            if v in L or b.blocks[v].cleanup:
                continue
            n += 1
            # (a) the queue is empty: the exit is the None arm of front_mut()'s own result
            t = b.blocks[u].term
            if t["k"] == "switch":
                pl_ = t["discr"].get("mv") or t["discr"].get("cp")
                own = any(df[0] == "assign" and df[3]["rv"]["k"] == "discr" and df[3]["rv"]["p"]["l"] == fres and not df[3]["rv"]["p"]["p"] for df in du.defs.get(pl_["l"], [])) if pl_ else False
                if own:
                    continue
            # (b) the front future was polled in this iteration
            if u in pset or cfg.path_between(b, head, u, avoid=pset, succs=inner) is None and u != head:
                continue
            bad.append((u, b.blocks[u].term.get("line")))
    ctx.floor(R, "exits of the collect loop", n, 2)
    ctx.check(not bad, R, "collect-loop-stops-only-empty-or-polled", site(b, bad[0][0]) if bad else site(b, head), ok="the collect loop ends only on an empty queue or after polling the front reply future",
              bad="the collect loop can stop (line %s) with a reply future at the front that was not polled in this round: no waker is registered for it, the reply is never collected and the client waits for ever" % [l for _, l in bad])


def _subreplies_in_request_order(ctx):
    """a handler that assembles its reply positionally from the results of its sub-commands (MGET) awaits them with a
    combinator that keeps the order of the futures it was given"""
    F = ctx.F
    R = "C08.D6"
    ORDERED = ("futures::future::join_all", "futures::future::try_join_all")
    n = 0
    for b in F.all_bodies(bins=False):
        if b.crate != "undermoon" or b.is_mock() or not b.path.startswith("proxy::") or "tests::" in b.path:
            continue
        cons = [(bb, t) for bb, t in b.calls() if t.get("atys") and t["atys"][0].startswith("std::vec::Vec<") and "Future" in t["atys"][0]
                and "mv" in t["args"][0] and not (callee_of(t) or callee_decl(t) or "").endswith("drop_in_place")]
        if not cons:
            continue
        du = DefUse(b)
        dom = cfg.dominators(b)
        for cb, ct in cons:
            c = callee_of(ct) or callee_decl(ct) or ""
            pos = []
            for bb, t in calls_to(b, "Vec::push"):
                if cb in dom.get(bb, ()) and len(t["args"]) > 1 and cb in du.slice_operand(t["args"][1]).calls.get(c, set()):
                    pos.append(bb)
            if not pos:
                continue   # results only folded (count / all-ok): their order does not reach the reply
            n += 1
            ctx.analysed(b)
            ok = c in ORDERED
            if not ok and c in F.bodies:
                fam = [F.bodies[c]] + [x for x in F.all_bodies(bins=False) if x.path.startswith(c + "::{closure")]
                ok = any((callee_of(t2) or callee_decl(t2) or "") in ORDERED for x in fam for _, t2 in x.calls())
            if not ok and c.endswith("IntoIterator>::into_iter"):
                ok = True   # awaited one after the other
            # whatever the route: the results must not pass through a completion-ordered combinator
            UNORDERED = ("FuturesUnordered", "BufferUnordered", "buffer_unordered", "SelectAll", "select_all", "select_ok")

            def unordered(term):
                txt = " ".join([term.get("inst") or "", callee_of(term) or "", callee_decl(term) or ""] + list(term.get("targs") or []) + list(term.get("atys") or []))
                return any(u in txt for u in UNORDERED)
            scope = [b]
            if c in F.bodies:
                scope += [F.bodies[c]] + [x for x in F.all_bodies(bins=False) if x.path.startswith(c + "::{closure")]
            hits = [(x, bb2) for x in scope for bb2, t2 in x.calls() if unordered(t2) and (x is not b or cb in dom.get(bb2, ()) or bb2 == cb)]
            if hits:
                ok = False
                c = c + " / " + (callee_of(hits[0][0].blocks[hits[0][1]].term) or callee_decl(hits[0][0].blocks[hits[0][1]].term) or "")
            ctx.check(ok, R, "subreplies-in-request-order:%s" % b.path.split("::{closure")[0].rsplit("::", 1)[-1], site(b, cb), ok="sub-replies are awaited by %s (keeps the order of the futures)" % c,
                      bad="the reply is assembled position by position from sub-command results that are awaited by %s, which does not yield them in the order of the requests: values are returned for the wrong keys" % c)
    ctx.floor(R, "positional fan-out handlers", n, 1)


def _fanout(ctx):
    from ..lib import lossy_ops, branch_conditions
    F = ctx.F
    cands = [b for b in F.all_bodies(bins=False) if b.path.endswith("::set_result") and "ReqTask" in b.path and b.path.startswith("<proxy::backend::") and not b.is_mock()]
    if not ctx.floor("C08.D6", "ReqTask::set_result", len(cands), 1):
        return
    b = cands[0]
    ctx.analysed(b)
    du = DefUse(b)
    dom = cfg.dominators(b)
    sr = [bb for bb, t in b.calls() if (callee_decl(t) or "").endswith("CmdTask::set_result")]
    if not ctx.floor("C08.D6", "inner set_result calls", len(sr), 5):
        return
    sk = loop_can_skip(b, sr)
    ctx.check(not sk, "C08.D6", "every-sub-task-answered", site(b, sk[0][0]) if sk else site(b), ok="no loop over the sub-tasks can pass a task without answering it", bad="a loop over the sub-tasks (head bb%s) can go to the next task without calling set_result: that request gets no reply" % [h for h, _ in sk])
    loops = {h for _, h in cfg.natural_loops(b)}
    ctx.floor("C08.D6", "loops over sub-tasks", len(loops), 4)
    zips = [(bb, t) for bb, t in b.calls() if (callee_decl(t) or callee_of(t) or "").endswith("::zip")]
    for bb, t in zips:
        guarded = False
        for d, discr, val in branch_conditions(b, bb, dom):
            sl = du.slice_operand(discr)
            if sum(1 for c in list(sl.calls) + list(sl.decls) if c.rsplit("::", 1)[-1] == "len") >= 1 and (sl.binops & {"Ne", "Eq"}) and len([c for c, bbs in sl.calls.items() if c.rsplit("::", 1)[-1] == "len" for _ in bbs]) >= 2:
                guarded = True
        ctx.check(guarded, "C08.D6", "pairing-after-count-check", site(b, bb), ok="tasks and replies are zipped only after their counts were compared", bad="tasks and replies are zipped without comparing their counts: zip stops at the shorter list and the remaining requests get no reply")
    bad_ad = [(callee_decl(t) or "").rsplit("::", 1)[-1] for bb, t in b.calls() if (callee_decl(t) or "").startswith("std::iter::Iterator::") and (callee_decl(t) or "").rsplit("::", 1)[-1] in ("rev", "skip", "take", "step_by", "skip_while", "take_while", "filter", "filter_map")]
    ctx.check(not bad_ad, "C08.D6", "order-kept", site(b), ok="sub-tasks and replies are walked front to back, all of them", bad="the fan-out uses %s: replies are paired with other requests than the ones that produced them" % bad_ad)


def _bool_capture_writes(b):
    """{capture field index: [(bb, idx, const value or None)]} for assignments to bool variables captured by reference"""
    out = {}
    for bb, i, st in b.assigns():
        pl = st["place"]
        pr = pl["p"]
        if pl["l"] != 1 or not pr:
            continue
        fidx = next((e.get("f") for e in pr if isinstance(e, dict) and "f" in e), None)
        if fidx is None:
            continue
        rv = st["rv"]
        val = rv["a"]["c"].get("int") if rv["k"] == "use" and "c" in rv["a"] and rv["a"]["c"].get("ty") == "bool" else None
        if rv["k"] == "use" and "c" in rv["a"] and rv["a"]["c"].get("ty") == "bool" or (rv["k"] == "use" and b.locals[(rv["a"].get("cp") or rv["a"].get("mv") or {"l": 0})["l"]]["ty"] == "bool"):
            out.setdefault(fidx, []).append((bb, i, val))
    return out


def _timers(ctx):
    from ..lib import branch_conditions
    F = ctx.F
    R = "C08.D7"
    b = _poll_closure(F, "handle_conn")
    if b is None:
        ctx.lost(R, "handle_conn", "poll closure not found")
    else:
        du = DefUse(b)
        dom = cfg.dominators(b)
        ticks = [bb for bb, t in b.calls() if (callee_of(t) or callee_decl(t) or "").endswith("poll_tick")]
        reads = [bb for bb, t in b.calls() if (callee_decl(t) or "").endswith("Stream::poll_next") and "reader" in _cap_role(F, b, du.slice_operand(t["args"][0]))]
        tmo = [bb for bb, i, st in agg_sites(b, "BackendError", "Timeout")] + [bb for bb, i, st in b.assigns() if st["rv"]["k"] == "use" and "c" in st["rv"]["a"] and "BackendError::Timeout" in str(st["rv"]["a"]["c"].get("v", ""))]
        w = _bool_capture_writes(b)
        # the response flag: a captured bool set to true after a packet was read
        flag = None
        for f, ws in w.items():
            if any(v == 1 and any(r in dom.get(bb, ()) for r in reads) for bb, i, v in ws):
                flag = f
        if not (ctx.floor(R, "backend timeout tick", len(ticks), 1) and ctx.floor(R, "backend Timeout error", len(tmo), 1)) or flag is None:
            if flag is None:
                ctx.lost(R, "response-flag", "no captured bool that is set when a packet is read")
        else:
            resets = {bb for bb, i, v in w[flag] if v == 0}
            # blocks on the `tick fired` side: dominated by the tick call and controlled by is_ready() == true
            rets = [x for x in b.return_blocks()]
            fired = []
            for x in range(len(b.blocks)):
                if ticks[0] in dom.get(x, ()) and x != ticks[0]:
                    for d, discr, val in branch_conditions(b, x, dom):
                        is_true = (val == 1) or (isinstance(val, tuple) and val[1] == [0])
                        if is_true and ticks[0] in dom.get(d, ()) and du.slice_operand(discr).has_call("is_ready"):
                            fired.append(x)
            entry = min(fired, key=lambda x: len(dom.get(x, ()))) if fired else None
            if entry is None:
                ctx.lost(R, "backend-tick-branch", "no branch on poll_tick(..).is_ready()")
            else:
                bad = None
                for r in rets:
                    pth = cfg.path_between(b, entry, r, avoid=resets | set(tmo))
                    if pth is not None:
                        bad = pth
                ctx.check(bool(resets) and bad is None, R, "backend-tick-clears-response-flag", site(b, entry), ok="every tick that does not time out resets the response flag",
                          bad="a tick can pass without clearing the `response received` flag: once a response was seen while requests are in flight, a backend that then stalls is never timed out and its requests (and all queued behind them) get no reply")
    # session idle timeout
    cands = [x for x in F.all_bodies(bins=False) if x.path.startswith("proxy::session::handle_session::{closure#0}::{closure") and x.kind == "Closure" and calls_to(x, "VecDeque::pop_front")]
    if not cands:
        ctx.lost(R, "session", "poll closure not found")
        return
    s_ = cands[0]
    du = DefUse(s_)
    dom = cfg.dominators(s_)
    tmo = [bb for bb, i, st in agg_sites(s_, "SessionError", "Timeout")] + [bb for bb, i, st in s_.assigns() if st["rv"]["k"] == "use" and "c" in st["rv"]["a"] and "SessionError::Timeout" in str(st["rv"]["a"]["c"].get("v", ""))]
    if not ctx.floor(R, "session idle Timeout error", len(tmo), 1):
        return
    ok = False
    for d, discr, val in branch_conditions(s_, tmo[0], dom):
        is_true = (val == 1) or (isinstance(val, tuple) and val[1] == [0])
        if not is_true:
            continue
        for c_, bbs in du.slice_operand(discr).calls.items():
            if c_.endswith("VecDeque::is_empty"):
                for bb_ in bbs:
                    t_ = s_.blocks[bb_].term
                    if "reply_receiver_list" in _cap_role(F, s_, du.slice_operand(t_["args"][0], deep=False)):
                        ok = True
    ctx.check(ok, R, "session-idle-timeout-needs-no-pending-request", site(s_, tmo[0]), ok="the idle timeout fires only when the queue of reply futures is empty",
              bad="the session can be closed for idleness while a request is still waiting for its reply (the test does not look at the queue of pending reply futures): the client sees EOF instead of the reply")
