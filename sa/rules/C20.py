"""C20 - value compression is transparent (DESIGN §5 C20): value-position / read / restriction
tables against a frozen Redis syntax table; the zstd round trip is library code."""
from ..facts import norm, callee_of, callee_decl, place_fields, const_int
from ..defuse import DefUse
from ..sccp import Interp, Oracle, Int, Bool, Agg, TOP, Some
from ..callgraph import CallGraph
from .. import cfg
from ..lib import m, calls_to, site, agg_sites
from ..tables.redis_commands import STRING_WRITE_VALUE_POS, STRING_READ, STRING_OTHER
from .C03 import cmd_tables

EXPLANATION = (
    "For every command variant x strategy {disabled, set_get_only, allow_all} the compressor's outcome is derived by conditional constant propagation: "
    "which argument index is handed to compress_one_element (or the (2..len).step_by(2) walk for MSET / MSETNX), or which refusal is returned. The "
    "table is compared with the frozen Redis syntax table: SET / SETNX / GETSET value at 2, SETEX / PSETEX at 3, MSET / MSETNX at every even index from "
    "2; no other index (keys, options, ttl) is ever passed; other string commands are refused (RestrictedCmd in set_get_only, UnsupportedCmdType "
    "otherwise); non-string commands are untouched; `disabled` short-circuits both directions. The reply side decodes exactly GET / GETSET bulk "
    "replies and MGET array elements, without a size cap, and leaves every other reply alone. Decompression is installed on the local backend senders; "
    "the peer path is reported as an observation. zstd's own round trip is library code and is not decided."
)
ASSUMPTIONS = ["zstd encode_all / decode_all are inverse (library)", "Redis command syntax table (sa/tables/redis_commands.py) is domain knowledge"]
TRUSTED = ["zstd crate"]

MUTANTS = [
    {"name": "short-replies-not-decoded", "file": "src/proxy/reply.rs", "old": "        match self.decompressor.decompress(&cmd_ctx, &mut packet) {", "new": "        let short = match packet.to_resp_slice() {\n            Resp::Bulk(BulkStr::Str(s)) => s.len() <= 9,\n            _ => false,\n        };\n        if short {\n            return cmd_ctx.set_result(Ok(Box::new(packet)));\n        }\n        match self.decompressor.decompress(&cmd_ctx, &mut packet) {", "expect": "C20.D5:decode-unconditional"},
    {"name": "mset-value-index-off-by-one", "file": "src/proxy/executor.rs", "after": "async fn handle_mset(", "old": "            let value = match cmd_ctx.get_cmd().get_command_element(2 * i + 2) {", "new": "            let value = match cmd_ctx.get_cmd().get_command_element(2 * i + 3) {", "expect": "C20.D5:handle_mset"},
    {"name": "precompressed-values-skipped", "file": "src/proxy/compress.rs", "old": "        let compressed = match zstd::encode_all(value, 1) {", "new": "        if value.starts_with(&[0x28, 0xB5, 0x2F, 0xFD]) {\n            return Ok(());\n        }\n        let compressed = match zstd::encode_all(value, 1) {", "expect": "C20.D5:encode-unconditional"},
    {"name": "single-key-mget-not-split", "file": "src/proxy/executor.rs", "old": "            DataCmdType::Mget => {\n                CmdReplyFuture::Right", "new": "            DataCmdType::Mget if cmd_ctx.get_cmd().get_command_element(2).is_some() => {\n                CmdReplyFuture::Right", "expect": "C20.D5:dispatch:MGET"},
    {"name": "setex-value-index", "file": "src/proxy/compress.rs", "old": "DataCmdType::Psetex | DataCmdType::Setex => OptionalMulti::Single(3),", "new": "DataCmdType::Psetex | DataCmdType::Setex => OptionalMulti::Single(2),", "expect": "C20.D1:SETEX"},
    {"name": "getset-not-decompressed", "file": "src/proxy/compress.rs", "old": "            DataCmdType::Get | DataCmdType::Getset => {\n                let compressed = if let", "new": "            DataCmdType::Get => {\n                let compressed = if let", "expect": "C20.D2:GETSET"},
    {"name": "append-not-restricted", "file": "src/proxy/compress.rs", "old": "            DataCmdType::Append\n            | DataCmdType::Bitcount", "new": "            DataCmdType::Bitcount", "expect": "C20.D3:APPEND"},
    {"name": "mset-compresses-keys", "file": "src/proxy/compress.rs", "old": "let key_indices = (2..l).step_by(2).collect();", "new": "let key_indices = (1..l).step_by(2).collect();", "expect": "C20.D1:MSET"},
    {"name": "disabled-still-decompresses", "file": "src/proxy/compress.rs", "old": "        if strategy == CompressionStrategy::Disabled {\n            return Err(CompressionError::Disabled);\n        }\n\n        let data_cmd_type = cmd_ctx.get_data_cmd_type();", "new": "        let _ = strategy;\n\n        let data_cmd_type = cmd_ctx.get_data_cmd_type();", "expect": "C20.D3:disabled"},
]

CE = "proxy::compress::CompressionError"
CS = "common::config::CompressionStrategy"


def run(ctx):
    F = ctx.F
    ctx.rule("C20.D1", "write side: value positions per command equal the Redis syntax table; nothing else is ever compressed", exhaustive=True)
    ctx.rule("C20.D2", "read side: GET / GETSET bulk and MGET elements are decoded, other replies untouched, no size cap", exhaustive=True)
    ctx.rule("C20.D3", "string commands partition: compressed-write / decompressed-read / refused; disabled short-circuits", exhaustive=True)
    ctx.rule("C20.D5", "the element transforms are unconditional on the value's content (every Ok of compress_one_element passes zstd::encode_all and the element write); string commands with a dedicated multi-key handler always take it (never the single-key path, where the compressor refuses them)")
    ctx.rule("C20.D4", "decompression is wired to the backend result handlers; compression happens in the single-key data path")
    T = cmd_tables(ctx, "C20.D1")
    if T is None:
        return
    adt = T["adt"]
    comp = F.one("proxy::compress::CmdCompressor::try_compressing_cmd_ctx")
    dec = F.one("proxy::compress::CmdReplyDecompressor::decompress")
    strat = F.adt(CS)
    ce = F.adt(CE)
    if comp is None or dec is None or strat is None or ce is None:
        ctx.lost("C20.D1", "compressor", "try_compressing_cmd_ctx / decompress / CompressionStrategy not found")
        return
    ctx.analysed(comp, dec)
    names = sorted(set(STRING_WRITE_VALUE_POS) | set(STRING_READ) | STRING_OTHER | {"DEL", "LPUSH", "HSET", "EXPIRE", "ZADD", "EVAL"})
    var_of = {}
    for n in names:
        v = T["variant_of"](n.encode())
        if v is not None:
            var_of[n] = adt.variants[v[2]]["name"]
    one = calls_to(comp, "compress_one_element")
    gc = [(bb, t) for bb, t in comp.calls() if (callee_decl(t) or "").endswith("CompressionStrategyConfig::get_config")]
    gt = [(bb, t) for bb, t in comp.calls() if (callee_of(t) or "").endswith("get_data_cmd_type")]
    steps = [(bb, t) for bb, t in comp.calls() if (callee_decl(t) or "") == "std::iter::Iterator::step_by"]
    if not (ctx.floor("C20.D1", "compress_one_element calls", len(one), 2) and ctx.floor("C20.D1", "get_config", len(gc), 1) and ctx.floor("C20.D1", "get_data_cmd_type", len(gt), 1)):
        return
    du = DefUse(comp)
    # the Multi walk: Range start and step
    multi_shape = None
    for bb, t in steps:
        a = t["args"]
        step = const_int(a[1]["c"]) if "c" in a[1] else None
        sl = du.slice_operand(a[0], deep=False)
        starts = [k for k in sl.const_ints()]
        multi_shape = (min(starts) if starts else None, step)

    def outcome(body, sites_one, vi, si):
        def call(interp, bbx, term, argvals):
            for gb, g in gc if body is comp else gcd:
                if g is term:
                    return Agg(CS, si, ())
            for gb, g in (gt if body is comp else gtd):
                if g is term:
                    return Agg(adt.path, vi, ())
            return None
        return Interp(F, body, Oracle(call=call)).run()

    gcd = [(bb, t) for bb, t in dec.calls() if (callee_decl(t) or "").endswith("CompressionStrategyConfig::get_config")]
    gtd = [(bb, t) for bb, t in dec.calls() if (callee_of(t) or "").endswith("get_data_cmd_type")]
    decs = [(bb, t) for bb, t in dec.calls() if (callee_of(t) or "").endswith("zstd::decode_all") or (callee_of(t) or "").endswith("decode_all")]
    ctx.floor("C20.D2", "zstd decode sites", len(decs), 2)
    snames = [v["name"] for v in strat.variants]
    for name in names:
        vn = var_of.get(name)
        if vn is None:
            ctx.lost("C20.D1", name, "command not resolvable to a variant")
            continue
        vi = adt.variant_names().index(vn)
        for si, sn in enumerate(snames):
            res = outcome(comp, one, vi, si)
            idx = set()
            multi = False
            for bb, t in one:
                if bb in res.exec_blocks:
                    a = res.call_args.get(bb)
                    if a and a[1][0] == "int":
                        idx.add(a[1][1])
                    else:
                        multi = True
            rv = res.return_value()
            errs = set()
            for bb, i, s in agg_sites(comp, CE):
                if bb in res.exec_blocks and s["rv"]["variant"] in ("Disabled", "RestrictedCmd", "UnsupportedCmdType"):
                    errs.add(s["rv"]["variant"])
            key = "%s:%s" % (name, sn)
            if sn == "Disabled":
                ctx.check(not idx and not multi and errs == {"Disabled"}, "C20.D3", "disabled:write:%s" % name, site(comp), ok="nothing compressed when disabled", bad="with compression disabled %s compresses index %s / multi=%s (errors %s)" % (name, sorted(idx), multi, sorted(errs)))
                continue
            if vn == "Others" or (name not in STRING_WRITE_VALUE_POS and name not in STRING_READ and name not in STRING_OTHER):
                ctx.check(not idx and not multi and not (errs & {"RestrictedCmd"}), "C20.D1", key, site(comp), ok="not a string command: untouched", bad="%s (not a string write) gets index %s compressed / refused %s" % (name, sorted(idx), sorted(errs)))
                continue
            if name in STRING_WRITE_VALUE_POS:
                want = STRING_WRITE_VALUE_POS[name]
                if want == "even>=2":
                    good = multi and not idx and multi_shape == (2, 2)
                    ctx.check(good, "C20.D1", key, site(comp), ok="values at 2,4,6,.. compressed", bad="%s compresses %s (walk start/step %s) instead of every even index from 2" % (name, sorted(idx) or "a walk", multi_shape))
                else:
                    ctx.check(idx == set(want) and not multi, "C20.D1", key, site(comp), ok="value at index %s compressed" % want, bad="%s compresses argument index %s, the value is at %s (keys / options / ttl must not be altered)" % (name, sorted(idx) or ("a walk" if multi else "none"), want))
            elif name in STRING_OTHER or name == "MGET":
                want_err = "RestrictedCmd" if sn == "SetGetOnly" else "UnsupportedCmdType"
                if name == "MGET":
                    ctx.check(not idx and not multi, "C20.D1", key, site(comp), ok="read command: request untouched", bad="MGET request arguments are compressed")
                else:
                    ctx.check(not idx and not multi and errs == {want_err}, "C20.D3", key, site(comp), ok="refused with %s" % want_err, bad="%s under %s: compresses %s, errors %s (expected %s): it would observe compressed bytes" % (name, sn, sorted(idx), sorted(errs), want_err))
            else:
                ctx.check(not idx and not multi, "C20.D1", key, site(comp), ok="request untouched", bad="%s request is altered" % name)
        # read side
        for si, sn in enumerate(snames):
            res = outcome(dec, decs, vi, si)
            hit = [bb for bb, t in decs if bb in res.exec_blocks]
            key = "%s:%s" % (name, sn)
            if sn == "Disabled":
                ctx.check(not hit, "C20.D3", "disabled:read:%s" % name, site(dec), ok="nothing decoded when disabled", bad="with compression disabled the reply of %s is still decoded" % name)
                continue
            want = name in STRING_READ
            ctx.check(bool(hit) == want and len(hit) <= 1, "C20.D2", key, site(dec), ok="reply %s" % ("decoded" if want else "untouched"), bad="the reply of %s is %s" % (name, "decoded" if hit else "not decoded although the value was stored compressed"))
    # the two decode sites: bulk for GET/GETSET, array elements for MGET; no size cap
    dd = DefUse(dec)
    limited = [callee_of(t) for bb, t in dec.calls() if (callee_decl(t) or callee_of(t) or "").endswith("Read::take")] + [callee_of(t) for x in F.children(dec) for bb, t in x.calls() if (callee_decl(t) or callee_of(t) or "").endswith("Read::take")]
    helpers = [callee_of(t) for bb, t in dec.calls() if (callee_of(t) or "").startswith("proxy::compress::") and "decode" in (callee_of(t) or "").lower()]
    for h in helpers:
        hb = F.body(h)
        if hb is not None:
            limited += [callee_of(t) for bb, t in hb.calls() if (callee_decl(t) or callee_of(t) or "").endswith("Read::take")]
    ctx.check(not limited, "C20.D2", "no-size-cap", site(dec), ok="values are decoded completely", bad="decompression output is capped (%s): larger values come back truncated" % limited)
    writes = {"change_bulk_str": calls_to(dec, "change_bulk_str"), "change_bulk_array_element": calls_to(dec, "change_bulk_array_element")}
    ctx.check(all(writes.values()), "C20.D2", "reply-rewritten-in-place", site(dec), ok="bulk reply and array elements are replaced by the decoded bytes", bad="decoded bytes are not written back (%s)" % {k: len(v) for k, v in writes.items()})
    _wiring(ctx)
    _unconditional_transform(ctx)
    _dispatch_table(ctx)
    _mset_pairs(ctx)
    _decode_unconditional(ctx)


def _wiring(ctx):
    F = ctx.F
    users = set()
    for b in F.all_bodies(bins=True):
        if b.kind == "Promoted" or b.is_mock():
            continue
        if calls_to(b, "CmdReplyDecompressor::decompress"):
            users.add(b.path.split("::{")[0])
    ctx.check(any("DecompressCommitHandler" in u for u in users), "C20.D4", "decompress-in-commit-handler", None, ok="decompress is applied by %s" % sorted(users), bad="nobody applies CmdReplyDecompressor::decompress")
    comp_users = set()
    for b in F.all_bodies(bins=True):
        if b.kind == "Promoted" or b.is_mock():
            continue
        if calls_to(b, "CmdCompressor::try_compressing_cmd_ctx"):
            comp_users.add(b.path.split("::{")[0])
    ctx.check(comp_users == {"proxy::executor::ForwardHandler::handle_single_key_data_cmd"}, "C20.D4", "compress-single-entry", None, ok="compression is applied only in handle_single_key_data_cmd", bad="compression is applied in %s" % sorted(comp_users))
    h = F.one("proxy::executor::ForwardHandler::handle_single_key_data_cmd")
    if h is not None:
        ctx.analysed(h)
        dom = cfg.dominators(h)
        c = calls_to(h, "try_compressing_cmd_ctx"); s = [bb for bb, t in h.calls() if (callee_of(t) or "").endswith("MetaManager::send")]
        if c and s:
            ctx.check(all(c[0][0] in dom.get(x, ()) for x in s), "C20.D4", "compress-before-send", site(h, c[0][0]), ok="the command is transformed before it is routed", bad="a command can be routed without passing the compressor")
            # refusals answer the client and are not forwarded
            ce = F.adt(CE)
            for vi, v in enumerate(ce.variants):
                def call(interp, bbx, term, argvals, vi=vi):
                    if term is c[0][1]:
                        from ..sccp import Err
                        return Err(Agg(CE, vi, tuple([TOP] * len(v["fields"]))))
                    return None
                res = Interp(F, h, Oracle(call=call)).run()
                sent = any(x in res.exec_blocks for x in s)
                want = v["name"] in ("UnsupportedCmdType", "Disabled")
                ctx.check(sent == want, "C20.D4", "on-%s" % v["name"], site(h, c[0][0]), ok="forwarded" if sent else "answered with an error, not forwarded", bad="after %s the command is %s" % (v["name"], "forwarded" if sent else "not forwarded"))
    # applied once: the forwarding proxy transforms the command *before* routing; when routing redirects it to a peer
    # (active redirection, with or without the UMFORWARD wrapper) the receiving proxy runs the same data path and
    # transforms it again.  Necessary condition for "applied once": the compressor is either applied only when the
    # command stays local (guarded by a local-ownership test) or no remote forwarding is reachable after it.
    cg = CallGraph(F, bins=False)
    tgt = "proxy::executor::ForwardHandler::handle_single_key_data_cmd"
    remote = [p for p in cg.bodies if p.endswith("RemoteCluster::send_remote_directly") or p.endswith("send_cmd_ctx_to_remote_directly")]
    if h is not None and c and s:
        sender_fns = {callee_of(h.blocks[x].term) for x in s}
        reach = set()
        for fn in sender_fns:
            reach |= cg.reachable([fn]) if fn in cg.bodies else set()
        forwards = sorted(r for r in remote if r in reach)
        du = DefUse(h)
        guarded = False
        dom = cfg.dominators(h)
        for gb, gt in h.calls():
            nm = (callee_of(gt) or "").rsplit("::", 1)[-1].lower()
            if gb in dom.get(c[0][0], ()) and gb != c[0][0] and any(k in nm for k in ("is_local", "local", "owns", "get_redirection_times", "is_forwarded")):
                guarded = True
        ctx.check(not forwards or guarded, "C20.D4", "compressed-before-redirect:handle_single_key_data_cmd", site(h, c[0][0]),
                  ok="the compressor is not applied to commands that are redirected to a peer",
                  bad="the command is compressed before routing and routing can forward it to a peer proxy (%s) whose own data path compresses it again: a value written through a redirecting proxy is stored double-compressed and read back as zstd bytes" % ", ".join(x.rsplit("::", 1)[-1] for x in forwards))


def _unconditional_transform(ctx):
    """symmetry of write and read side: the read side decodes every GET / GETSET / MGET bulk reply, so the write side must
    encode every value - a value that is skipped because of what it looks like (e.g. it starts with the zstd magic) comes back
    decoded, i.e. different from what was written"""
    F = ctx.F
    n = 0
    for b in F.all_bodies(bins=False):
        if b.is_mock() or b.kind == "Promoted" or "tests::" in b.path or not b.path.startswith("proxy::compress::"):
            continue
        enc = [bb for bb, t in b.calls() if (callee_of(t) or "").endswith("zstd::encode_all") or (callee_of(t) or "").endswith("::encode_all")]
        if not enc:
            continue
        n += 1
        ctx.analysed(b)
        du = DefUse(b)
        wr = [bb for bb, t in b.calls() if (callee_of(t) or "").rsplit("::", 1)[-1] in ("change_cmd_element", "change_element", "change_bulk_array_element")]
        oks = [bb for bb, i, st in b.assigns() if st["place"]["l"] == 0 and st["rv"]["k"] == "agg" and st["rv"].get("variant") == "Ok"]
        bad = [x for x in oks if cfg.path_between(b, 0, x, avoid=set(enc)) is not None or (wr and cfg.path_between(b, 0, x, avoid=set(wr)) is not None)]
        ctx.check(bool(oks) and not bad, "C20.D5", "encode-unconditional:%s" % b.path.rsplit("::", 1)[-1], site(b, bad[0]) if bad else site(b), ok="every Ok passes encode_all and the element write",
                  bad="%s can return Ok without encoding the value (a value skipped on a content test): the read side still decodes every reply, so such a value does not come back byte-identical" % b.path)
        # no comparison on the value's bytes before encoding
        peek = [bb for bb, t in b.calls() if (callee_of(t) or callee_decl(t) or "").rsplit("::", 1)[-1] in ("starts_with", "ends_with", "contains", "first", "get") and any("u8" in ty for ty in (t.get("atys") or [])[:1])
                and not (callee_of(t) or "").endswith("get_command_element")]
        ctx.check(not peek, "C20.D5", "no-content-test:%s" % b.path.rsplit("::", 1)[-1], site(b, peek[0]) if peek else site(b), ok="the value's bytes are not inspected before encoding", bad="%s inspects the value's bytes before encoding" % b.path)
    ctx.floor("C20.D5", "element encoders", n, 1)


def _dispatch_table(ctx):
    F = ctx.F
    b = F.one("proxy::executor::ForwardHandler::handle_data_cmd")
    if b is None:
        ctx.lost("C20.D5", "handle_data_cmd", "not found")
        return
    ctx.analysed(b)
    adt = F.adt("proxy::command::DataCmdType")
    gt = [(bb, t) for bb, t in b.calls() if (callee_of(t) or "").endswith("get_data_cmd_type")]
    if adt is None or not gt:
        ctx.lost("C20.D5", "handle_data_cmd", "DataCmdType / get_data_cmd_type not found")
        return
    handlers = [(bb, (callee_of(t) or "").rsplit("::", 1)[-1]) for bb, t in b.calls() if (callee_of(t) or "").rsplit("::", 1)[-1].startswith("handle_")]
    if not ctx.floor("C20.D5", "handler calls in handle_data_cmd", len(handlers), 6):
        return
    names = {v["name"].upper(): i for i, v in enumerate(adt.variants)}
    family = set(STRING_READ) | set(STRING_WRITE_VALUE_POS) | set(STRING_OTHER)
    n = 0
    for cmd in sorted(family):
        vi = names.get(cmd)
        if vi is None:
            continue

        def call(interp, bbx, term, argvals, vi=vi):
            for _, g in gt:
                if g is term:
                    return Agg(adt.path, vi, ())
            return None
        res = Interp(F, b, Oracle(call=call)).run()
        hs = sorted({h for bb, h in handlers if bb in res.exec_blocks})
        ded = [h for h in hs if h != "handle_single_key_data_cmd"]
        n += 1
        ctx.check(not (ded and "handle_single_key_data_cmd" in hs), "C20.D5", "dispatch:%s" % cmd, site(b), ok="%s -> %s" % (cmd, hs),
                  bad="%s has the dedicated handler %s but can also fall through to the single-key path, where the compressor does not know how to treat it (refused / not decoded): the command answers an error or undecoded data depending on its argument count" % (cmd, ded))
    ctx.floor("C20.D5", "string commands dispatched", n, 20)


def _mset_pairs(ctx):
    """MSET / MSETNX are split into per-key commands: pair i is (element 2i+1, element 2i+2); in handle_mset the
    sub-command is [SET, key_i, value_i] in that order.  A wrong index pairs a key with a neighbour's value (or with
    itself) - the written value is not the one read back"""
    from ..lib import affine
    F = ctx.F
    for fn in ("handle_mset", "handle_msetnx"):
        bs = [x for x in F.all_bodies(bins=False) if x.path == "proxy::executor::ForwardHandler::%s::{closure#0}" % fn]
        if not bs:
            ctx.lost("C20.D5", "%s-pairs" % fn, "async body not found")
            continue
        b = bs[0]
        ctx.analysed(b)
        du = DefUse(b)
        gets = {}
        for bb, t in b.calls():
            if (callee_of(t) or "").endswith("get_command_element") and len(t["args"]) > 1:
                gets[bb] = affine(b, du, t["args"][1])
        idx = sorted({v for v in gets.values() if v is not None})
        ctx.check(idx == [(2, 1), (2, 2)], "C20.D5", "%s:pair-indexes" % fn, site(b), ok="pair i = elements 2i+1 (key) and 2i+2 (value)", bad="%s reads the elements %s (as coef*i+const) instead of 2i+1 and 2i+2" % (fn, idx or list(gets.values())))
        if fn == "handle_mset":
            arrs = [(bb, i, st) for bb, i, st in b.assigns() if st["rv"]["k"] == "agg" and st["rv"].get("ak") == "array" and len(st["rv"]["ops"]) == 3]
            ok = False
            for bb, i, st in arrs:
                pos = []
                for o in st["rv"]["ops"][1:]:
                    sl = du.slice_operand(o)
                    hit = sorted({gets[g] for c, bbs in sl.calls.items() if c.endswith("get_command_element") for g in bbs if gets.get(g) is not None})
                    pos.append(hit)
                if pos == [[(2, 1)], [(2, 2)]]:
                    ok = True
            ctx.check(ok, "C20.D5", "handle_mset:sub-command-order", site(b), ok="sub-command = [SET, element 2i+1, element 2i+2]", bad="the SET sub-command is not built as [SET, key_i, value_i]")


def _decode_unconditional(ctx):
    """read side mirror of encode-unconditional: whether a reply is decoded depends on the command and the strategy only,
    never on what the reply looks like (its length or its first bytes).  Every stored value is a zstd frame - the empty
    value is a 9 byte frame - so a `too short / does not look compressed` shortcut hands frames to the client"""
    from ..lib import branch_conditions
    F = ctx.F
    n = 0
    CONTENT = ("len", "is_empty", "starts_with", "ends_with", "first", "get", "contains", "get_size_hint")
    for b in F.all_bodies(bins=False):
        if b.is_mock() or b.kind == "Promoted" or "tests::" in b.path or not b.path.startswith(("<proxy::reply::", "proxy::reply::")):
            continue
        dc = [(bb, t) for bb, t in b.calls() if (callee_of(t) or "").endswith("CmdReplyDecompressor::decompress")]
        if not dc:
            continue
        du = DefUse(b)
        dom = cfg.dominators(b)
        for bb, t in dc:
            n += 1
            ctx.analysed(b)
            bad = []
            pkt_locals = {l for l in range(len(b.locals)) if "RespPacket" in b.locals[l]["ty"] and "Result<" not in b.locals[l]["ty"]}
            for d, discr, val in branch_conditions(b, bb, dom):
                pl = discr.get("mv") or discr.get("cp")
                if pl is not None and any(df[0] == "assign" and df[3]["rv"]["k"] == "discr" and "Result<" in b.locals[df[3]["rv"]["p"]["l"]]["ty"] for df in du.defs.get(pl["l"], [])):
                    continue      # the Ok / Err match on the backend result
                sl = du.slice_operand(discr)
                looks = sorted({c.rsplit("::", 1)[-1] for c in list(sl.calls) + list(sl.decls) if c.rsplit("::", 1)[-1] in CONTENT})
                if (looks and (sl.binops & {"Lt", "Le", "Gt", "Ge", "Eq", "Ne"} or "starts_with" in looks or "is_empty" in looks or "contains" in looks)) or (sl.locals & pkt_locals):
                    bad.append((d, looks or sorted(c.rsplit("::", 1)[-1] for c in sl.calls)[:4]))
            ctx.check(not bad, "C20.D5", "decode-unconditional:%s" % b.path.split("::{")[0].rsplit("::", 1)[-1], site(b, bad[0][0]) if bad else site(b, bb), ok="decompress is applied whatever the reply looks like",
                      bad="decompress is skipped on a test of the reply's content (%s): a stored frame that fails the test (the 9 byte frame of the empty value) is handed to the client undecoded" % (bad[0][1] if bad else ""))
    ctx.floor("C20.D5", "decompress call sites in the reply handlers", n, 1)
