"""C03 - live migration neither loses, duplicates nor resurrects data (DESIGN §5 C03): structural
necessary conditions; per-key sequential consistency under interleavings is not decided."""
from ..facts import norm, callee_of, callee_decl, place_fields, const_bytes
from ..defuse import DefUse
from ..sccp import Interp, Oracle, Int, Bool, Agg, TOP, Ok, UNIT
from .. import cfg
from ..lib import m, calls_to, site, agg_sites, binop_sites
from ..tables.redis_commands import KEY_REMOVING, BLOCKING_VARIANTS
from . import _migtables

EXPLANATION = (
    "Necessary structural conditions of loss-free migration: on the three source-side transfer paths every DEL of keys is dominated by the RESTORE "
    "forwarding of entries produced from the same keys; the scan returns the *same* cursor whenever a key of the batch could not be locked; RESTORE is "
    "sent without REPLACE; pull/push command states own a key lock guard by type (not Option); every Redis command that can remove a key and that the "
    "proxy recognises is routed through the push-before-execute path (command-name tables evaluated by constant propagation against a frozen Redis "
    "table), blocking variants are converted to recognised removing commands; a failed UMSYNC never reaches the forwarding of the client command; the "
    "phase routing tables of source and destination are the expected ones; the source-side delete after a pull is only issued by the restore handler. "
    "Sequential consistency per key under interleavings of scan, pull, push and handshake is a concurrency property and is NOT decided."
)
ASSUMPTIONS = ["concurrent interleavings are not explored", "the frozen table of key-removing Redis commands (sa/tables/redis_commands.py) is domain knowledge"]
TRUSTED = []

MUTANTS = [
    {"name": "umsync-failed-delete-unanswered", "file": "src/migration/scan_migration.rs", "old": "            if let Err(err) = Self::delete_keys(&mut src_client, transferred_keys).await {\n                task.set_resp_result(Ok(Resp::Error(\n                    format!(\"failed to forward entries from dst: {:?}\", err).into_bytes(),\n                )));\n                return;", "new": "            if let Err(err) = Self::delete_keys(&mut src_client, transferred_keys).await {\n                error!(\"failed to delete keys after forwarding: {:?}\", err);\n                return;", "expect": "C03.D1:handle_sync_task:answered-after-delete"},
    {"name": "dump-error-skips-key", "file": "src/migration/scan_migration.rs", "old": "                (Resp::Bulk(BulkStr::Nil), _) | (_, None) => (),\n", "new": "                (Resp::Bulk(BulkStr::Nil), _) | (_, None) => (),\n                (Resp::Error(_), _) => (),\n", "expect": "C03.D1:produce_entries:skip-only-on-nil"},
    {"name": "lpop-not-blocking", "file": "src/proxy/command.rs", "old": "            | DataCmdType::Lpop\n", "new": "", "expect": "C03.D4:LPOP"},
    {"name": "delete-before-forward", "file": "src/migration/scan_migration.rs", "old": "            let dst_client_cache =\n                Self::forward_entries(dst_address, dst_client, client_factory, entries).await;\n            dst_client = Some(dst_client_cache);\n\n            Self::delete_keys(src_client, transferred_keys).await?;", "new": "            Self::delete_keys(src_client, transferred_keys).await?;\n            let dst_client_cache =\n                Self::forward_entries(dst_address, dst_client, client_factory, entries).await;\n            dst_client = Some(dst_client_cache);\n", "expect": "C03.D1"},
    {"name": "scan-always-advances", "file": "src/migration/scan_migration.rs", "old": "        if need_retry {\n            // Some keys are missed in this round.\n            // Retry the last index again.\n            Ok((index, false, dst_client))\n        } else {\n            Ok((next_index, next_index == 0, dst_client))\n        }", "new": "        let _ = need_retry;\n        Ok((next_index, next_index == 0, dst_client))", "expect": "C03.D1"},
    {"name": "importing-precheck-serves", "file": "src/migration/scan_task.rs", "old": "        if self.state.get_state() == MigrationState::PreCheck {\n            return handle_redirection(\n                cmd_task,\n                self.meta.src_proxy_address.clone(),", "new": "        if self.state.get_state() == MigrationState::SwitchCommitted {\n            return handle_redirection(\n                cmd_task,\n                self.meta.src_proxy_address.clone(),", "expect": "C03.D5"},
    {"name": "umsync-error-falls-through", "file": "src/proxy/migration_backend.rs", "old": "                    error!(\"Invalid reply of UMSYNC {:?}\", err);\n                    // drop the lock here\n                    let task = state.into_inner();\n                    task.set_resp_result(Ok(Resp::Error(\n                        format!(\"{}: {:?}\", FAILED_TO_ACCESS_SOURCE, err).into_bytes(),\n                    )));\n                    continue;", "new": "                    error!(\"Invalid reply of UMSYNC {:?}\", err);", "expect": "C03.D4:umsync-failure"},
    {"name": "precheck-hint-not-blocking", "file": "src/migration/scan_task.rs", "old": "                    cmd_task,\n                    BlockingHint::NotBlockingInMigration(term),\n                )))\n            }\n            MigrationState::PreBlocking | MigrationState::PreSwitch => {", "new": "                    cmd_task,\n                    BlockingHint::NotBlocking,\n                )))\n            }\n            MigrationState::PreBlocking | MigrationState::PreSwitch => {", "expect": "C03.D5:hint:PreCheck"},
    {"name": "del-after-any-restore-error", "file": "src/proxy/migration_backend.rs", "old": "                Resp::Error(err)\n                    if err.get(..BUSYKEY.len()).map(|p| p == BUSYKEY) == Some(true) => {}", "new": "                Resp::Error(_) => {}", "expect": "C03.D6:del-after-restore:Error"},
    {"name": "lock-failure-forwards-to-destination", "file": "src/proxy/migration_backend.rs", "old": "                    stats.importing_lock_failed.fetch_add(1, Ordering::Relaxed);\n", "new": "                    stats.importing_lock_failed.fetch_add(1, Ordering::Relaxed);\n                    if state.lock_slot == usize::MAX {\n                        let (_state, req_task) =\n                            MgrCmdStateForward::from_state_exists(state, registry.clone());\n                        if let Err(err) = dst_sender.send(req_task) {\n                            debug!(\"failed to forward: {:?}\", err);\n                        }\n                        continue;\n                    }\n", "expect": "C03.D6:forward-only-if-key-exists"},
]


def cmd_tables(ctx, rule):
    """name -> (variant, requires_blocking, is_blocking_cmd) by constant propagation"""
    F = ctx.F
    b = F.one("proxy::command::DataCmdType::from_cmd_name")
    rb = F.one("proxy::command::requires_blocking_migration")
    ib = F.one("proxy::command::DataCmdType::is_blocking_cmd")
    adt = F.adt("proxy::command::DataCmdType")
    if b is None or rb is None or adt is None:
        ctx.lost(rule, "command tables", "from_cmd_name / requires_blocking_migration / DataCmdType not found")
        return None
    ctx.analysed(b, rb, ib)

    def variant_of(name):
        def call(interp, bb, term, argvals):
            d = callee_decl(term); c = callee_of(term) or ""
            if d == "std::ops::Deref::deref" and "ArrayVec" in (term.get("atys") or [""])[0]:
                return ("ref", ("const", name), ())
            if c.endswith("try_push"):
                return Ok(UNIT)
            return None
        rv = Interp(F, b, Oracle(call=call)).run().return_value()
        return rv if rv is not None and rv[0] == "agg" else None
    req = {}
    blk = {}
    for vi, v in enumerate(adt.variants):
        r = Interp(F, rb, Oracle(args={1: Agg(adt.path, vi, ())})).run().return_value()
        req[v["name"]] = r[1] if r is not None and r[0] == "int" else None
        if ib is not None:
            r2 = Interp(F, ib, Oracle(args={1: Agg(adt.path, vi, ())})).run().return_value()
            blk[v["name"]] = r2[1] if r2 is not None and r2[0] == "int" else None
    return {"variant_of": variant_of, "requires": req, "blocking": blk, "adt": adt, "bodies": (b, rb)}


def run(ctx):
    F = ctx.F
    ctx.rule("C03.D1", "restore before delete on the three source-side paths; same keys; scan cursor is not advanced past unlocked keys")
    ctx.rule("C03.D2", "RESTORE without REPLACE (4 elements), BUSYKEY tolerated")
    ctx.rule("C03.D3", "command states that run a pull / push own a KeyLockGuard by type")
    ctx.rule("C03.D4", "every recognised key-removing Redis command takes the push-before-execute path; failed UMSYNC never forwards the command", exhaustive=True)
    ctx.rule("C03.D7", "shared with C11: the pre-switch barrier (counter before state read, re-check after enqueue, release iff last, one registered queue per backend, drain of the parked commands) - a command that slips through it executes on the source after the switch")
    ctx.rule("C03.D6", "pull-path transitions on the importing proxy: forward without pulling only when the destination has the key (EXISTS true) or the source has not (DUMP nil); RESTORE only with a dumped entry; source-side DEL only after a Simple / BUSYKEY restore reply")
    ctx.rule("C03.D5", "phase routing tables of source / destination tasks and state encoding round trip", exhaustive=True)
    _transfer_paths(ctx)
    _scan_cursor(ctx)
    _restore_shape(ctx)
    _lock_types(ctx)
    _commands(ctx)
    _umsync_failure(ctx)
    _pull_transitions(ctx)
    from ..engine import AliasCtx
    from . import C11 as _c11
    _c11.run(AliasCtx(ctx, "C03.D7", only={"C11.D1", "C11.D2", "C11.D4", "C11.D5", "C11.D6"}))
    _phases(ctx)


def _async_body(F, suffix):
    return [b for b in F.all_bodies(bins=False) if b.path.endswith(suffix + "::{closure#0}") and not b.is_mock()]


def _transfer_paths(ctx):
    F = ctx.F
    n = 0
    for fn in ("scan_and_migrate_keys", "handle_blocking_requests", "handle_sync_task"):
        bs = [b for b in _async_body(F, "::" + fn) if b.path.startswith("migration::scan_migration")]
        if not bs:
            ctx.lost("C03.D1", fn, "async body not found")
            continue
        b = bs[0]
        ctx.analysed(b)
        du = DefUse(b)
        dom = cfg.dominators(b)
        dels = [(bb, t) for bb, t in b.calls() if (callee_of(t) or "").endswith("::delete_keys")]
        fwds = [(bb, t) for bb, t in b.calls() if (callee_of(t) or "").endswith("::forward_entries")]
        if not (ctx.floor("C03.D1", "%s: delete_keys" % fn, len(dels), 1) and ctx.floor("C03.D1", "%s: forward_entries" % fn, len(fwds), 1)):
            continue
        n += 1
        for bb, t in dels:
            ctx.check(any(fb in dom.get(bb, ()) for fb, _ in fwds), "C03.D1", "%s:restore-before-delete" % fn, site(b, bb), ok="delete_keys is dominated by forward_entries", bad="keys can be deleted from the source before they were forwarded to the destination")
            ks = du.slice_operand(t["args"][-1])
            ctx.check(ks.has_call("produce_entries"), "C03.D1", "%s:deleted-keys-are-the-forwarded-ones" % fn, site(b, bb), ok="deleted keys come from the produced entries", bad="delete_keys is given keys that do not come from the forwarded entries: %s" % sorted(c.rsplit("::", 1)[-1] for c in ks.calls)[:8])
        for bb, t in fwds:
            es = du.slice_operand(t["args"][-1])
            ctx.check(es.has_call("produce_entries"), "C03.D1", "%s:forwarded-entries-origin" % fn, site(b, bb), ok="forwards the entries produced from the source", bad="forward_entries is not given the produced entries")
        # nothing is deleted when nothing was produced
        emp = [(bb, t) for bb, t in calls_to(b, "Vec::is_empty") if du.slice_operand(t["args"][0]).has_call("produce_entries")]
        if emp:
            def call(interp, bbx, term, argvals):
                for eb, et in emp:
                    if et is term:
                        return Bool(True)
                return None
            res = Interp(F, b, Oracle(call=call)).run()
            ctx.check(not any(bb in res.exec_blocks for bb, _ in dels), "C03.D1", "%s:no-delete-when-empty" % fn, site(b), ok="no delete when no entry was produced", bad="delete_keys reachable with no entries")
        if fn == "handle_sync_task":
            _sync_reply_after_delete(ctx, b, du, dom, dels, fwds)
    ctx.floor("C03.D1", "source-side transfer paths", n, 3)
    _silent_skips(ctx)
    # pull path: the source-side DEL is only issued by the restore handler
    callers = set()
    for b in F.all_bodies(bins=False):
        if b.kind == "Promoted" or b.is_mock():
            continue
        if calls_to(b, "MgrCmdStateDel::from_task_context"):
            callers.add(b.path.split("::{")[0].rsplit("::", 1)[-1])
    ctx.check(callers == {"handle_restore"}, "C03.D1", "pull:delete-only-after-restore", None, ok="MgrCmdStateDel is only created by handle_restore", bad="MgrCmdStateDel::from_task_context is called from %s" % sorted(callers))
    hr = [b for b in _async_body(F, "::handle_restore")]
    if hr:
        b = hr[0]
        ctx.analysed(b)
        consts = set()
        from ..lib import const_str_set
        for fb in F.family(b):
            consts |= const_str_set(fb)
        for cp, cb in F.bodies.items():
            if cb.kind.startswith("Const") and "handle_restore" in cp:
                consts |= const_str_set(cb)
        ctx.check(b"BUSYKEY" in consts, "C03.D2", "pull:busykey-tolerated", site(b), ok="BUSYKEY reply is recognised", bad="handle_restore no longer recognises BUSYKEY")
        # the delete is built after the restore reply was inspected: dominated by a discriminant switch on a Resp value
        du = DefUse(b)
        dom = cfg.dominators(b)
        dl = calls_to(b, "MgrCmdStateDel::from_task_context")
        sw = [bb for bb, t in b.iter_terms() if t["k"] == "switch"]
        if dl:
            resp_sw = []
            for sb in sw:
                pl = b.blocks[sb].term["discr"].get("mv") or b.blocks[sb].term["discr"].get("cp")
                if pl is None:
                    continue
                for d in du.defs.get(pl["l"], []):
                    if d[0] == "assign" and d[3]["rv"]["k"] == "discr" and "protocol::resp::Resp" in b.locals[d[3]["rv"]["p"]["l"]]["ty"]:
                        resp_sw.append(sb)
            ctx.check(any(sb in dom.get(dl[0][0], ()) for sb in resp_sw), "C03.D1", "pull:delete-after-reply-check", site(b, dl[0][0]), ok="DEL is built only after the RESTORE reply was matched", bad="DEL of the source key is built without looking at the RESTORE reply")


def _len_receiver(b, du, op):
    """named locals the receiver of the Vec::len call that defines `op` refers to (None when op is not a len result)"""
    pl = op.get("mv") or op.get("cp")
    if pl is None:
        return None
    for d in du.defs.get(pl["l"], []):
        if d[0] == "call" and (callee_of(d[2]) or "").endswith("::len") and d[2]["args"]:
            return {l for l in du.slice_operand(d[2]["args"][0], deep=False).locals if b.local_name(l)}
        if d[0] == "assign" and d[3]["rv"]["k"] == "use":
            r = _len_receiver(b, du, d[3]["rv"]["a"])
            if r is not None:
                return r
    return None


def _scan_cursor(ctx):
    F = ctx.F
    bs = [b for b in _async_body(F, "::scan_and_migrate_keys") if b.path.startswith("migration::scan_migration")]
    if not bs:
        return
    b = bs[0]
    du = DefUse(b)
    # the comparison <keys that could be locked>.len() ? <keys of the batch>.len(): the locked side is the vector that is
    # handed to produce_entries (identified by data flow, not by name)
    pe = calls_to(b, "produce_entries")
    locked_locals = set()
    for bb_, t_ in pe:
        if t_["args"]:
            locked_locals |= {l for l in du.slice_operand(t_["args"][0], deep=False).locals if b.local_name(l)}
    cmps = []
    for bb, i, s in binop_sites(b, ("Lt", "Le", "Gt", "Ge", "Eq", "Ne")):
        sa = du.slice_operand(s["rv"]["a"]); sb = du.slice_operand(s["rv"]["b"])
        if sa.has_call("Vec::len") and sb.has_call("Vec::len"):
            ra = _len_receiver(b, du, s["rv"]["a"]); rb = _len_receiver(b, du, s["rv"]["b"])
            if ra is None or rb is None:
                continue
            la = bool(ra & locked_locals)
            lb = bool(rb & locked_locals)
            if la != lb:
                cmps.append((bb, i, s, "a" if la else "b"))
    oks = []
    for bb, i, s in b.assigns():
        rv = s["rv"]
        if rv["k"] == "agg" and rv["ak"] == "tuple" and len(rv["ops"]) == 3:
            sl = du.slice_operand(rv["ops"][0])
            nxt = sl.has_field("ScanResponse", "next_index")
            src = "next_index" if nxt else "index" if (sl.captures or sl.params) else "?"
            oks.append((bb, src))
    if not cmps:
        ctx.violation("C03.D1", "scan-cursor:retry-test-missing", site(b), "scan_and_migrate_keys never compares the number of locked keys with the batch size: keys that could not be locked are skipped for good")
        return
    if not ctx.floor("C03.D1", "scan result tuples", len(oks), 2):
        return
    for missed in (1, 0):
        def binop(interp, bbx, stmt, op, a, bv, missed=missed):
            for cb, ci, cs, side in cmps:
                if cs is stmt:
                    c = -1 if missed else 0      # locked ? total
                    if side == "b":
                        c = -c
                    return Bool({"Lt": c < 0, "Le": c <= 0, "Gt": c > 0, "Ge": c >= 0, "Eq": c == 0, "Ne": c != 0}[op])
            return None
        res = Interp(F, b, Oracle(binop=binop)).run()
        reach = sorted({src for bb, src in oks if bb in res.exec_blocks})
        want = ["index"] if missed else ["next_index"]
        ctx.check(reach == want, "C03.D1", "scan-cursor:%s" % ("some-keys-not-locked" if missed else "all-keys-locked"), site(b),
                  ok="returns cursor `%s`" % want[0], bad="with %s the scan returns cursor %s (expected %s)" % ("unlocked keys left" if missed else "all keys locked", reach, want))


def _restore_shape(ctx):
    F = ctx.F
    from ..lib import const_str_set
    bad = []
    n = 0
    for b in F.all_bodies(bins=False):
        if b.kind == "Promoted" or b.is_mock() or not (b.path.startswith("migration::") or b.path.startswith("proxy::migration_backend")):
            continue
        cs = const_str_set(b)
        if b"RESTORE" in cs:
            n += 1
            ctx.analysed(b)
            if b"REPLACE" in cs or b"ABSTTL" in cs:
                bad.append(b.path)
    ctx.floor("C03.D2", "RESTORE builders", n, 2)
    ctx.check(not bad, "C03.D2", "no-replace", None, ok="RESTORE never carries REPLACE: a newer value on the destination is not overwritten by migrated data", bad="RESTORE ... REPLACE in %s" % bad)


def _lock_types(ctx):
    F = ctx.F
    for name in ("MgrCmdStateDumpPttl", "MgrCmdStateRestoreForward", "MgrCmdStateUmSync"):
        a = F.adt("proxy::migration_backend::" + name)
        if a is None:
            ctx.lost("C03.D3", name, "struct not found")
            continue
        f = a.field("lock_guard")
        ctx.check(f is not None and norm(f["ty"]).endswith("KeyLockGuard") and "Option" not in f["ty"], "C03.D3", "lock-guard-by-type:%s" % name, "%s:%s" % (a.file, a.line),
                  ok="%s.lock_guard: KeyLockGuard" % name, bad="%s.lock_guard has type %s: the state can exist without holding the key lock" % (name, f["ty"] if f else None))
    g = F.adt("proxy::migration_backend::KeyLockGuard") or F.adt("KeyLockGuard")
    if g is not None:
        ctx.check(not F.has_impl(g.path, "std::clone::Clone"), "C03.D3", "lock-guard-not-clone", "%s:%s" % (g.file, g.line), ok="KeyLockGuard is not Clone", bad="KeyLockGuard implements Clone")


def _commands(ctx):
    F = ctx.F
    T = cmd_tables(ctx, "C03.D4")
    if T is None:
        return
    adt = T["adt"]
    b, rb = T["bodies"]
    recognised = 0
    for name in sorted(KEY_REMOVING):
        v = T["variant_of"](name.encode())
        if v is None:
            ctx.lost("C03.D4", name, "variant of %s is not a constant" % name)
            continue
        vn = adt.variants[v[2]]["name"]
        if vn == "Others":
            ctx.info("C03.D4", "unclassified:%s" % name, "%s is not recognised by the proxy (handled as a generic command; no push before execution)" % name)
            continue
        recognised += 1
        if name in BLOCKING_VARIANTS:
            good = T["blocking"].get(vn) == 1
            ctx.check(good, "C03.D4", name, site(rb), ok="%s is a blocking command: converted to %s before execution" % (name, BLOCKING_VARIANTS[name]),
                      bad="%s (can remove the key) is neither converted to its non-blocking form nor pushed before execution" % name)
            continue
        ctx.check(T["requires"].get(vn) == 1, "C03.D4", name, site(rb), ok="%s -> %s -> push before execute" % (name, vn),
                  bad="%s can remove a key but requires_blocking_migration(%s) is false: on the importing proxy it runs without pulling the key first, the stale copy on the source is migrated later" % (name, vn))
    ctx.floor("C03.D4", "recognised key-removing commands", recognised, 20)
    # blocking variants map to recognised removing commands
    gn = [x for x in F.find("get_non_blocking_name") if x.kind == "AssocFn"]
    if gn:
        ctx.analysed(gn[0])
        from ..lib import const_str_set
        cs = {c for c in const_str_set(gn[0])}
        for bv, nb in BLOCKING_VARIANTS.items():
            ctx.check(nb.encode() in cs, "C03.D4", "non-blocking-name:%s" % bv, site(gn[0]), ok="%s -> %s" % (bv, nb), bad="get_non_blocking_name has no %s for %s" % (nb, bv))
    # the importing side consults the table
    users = []
    for x in F.all_bodies(bins=False):
        if x.kind != "Promoted" and not x.is_mock() and calls_to(x, "requires_blocking_migration"):
            users.append(x.path.split("::{")[0])
    ctx.check(any("migration_backend" in u for u in users), "C03.D4", "table-is-consulted", None, ok="requires_blocking_migration is consulted by %s" % sorted(set(users)), bad="nobody consults requires_blocking_migration")
    hc = F.one("RestoreDataCmdTaskHandler::handle_cmd_task")
    if hc is not None:
        ctx.analysed(hc)
        rq = calls_to(hc, "requires_blocking_migration")
        um = calls_to(hc, "send_to_umsync")
        ex = calls_to(hc, "send_to_exist_to_dst")
        if rq and um and ex:
            for val in (0, 1):
                def call(interp, bbx, term, argvals, val=val):
                    if term is rq[0][1]:
                        return Bool(val)
                    return None
                res = Interp(F, hc, Oracle(call=call)).run()
                u = any(bb in res.exec_blocks for bb, _ in um); e = any(bb in res.exec_blocks for bb, _ in ex)
                ctx.check((u, e) == ((True, False) if val else (False, True)), "C03.D4", "importing-dispatch:removing=%d" % val, site(hc, rq[0][0]),
                          ok="UMSYNC push" if val else "EXISTS/pull", bad="with requires_blocking=%d the importing proxy starts umsync=%s exists=%s" % (val, u, e))
        else:
            ctx.lost("C03.D4", "importing-dispatch", "handle_cmd_task anchors: requires=%d umsync=%d exists=%d" % (len(rq), len(um), len(ex)))


def _umsync_failure(ctx):
    F = ctx.F
    bs = [b for b in _async_body(F, "::handle_umsync_task")]
    if not bs:
        ctx.lost("C03.D4", "umsync-failure", "handle_umsync_task not found")
        return
    b = bs[0]
    ctx.analysed(b)
    du = DefUse(b)
    fails = []
    for bb, t in b.calls():
        c = callee_of(t) or ""
        if c.startswith("std::sync::atomic::Atomic") and c.endswith("fetch_add"):
            sl = du.slice_operand(t["args"][0], deep=False)
            if any(n == "importing_umsync_failed" for a, n in sl.fields):
                fails.append(bb)
    fw = [bb for bb, t in calls_to(b, "MgrCmdStateForward::from_state_umsync")]
    if not (ctx.floor("C03.D4", "umsync failure arms", len(fails), 2) and ctx.floor("C03.D4", "forward after umsync", len(fw), 1)):
        return
    heads = {h for _, h in cfg.natural_loops(b)}
    outer = None
    for t_, h in cfg.natural_loops(b):
        if fw[0] in cfg.loop_blocks(b, t_, h):
            outer = h if outer is None or len(cfg.loop_blocks(b, t_, h)) > 0 else outer
    bar = {(h, 0) for h in heads if fw[0] in set().union(*[cfg.loop_blocks(b, t_, hh) for t_, hh in cfg.natural_loops(b) if hh == h])}
    for fb in fails:
        p = cfg.path_avoiding(b, (fb, len(b.blocks[fb].stmts)), set(fw), bar)
        ctx.check(p is None, "C03.D4", "umsync-failure:does-not-forward", site(b, fb), ok="a failed UMSYNC answers the client with an error and never forwards the command",
                  bad="after a failed UMSYNC the client command is still forwarded to the destination: a deleting command is acknowledged while the key stays on the source", path=str(cfg.lines_of_path(b, p)) if p else None)
        # and the client gets a reply on that arm
        p2 = cfg.path_avoiding(b, (fb, len(b.blocks[fb].stmts)), {h for h, _ in bar}, {(x, len(b.blocks[x].stmts)) for x, t in b.calls() if (callee_decl(t) or "").endswith("set_resp_result")})
        ctx.check(p2 is None, "C03.D4", "umsync-failure:client-answered", site(b, fb), ok="error reply sent", bad="a failed UMSYNC can leave the client without reply")


def _sync_reply_after_delete(ctx, b, du, dom, dels, fwds):
    """UMSYNC: `OK` tells the importing proxy that the key is no longer on the source.  When entries were forwarded the OK reply
    is reachable only through delete_keys, and after delete_keys every way out answers the task (an error when it failed)."""
    replies = [(bb, t) for bb, t in b.calls() if (callee_decl(t) or callee_of(t) or "").endswith("set_resp_result")]
    simple = [bb for bb, i, st in agg_sites(b, "Resp", "Simple")]
    oks = []
    for a in simple:
        best = None
        for bb, t in replies:
            if a in dom.get(bb, ()):
                p = cfg.path_between(b, a, bb, avoid={x for x, _ in replies if x != bb})
                if p is not None and (best is None or len(p) < best[0]):
                    best = (len(p), bb)
        if best:
            oks.append(best[1])
    if not ctx.floor("C03.D1", "handle_sync_task: OK replies", len(oks), 1):
        return
    dset = {x for x, _ in dels}
    bad = None
    for fb, _ in fwds:
        for ob in oks:
            p = cfg.path_between(b, fb, ob, avoid=dset)
            if p is not None:
                bad = (ob, p)
    ctx.check(bad is None, "C03.D1", "handle_sync_task:ok-only-after-delete", site(b, bad[0]) if bad else site(b, oks[0]), ok="after forwarding, OK is answered only once the keys were deleted from the source",
              bad="UMSYNC is answered OK after forwarding but before the source copy is deleted: the importing proxy acknowledges a deleting command while the key still exists on the source (and a failed DEL goes unnoticed)",
              path=str(cfg.lines_of_path(b, bad[1])) if bad else None)
    rset = {x for x, _ in replies}
    bad2 = None
    for db in dset:
        for r in b.return_blocks():
            p = cfg.path_between(b, db, r, avoid=rset)
            if p is not None:
                bad2 = (db, p)
    ctx.check(bad2 is None, "C03.D1", "handle_sync_task:answered-after-delete", site(b, bad2[0]) if bad2 else site(b), ok="every way out after delete_keys sets the reply (error when the delete failed)",
              bad="after delete_keys a way out sets no reply: a failed source DEL is not reported to the importing proxy", path=str(cfg.lines_of_path(b, bad2[1])) if bad2 else None)


def _split_tuple(ty):
    if not (ty.startswith("(") and ty.endswith(")")):
        return None
    out, depth, cur = [], 0, ""
    for ch in ty[1:-1]:
        if ch in "<([":
            depth += 1
        elif ch in ">)]":
            depth -= 1
        if ch == "," and depth == 0:
            out.append(cur.strip()); cur = ""
        else:
            cur += ch
    if cur.strip():
        out.append(cur.strip())
    return out


def _proj_type(F, ty, proj):
    """type of base-type `ty` after the projection list (tuple fields, downcasts, ADT fields); None when unknown"""
    vi = None
    for e in proj:
        if e == "deref":
            ty = ty[1:].lstrip() if ty.startswith("&") else ty
            if ty.startswith("mut "):
                ty = ty[4:]
            continue
        if not isinstance(e, dict):
            return None
        if "dc" in e:
            vi = e.get("vi")
            continue
        if "f" in e:
            if e.get("adt"):
                a = F.adt(norm(e["adt"]))
                if a is None:
                    return None
                try:
                    ty = a.variants[vi or 0]["fields"][e["f"]]["ty"]
                except Exception:
                    return None
                vi = None
            else:
                parts = _split_tuple(ty)
                if parts is None or e["f"] >= len(parts):
                    return None
                ty = parts[e["f"]]
            continue
        return None
    return ty


def _silent_skips(ctx):
    """produce_entries turns the (DUMP, PTTL) replies of a batch of keys into entries.  Its callers read `no entry` as `the key
    does not exist` (the scan moves its cursor on, UMSYNC answers OK), so a key may be passed over silently only on the
    replies that mean exactly that: a nil DUMP or an absent PTTL.  Any other reply variant must end in the error return."""
    F = ctx.F
    bs = [b for b in _async_body(F, "::produce_entries") if b.path.startswith("migration::scan_migration")]
    if not bs:
        ctx.lost("C03.D1", "produce_entries", "async body not found")
        return
    b = bs[0]
    ctx.analysed(b)
    du = DefUse(b)
    pushes = {bb for bb, t in calls_to(b, "Vec::push")}
    succs = b.succs()
    n = 0
    bad = []
    for t_, h in cfg.natural_loops(b):
        L = cfg.loop_blocks(b, t_, h)
        if not (pushes & L):
            continue
        inner = {x: [y for y in succs[x] if y in L and y != h] for x in range(len(b.blocks))}

        def region(x):
            seen = {x}; st = [x]
            while st:
                y = st.pop()
                for z in inner[y]:
                    if z not in seen:
                        seen.add(z); st.append(z)
            return seen

        def leaves(R):
            return any(z2 not in L and not b.blocks[z2].cleanup for z in R for z2 in succs[z])
        for x in sorted(L):
            t = b.blocks[x].term
            if t["k"] != "switch":
                continue
            pl = t["discr"].get("mv") or t["discr"].get("cp")
            subj = None
            for df in du.defs.get(pl["l"], []) if pl else []:
                if df[0] == "assign" and df[3]["rv"]["k"] == "discr":
                    p_ = df[3]["rv"]["p"]
                    subj = _proj_type(F, b.locals[p_["l"]]["ty"], p_["p"])
            if subj is None:
                continue
            Rx = region(x)
            if not ((Rx & pushes) or leaves(Rx)):
                continue
            for v, y in [(v, y) for v, y in t["targets"]] + [("else", t["otherwise"])]:
                if y not in L:
                    continue
                R = region(y)
                if (R & pushes) or leaves(R):
                    continue
                n += 1   # a decided skip: from here the key is neither pushed nor reported
                if norm(subj).startswith("protocol::resp::Resp"):
                    bad.append((x, t.get("line"), v))
    ctx.floor("C03.D1", "produce_entries: decided skips (nil DUMP / absent PTTL)", n, 2)
    ctx.check(not bad, "C03.D1", "produce_entries:skip-only-on-nil", site(b, bad[0][0]) if bad else site(b), ok="a key is passed over silently only on a nil DUMP / absent PTTL",
              bad="a key is passed over silently on a reply variant of the DUMP reply itself (line %s): its callers take `no entry` for `key does not exist`, so the scan moves on and UMSYNC answers OK while the key stays on the source" % (bad[0][1] if bad else ""))


def _phases(ctx):
    st = _migtables.send_tables(ctx, "C03.D5")
    if st is None:
        return
    want_m = {"PreCheck": "local", "PreBlocking": "local", "PreSwitch": "local", "Scanning": "redirect-dst", "FinalSwitch": "redirect-dst", "SwitchCommitted": "redirect-dst"}
    want_i = {"PreCheck": "redirect-src", "PreBlocking": "serve", "PreSwitch": "serve", "Scanning": "serve", "FinalSwitch": "serve", "SwitchCommitted": "serve"}
    for s in st["states"]:
        ctx.check(st["migrating"].get(s) == want_m.get(s), "C03.D5", "migrating:%s" % s, site(st["bodies"]["migrating"]), ok="source in %s: %s" % (s, st["migrating"].get(s)), bad="source proxy in %s routes `%s` (expected %s)" % (s, st["migrating"].get(s), want_m.get(s)))
        ctx.check(st["importing"].get(s) == want_i.get(s), "C03.D5", "importing:%s" % s, site(st["bodies"]["importing"]), ok="destination in %s: %s" % (s, st["importing"].get(s)), bad="destination proxy in %s routes `%s` (expected %s)" % (s, st["importing"].get(s), want_i.get(s)))
    _hint_table(ctx, st)
    _switch_vs_send(ctx, st, "C03.D5")
    # AtomicMigrationState get_state . set_state = id on all variants
    F = ctx.F
    gs = F.one("AtomicMigrationState::get_state"); ss = F.one("AtomicMigrationState::set_state")
    if gs is None or ss is None:
        ctx.lost("C03.D5", "state-encoding", "AtomicMigrationState accessors not found")
        return
    ctx.analysed(gs, ss)
    adt = st["adt"]
    stores = [(bb, t) for bb, t in ss.calls() if (callee_of(t) or "").endswith("::store")]
    loads = [(bb, t) for bb, t in gs.calls() if (callee_of(t) or "").endswith("::load")]
    if not (stores and loads):
        ctx.lost("C03.D5", "state-encoding", "no atomic store/load in AtomicMigrationState accessors")
        return
    for vi, v in enumerate(adt.variants):
        r = Interp(F, ss, Oracle(args={2: Agg(adt.path, vi, ())})).run()
        enc = r.call_args.get(stores[0][0])
        code = enc[1] if enc and enc[1][0] == "int" else None
        if code is None:
            ctx.lost("C03.D5", "state-encoding:%s" % v["name"], "stored code is not a constant")
            continue
        def call(interp, bbx, term, argvals, code=code):
            if term is loads[0][1]:
                return code
            return None
        back = Interp(F, gs, Oracle(call=call)).run().return_value()
        ctx.check(back is not None and back[0] == "agg" and back[2] == vi, "C03.D5", "state-encoding:%s" % v["name"], site(gs), ok="get_state(set_state(%s)) = %s" % (v["name"], v["name"]),
                  bad="state %s is stored as %s and read back as %s" % (v["name"], code, adt.variants[back[2]]["name"] if back and back[0] == "agg" else back))


def _hint_table(ctx, st):
    """commands the source task still routes to the local node carry a blocking hint: Blocking while the queue blocks,
    otherwise NotBlockingInMigration(term of the current blocking state).  A plain NotBlocking would skip the stale-term
    re-check in TaskBlockingQueue::send, and a command that passed the state test before pre_block() could then run on
    the source node after the slots were switched."""
    F = ctx.F
    b = st["bodies"]["migrating"]
    adt = st["adt"]
    du = DefUse(b)
    gs = [(bb, t) for bb, t in b.calls() if (callee_of(t) or "").endswith("get_state") and "State" in (callee_of(t) or "")]
    gb = [(bb, t) for bb, t in b.calls() if (callee_decl(t) or callee_of(t) or "").endswith("get_blocking_state")]
    hints = agg_sites(b, "BlockingHint")
    if not (ctx.floor("C03.D5", "get_blocking_state in the source task's send", len(gb), 1) and ctx.floor("C03.D5", "BlockingHint constructions in the source task's send", len(hints), 2)):
        return
    hadt = F.adt("proxy::blocking::BlockingHint")
    for vi, v in enumerate(adt.variants):
        if st["migrating"].get(v["name"]) != "local":
            continue
        for blocking in (0, 1):
            def call(interp, bbx, term, argvals, vi=vi, blocking=blocking):
                for _, gt in gs:
                    if gt is term:
                        return Agg(adt.path, vi, ())
                for _, gt in gb:
                    if gt is term:
                        return Agg("proxy::blocking::BlockingState", 0, (Bool(blocking), TOP))
                return None
            res = Interp(F, b, Oracle(call=call)).run()
            got = sorted({s_["rv"]["variant"] for bb, i, s_ in hints if bb in res.exec_blocks})
            want = ["Blocking"] if (blocking and v["name"] != "PreCheck") else ["NotBlockingInMigration"]
            if v["name"] == "PreCheck" and blocking:
                ok = bool(got) and "NotBlocking" not in got
            else:
                ok = got == want
            ctx.check(ok, "C03.D5", "hint:%s:blocking=%d" % (v["name"], blocking), site(b), ok="hint %s" % got,
                      bad="the source task in %s (queue blocking=%d) routes a command to the local node with hint %s (expected %s): the stale-term check / blocking queue is bypassed" % (v["name"], blocking, got, want))
    for bb, i, s_ in hints:
        if s_["rv"]["variant"] == "NotBlockingInMigration":
            sl = du.slice_operand(s_["rv"]["ops"][0])
            ctx.check(sl.has_call("get_blocking_state"), "C03.D5", "hint-term-origin#%d" % bb, site(b, bb, i), ok="term comes from get_blocking_state()", bad="the term of NotBlockingInMigration does not come from the current blocking state")


def _discr_guards(b, du, bb, dom=None):
    """[(base local type, projection as text, taken value)] of the enum-discriminant switches that control bb"""
    from ..lib import branch_conditions
    out = []
    for d, discr, val in branch_conditions(b, bb, dom):
        pl = discr.get("mv") or discr.get("cp")
        if pl is None:
            continue
        for df in du.defs.get(pl["l"], []):
            if df[0] == "assign" and df[3]["rv"]["k"] == "discr":
                p_ = df[3]["rv"]["p"]
                proj = "/".join((e.get("dc") or e.get("name") or "") if isinstance(e, dict) else str(e) for e in p_["p"])
                out.append((b.locals[p_["l"]]["ty"], proj, val, d))
    return out


def _pull_transitions(ctx):
    F = ctx.F
    from ..lib import guarded_true_by_call
    R = "C03.D6"
    # T1: EXISTS handler
    hb = [b for b in _async_body(F, "::handle_exists_task") if b.path.startswith("proxy::migration_backend")]
    if not hb:
        ctx.lost(R, "handle_exists_task", "async body not found")
    else:
        b = hb[0]
        ctx.analysed(b)
        du = DefUse(b)
        dom = cfg.dominators(b)
        fw = calls_to(b, "MgrCmdStateForward::from_state_exists")
        if ctx.floor(R, "forward-after-EXISTS constructions", len(fw), 1):
            for bb, t in fw:
                ctx.check(guarded_true_by_call(b, du, bb, "parse_exists_result", dom), R, "forward-only-if-key-exists#L%d" % 0 if False else "forward-only-if-key-exists:%s" % ("bb%d" % bb), site(b, bb),
                          ok="the command is forwarded to the destination node only on the key-exists branch", bad="a command is forwarded to the destination node without the key being there (not on the true branch of parse_exists_result): it runs ahead of the RESTORE of a concurrent pull, reads nil / creates the key and the migrated value is lost (BUSYKEY, then DEL at the source)")
        dp = calls_to(b, "MgrCmdStateDumpPttl::from_state_exists")
        ctx.floor(R, "DUMP+PTTL constructions after EXISTS", len(dp), 1)
    # T2 / T3: DUMP reply handler
    hb = [b for b in _async_body(F, "::handle_dump_pttl_task") if b.path.startswith("proxy::migration_backend")]
    if not hb:
        ctx.lost(R, "handle_dump_pttl_task", "async body not found")
    else:
        b = hb[0]
        ctx.analysed(b)
        du = DefUse(b)
        dom = cfg.dominators(b)
        for name, want, label in (("MgrCmdStateForward::from_state_dump_pttl", 0, "forward-only-if-source-has-no-key"), ("MgrCmdStateRestoreForward::from_state_dump", 1, "restore-only-with-dumped-entry")):
            cs = calls_to(b, name)
            if not ctx.floor(R, name.split("::", 1)[1] + " constructions", len(cs), 1):
                continue
            for bb, t in cs:
                gs = _discr_guards(b, du, bb, dom)
                outer = [g for g in gs if g[0].startswith("std::result::Result<std::option::Option<") and g[1] == "" and g[2] == 0]
                inner = [g for g in gs if g[0].startswith("std::result::Result<std::option::Option<") and g[1].startswith("Ok/") and g[2] == want]
                ctx.check(bool(outer) and bool(inner), R, "%s:bb%d" % (label, bb), site(b, bb), ok="built only on Ok(%s) of the DUMP/PTTL reply" % ("None" if want == 0 else "Some(entry)"),
                          bad="%s is not restricted to the Ok(%s) branch of the DUMP/PTTL reply" % (name, "None" if want == 0 else "Some"))
    # T4: RESTORE reply handler
    hb = [b for b in _async_body(F, "::handle_restore") if b.path.startswith("proxy::migration_backend")]
    if not hb:
        ctx.lost(R, "handle_restore", "async body not found")
        return
    b = hb[0]
    du = DefUse(b)
    dom = cfg.dominators(b)
    dl = calls_to(b, "MgrCmdStateDel::from_task_context")
    if not ctx.floor(R, "DEL constructions in handle_restore", len(dl), 1):
        return
    dbb = dl[0][0]
    heads = {h for _, h in cfg.natural_loops(b)}
    radt = F.adt("protocol::resp::Resp")
    found = False
    for sb, t in b.iter_terms():
        if t["k"] != "switch" or sb not in dom.get(dbb, ()):
            continue
        pl = t["discr"].get("mv") or t["discr"].get("cp")
        if pl is None:
            continue
        isresp = False
        for df in du.defs.get(pl["l"], []):
            if df[0] == "assign" and df[3]["rv"]["k"] == "discr" and b.locals[df[3]["rv"]["p"]["l"]]["ty"].startswith("protocol::resp::Resp<") and not df[3]["rv"]["p"]["p"]:
                isresp = True
        if not isresp:
            continue
        found = True
        arms = [(int(v), tg) for v, tg in t["targets"]] + [(None, t["otherwise"])]
        for v, tg in arms:
            vname = radt.variants[v]["name"] if v is not None and radt is not None else "otherwise"
            reach = cfg.path_between(b, tg, dbb, avoid=heads - {tg}) is not None if tg != dbb else True
            if vname == "Simple":
                ctx.check(reach, R, "del-after-restore:Simple", site(b, sb), ok="a Simple (OK) restore reply leads to the source-side DEL", bad="a successful RESTORE never deletes the source copy")
            elif vname == "Error":
                # reachable only through a comparison with BUSYKEY
                guarded = False
                for wb, wt in b.iter_terms():
                    if wt["k"] != "switch" or wb == sb or tg not in dom.get(wb, ()) and wb != tg:
                        continue
                    if cfg.path_between(b, wb, dbb, avoid=heads) is None:
                        continue
                    sl = du.slice_operand(wt["discr"])
                    if any(c == b"BUSYKEY" for c in sl.const_strs()) or sl.has_call("handle_restore::{closure#0}::BUSYKEY") or any("BUSYKEY" in c for c in list(sl.calls) + list(sl.decls)) or any("BUSYKEY" in str(c) for c in sl.consts):
                        if any(cfg.path_between(b, x, dbb, avoid=heads) is None for x in b.succs()[wb]):
                            guarded = True
                ctx.check((not reach) or guarded, R, "del-after-restore:Error", site(b, sb), ok="an error reply leads to DEL only when it is BUSYKEY", bad="any error reply to RESTORE leads to the source-side DEL: the key is deleted at the source although it was not restored")
            else:
                ctx.check(not reach, R, "del-after-restore:%s" % vname, site(b, sb), ok="no DEL after a %s reply" % vname, bad="a %s reply to RESTORE leads to the source-side DEL" % vname)
    if not found:
        ctx.lost(R, "del-after-restore", "no switch over the RESTORE reply dominates the DEL construction")


def _switch_vs_send(ctx, st, rule):
    """the state the destination installs for each handshake step agrees with its own routing table: it keeps sending
    clients back to the source until PRESWITCH (the source executes locally up to then), and serves from PRESWITCH on"""
    r = _migtables.switch_table(ctx, rule)
    if r is None:
        return
    table, b = r
    want = {"PreCheck": "redirect-src", "PreSwitch": "serve", "FinalSwitch": "serve"}
    for sub, state in sorted(table.items()):
        out = st["importing"].get(state)
        exp = want.get(sub)
        if exp is None:
            ctx.info(rule, "handshake-step:%s" % sub, "sub-command %s installs %s" % (sub, state))
            continue
        ctx.check(out == exp, rule, "handshake-step:%s" % sub, site(b), ok="%s installs %s in which the destination routes `%s`" % (sub, state, out),
                  bad="on %s the destination installs state %s, in which it routes `%s` (expected `%s`): between PRECHECK and PRESWITCH both proxies would execute commands of the migrating slots" % (sub, state, out, exp))
    ctx.check(table.get("FinalSwitch") == "SwitchCommitted", rule, "handshake-step:FinalSwitch-commits", site(b), ok="FINALSWITCH installs SwitchCommitted", bad="FINALSWITCH installs %s" % table.get("FinalSwitch"))
