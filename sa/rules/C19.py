"""C19 - migration preserves key expiry (DESIGN §5 C19)."""
from ..facts import norm, callee_of, callee_decl, place_fields, const_bytes
from ..defuse import DefUse
from ..sccp import Interp, Oracle, Int, Bool, Bytes, TOP
from .. import cfg
from ..lib import m, calls_to, site, agg_sites

EXPLANATION = (
    "The PTTL -> RESTORE-ttl map is derived from the source by conditional constant propagation over literal reply classes "
    "(-2, -1, 0, 1, 2^32, 60 days in ms, 2^63-1, malformed, empty) through pttl_to_restore_expire_time and the helpers it calls "
    "(byte-string equality, btoi on literals, Vec clear/extend modelled), and compared with the required map: a live ttl (>= 0) must "
    "yield a positive integer not larger than max(reply, 1) - in particular never RESTORE's `0` = persistent; -1 and malformed replies yield "
    "the no-expire constant. All RESTORE commands built in the three transfer paths take their ttl element from that function applied to "
    "the PTTL paired with the key, and both reply pairing functions drop a key whose PTTL says -2 (truth table over the comparison)."
)
ASSUMPTIONS = ["Redis answers PTTL with a canonical decimal integer", "RESTORE interprets ttl 0 as 'no expiry' (Redis documentation)"]
TRUSTED = ["btoi::btoi parses optional sign + decimal digits into i64 (modelled on literals)"]

LITERALS = [b"-2", b"-1", b"0", b"1", b"1000", b"4294967296", b"5184000000", b"9223372036854775807", b"abc", b"", b"12x"]

MUTANTS = [
    {"name": "zero-counted-as-no-expire", "file": "src/migration/scan_migration.rs", "old": "    // -2 key not found\n    n < 0\n", "new": "    // -2 key not found\n    n <= 0\n", "expect": "C19.D1:ttl-map:0"},
    {"name": "u32-parse", "file": "src/migration/scan_migration.rs", "old": "let n = match btoi::btoi::<i64>(buf) {", "new": "let n = match btoi::btoi::<i32>(buf) {", "expect": "C19.D1:ttl-map:4294967296"},
    {"name": "gen_restore_resp-bypasses-map", "file": "src/proxy/migration_backend.rs", "old": "        let expire_time = pttl_to_restore_expire_time(pttl);\n\n        let elements = vec![", "new": "        let expire_time = pttl;\n\n        let elements = vec![", "expect": "C19.D2"},
    {"name": "pull-keeps-expired-key", "file": "src/proxy/migration_backend.rs", "old": "Resp::Integer(pttl) if pttl.as_slice() != PTTL_KEY_NOT_FOUND => Ok(Some(pttl)),", "new": "Resp::Integer(pttl) if pttl.as_slice() != b\"-3\" => Ok(Some(pttl)),", "expect": "C19.D3"},
    {"name": "restore-ttl-and-key-swapped", "file": "src/migration/scan_migration.rs", "old": "                \"RESTORE\".to_string().into_bytes(),\n                key,\n                expire_time,\n", "new": "                \"RESTORE\".to_string().into_bytes(),\n                expire_time,\n                key,\n", "expect": "C19.D2"},
]


def _parse(b):
    try:
        s = b.decode()
        if s and (s.lstrip("+-").isdigit()) and s.count("-") + s.count("+") <= 1 and (s[0] in "+-" or s[0].isdigit()):
            return int(s)
    except Exception:
        pass
    return None


def run(ctx):
    F = ctx.F
    ctx.rule("C19.D1", "PTTL reply -> RESTORE ttl map over literal reply classes (exhaustive over the listed classes)", exhaustive=True)
    ctx.rule("C19.D2", "every RESTORE command (scan, blocking push, active push, pull) takes element 2 from pttl_to_restore_expire_time(pttl of that key)")
    ctx.rule("C19.D3", "a key whose PTTL reply is -2 (gone) is dropped by both pairing functions")
    fn = F.one("migration::scan_migration::pttl_to_restore_expire_time")
    if fn is None:
        ctx.lost("C19.D1", "pttl_to_restore_expire_time", "function not found")
    else:
        ctx.analysed(fn)
        helper = F.one("migration::scan_migration::pttl_need_to_be_no_expire")
        if helper is not None:
            ctx.analysed(helper)
        no_exp = None
        it0 = Interp(F, fn)
        ne = it0._const_item("migration::scan_migration::RESTORE_NO_EXPIRE")
        if ne is not None and ne[0] == "ref" and isinstance(ne[1], tuple) and ne[1][0] == "const":
            no_exp = ne[1][1]
        if no_exp is None:
            ctx.lost("C19.D1", "RESTORE_NO_EXPIRE", "constant not evaluable")
        else:
            ctx.check(no_exp == b"0", "C19.D1", "no-expire-constant", site(fn), ok="RESTORE_NO_EXPIRE = \"0\" (Redis: ttl 0 = persistent)", bad="RESTORE_NO_EXPIRE is %r" % no_exp)
        inl = tuple(sorted({(callee_of(t) or "").rsplit("::", 1)[-1] for bb, t in fn.calls() if (callee_of(t) or "") in F.bodies}))
        for lit in LITERALS:
            try:
                rv = Interp(F, fn, Oracle(args={1: Bytes(lit)}), inline=inl).run().return_value()
            except Exception as e:
                rv = None
            key = "ttl-map:%s" % (lit.decode() if lit else "<empty>")
            if rv is None or rv[0] != "bytes":
                ctx.lost("C19.D1", key, "result for PTTL reply %r is not a constant (%s)" % (lit, rv))
                continue
            out = rv[1]
            n = _parse(lit)
            o = _parse(out)
            if n is not None and n >= 0:
                good = o is not None and 0 < o <= max(n, 1)
                ctx.check(good, "C19.D1", key, site(fn), ok="live ttl %s -> RESTORE ttl %s" % (n, o),
                          bad="PTTL reply %r (a key with a remaining ttl) is restored with ttl %r%s" % (lit.decode(), out.decode(errors="replace"), " = persistent" if out == no_exp else ""))
            elif n is not None and n == -1:
                ctx.check(out == no_exp, "C19.D1", key, site(fn), ok="persistent key stays persistent", bad="PTTL -1 (persistent) is restored with ttl %r" % out)
            elif n is not None and n < -1:
                # -2 never reaches the function (D3); any negative value must not become a live ttl
                ctx.check(out == no_exp or (o is not None and o > 0), "C19.D1", key, site(fn), ok="negative reply -> %r" % out, bad="negative PTTL reply %r becomes %r" % (lit, out))
            else:
                ctx.check(out == no_exp, "C19.D1", key, site(fn), ok="malformed reply -> no expiry constant", bad="malformed PTTL reply %r is passed to RESTORE as %r" % (lit, out))
    _builders(ctx)
    _gone(ctx)


def _has_const(sl, lit):
    return any(const_bytes(c) == lit for c in sl.consts)


def _builders(ctx):
    F = ctx.F
    found = 0
    for b in F.all_bodies(bins=False):
        if b.kind == "Promoted" or b.is_mock() or not (b.path.startswith("migration::") or b.path.startswith("proxy::migration_backend")):
            continue
        du = None
        for bb, i, s in b.assigns():
            rv = s["rv"]
            if rv["k"] == "agg" and rv["ak"] == "array" and len(rv["ops"]) >= 3:
                du = du or DefUse(b)
                s0 = du.slice_operand(rv["ops"][0])
                if not _has_const(s0, b"RESTORE"):
                    continue
                found += 1
                ctx.analysed(b)
                name = (b.root or b.path).split("::")[-1] if not b.path.endswith("}") else b.path.split("::{")[0].rsplit("::", 1)[-1]
                ctx.check(len(rv["ops"]) == 4, "C19.D2", "restore-arity:%s" % name, site(b, bb, i), ok="RESTORE key ttl payload (no REPLACE / extra option)", bad="RESTORE built with %d elements" % len(rv["ops"]))
                st = du.slice_operand(rv["ops"][2])
                via = st.has_call("pttl_to_restore_expire_time")
                # the ttl element is fed by an entry field / variable of its own: not the key's and not the payload's
                # (identified by data flow, the field names are not relied upon)
                def _srcs(sl_):
                    return {(a, n) for a, n in sl_.fields if a and ("DataEntry" in a or "migration" in a)} | {("local", l) for l in sl_.locals if b.local_name(l) and 1 <= l}
                sk_ = du.slice_operand(rv["ops"][1], deep=False)
                sp_ = du.slice_operand(rv["ops"][3], deep=False) if len(rv["ops"]) > 3 else None
                st_ = du.slice_operand(rv["ops"][2], deep=False)
                t_src = {x for x in _srcs(du.slice_operand(rv["ops"][2])) if x[0] != "local"} or _srcs(st_)
                other = ({x for x in _srcs(du.slice_operand(rv["ops"][1])) if x[0] != "local"} | ({x for x in _srcs(du.slice_operand(rv["ops"][3])) if x[0] != "local"} if len(rv["ops"]) > 3 else set()))
                from_pttl = bool(t_src - other) or bool({x for x in _srcs(st_) if x[0] == "local"} - _srcs(sk_) - (_srcs(sp_) if sp_ is not None else set()))
                ctx.check(via and from_pttl, "C19.D2", "restore-ttl-origin:%s" % name, site(b, bb, i),
                          ok="ttl element = pttl_to_restore_expire_time(pttl)", bad="element 2 of RESTORE does not come from pttl_to_restore_expire_time(pttl): calls %s" % sorted(c.rsplit("::", 1)[-1] for c in st.calls)[:8])
                sk = du.slice_operand(rv["ops"][1])
                ctx.check(not sk.has_call("pttl_to_restore_expire_time"), "C19.D2", "restore-key-position:%s" % name, site(b, bb, i), ok="element 1 is the key", bad="element 1 of RESTORE is the ttl")
                sp = du.slice_operand(rv["ops"][3]) if len(rv["ops"]) > 3 else None
                if sp is not None:
                    p_src = {x for x in _srcs(sp) if x[0] != "local"} or _srcs(du.slice_operand(rv["ops"][3], deep=False))
                    k_src = {x for x in _srcs(sk) if x[0] != "local"}
                    ctx.check(bool(p_src - t_src - k_src) and not sp.has_call("pttl_to_restore_expire_time"), "C19.D2", "restore-payload:%s" % name, site(b, bb, i), ok="element 3 is fed by its own entry field (the DUMP payload)", bad="element 3 of RESTORE is not the dumped payload (it shares its source with the key / ttl)")
    ctx.floor("C19.D2", "RESTORE command constructions", found, 2)
    # the push paths (blocking / active sync) and the scan all go through forward_entries
    fe = [b for b in F.all_bodies(bins=False) if "forward_entries" in b.path and b.kind == "Closure"]
    users = set()
    for b in F.all_bodies(bins=False):
        if b.kind == "Promoted":
            continue
        for bb, t in b.calls():
            if (callee_of(t) or "").endswith("ScanMigrationTask::forward_entries"):
                users.add(b.path.split("::{")[0].rsplit("::", 1)[-1])
    want = {"scan_and_migrate_keys", "handle_blocking_requests", "handle_sync_task"}
    ctx.check(want <= users, "C19.D2", "three-paths-share-forward_entries", None, ok="scan, blocking push and active push all build RESTORE in forward_entries", bad="transfer paths using forward_entries: %s (expected %s)" % (sorted(users), sorted(want)))


def _gone(ctx):
    """produce_entries / get_data_entry: PTTL == -2 drops the key"""
    F = ctx.F
    it0 = Interp(F, next(iter(F.bodies.values())))
    targets = []
    for b in F.all_bodies(bins=False):
        if b.kind == "Promoted" or b.is_mock():
            continue
        if not (b.path.startswith("migration::scan_migration") or b.path.startswith("proxy::migration_backend")):
            continue
        if not agg_sites(b, "DataEntry"):
            continue
        targets.append(b)
    if not ctx.floor("C19.D3", "functions pairing PTTL and DUMP replies into a DataEntry", len(targets), 2):
        return
    for b in targets:
        ctx.analysed(b)
        name = b.path.split("::{")[0].rsplit("::", 1)[-1]
        cmps = []
        for bb, t in b.calls():
            d = callee_decl(t)
            if d not in ("std::cmp::PartialEq::eq", "std::cmp::PartialEq::ne"):
                continue
            items = set()
            for a in t["args"][:2]:
                items |= _const_items(b, a, DefUse(b))
            if any(x.endswith("PTTL_KEY_NOT_FOUND") for x in items):
                cmps.append((bb, t))
        if not cmps:
            ctx.violation("C19.D3", "gone-key-test:%s" % name, site(b), "the PTTL reply is never compared with PTTL_KEY_NOT_FOUND (-2): a key that expired between DUMP and PTTL is restored as persistent (negative ttl -> 0)")
            continue
        v = it0._const_item("migration::scan_migration::PTTL_KEY_NOT_FOUND")
        ctx.check(v is not None and v[0] == "ref" and isinstance(v[1], tuple) and v[1][1] == b"-2", "C19.D3", "gone-constant:%s" % name, site(b), ok="PTTL_KEY_NOT_FOUND = \"-2\"", bad="PTTL_KEY_NOT_FOUND is %s" % (v,))
        entries = [bb for bb, i, s in agg_sites(b, "DataEntry")]
        for gone in (0, 1):
            def call(interp, bbx, term, argvals, gone=gone):
                for cb, ct in cmps:
                    if ct is term:
                        eq = callee_decl(term).endswith("::eq")
                        return Bool(bool(gone) == eq)
                return None
            res = Interp(F, b, Oracle(call=call)).run()
            # which DataEntry constructions are fed by the PTTL value that was just compared
            reach = [x for x in entries if x in res.exec_blocks]
            if gone:
                # the loop may still build entries for *other* keys: require that from the comparison block no entry is reachable
                # before the next iteration's comparison
                sub = _reach_until(b, res, cmps[0][0], {cb for cb, _ in cmps})
                bad = [x for x in entries if x in sub]
                ctx.check(not bad, "C19.D3", "gone-key-dropped:%s" % name, site(b, cmps[0][0]), ok="PTTL -2 -> no DataEntry for that key", bad="a DataEntry is still built (bb%s) after PTTL answered -2" % bad)
            else:
                ctx.check(bool(reach), "C19.D3", "present-key-kept:%s" % name, site(b, cmps[0][0]), ok="other replies -> DataEntry", bad="no DataEntry reachable when PTTL is not -2")


def _reach_until(b, res, start, stops):
    seen = set()
    stack = [s for s in b.succs()[start] if (start, s) in res.exec_edges]
    while stack:
        x = stack.pop()
        if x in seen or x in stops:
            continue
        seen.add(x)
        for s in b.succs()[x]:
            if (x, s) in res.exec_edges:
                stack.append(s)
    return seen


def _const_items(body, op, du, depth=0):
    """const items an operand (or the references it was built from) names, looking through promoted constants"""
    out = set()
    if depth > 4:
        return out
    sl = du.slice_operand(op, deep=False)
    import re
    for c in sl.consts:
        if c.get("item"):
            out.add(norm(c["item"]))
        mm = re.search(r"promoted\[(\d+)\]$", c.get("v", ""))
        if mm:
            root = body.promoted_of or body
            idx = int(mm.group(1))
            if idx < len(root.promoted):
                for blk in root.promoted[idx].blocks:
                    for s in blk.stmts:
                        if s["k"] == "assign" and s["rv"]["k"] == "use" and "c" in s["rv"]["a"] and s["rv"]["a"]["c"].get("item"):
                            out.add(norm(s["rv"]["a"]["c"]["item"]))
    return out
