"""C05 - a proxy installs metadata iff it is strictly newer, atomically (DESIGN §5 C05)."""
from ..facts import norm, callee_of, callee_decl, place_key, place_fields
from ..defuse import DefUse
from ..sccp import Interp, Oracle, Int, Bool, TOP, Some, NONE
from .. import cfg
from ..lib import m, many, calls_to, atomic_sites, ATOMIC_WRITES, agg_sites, binop_sites, drops_of, site, ordering_arg_consts

EXPLANATION = (
    "Static decision of the install rule of SETCLUSTER (MetaManager) and SETREPL (ReplicatorManager): the functions "
    "that write the installed epoch are located by the field they store into; their epoch comparisons are located by "
    "data dependence (message epoch vs installed epoch); conditional constant propagation over the MIR, once per element of "
    "{lt,eq,gt} x force x host-match, yields the table of reachable outcomes (OldEpoch / NotMyMeta / install), which is "
    "compared with the required table. Lock dominance, store order, data origin of the stored values, the single-writer "
    "rule over the whole crate and the reply mapping are path / who-may-write rules over the same facts."
)
ASSUMPTIONS = [
    "the three orderings {lt,eq,gt} of message epoch vs installed epoch are exhaustive for u64 comparison",
    "linearizability of SETREPL's optimistic protocol under concurrent callers is not decided (only lock dominance and re-check under the write lock)",
]
TRUSTED = ["parking_lot / arc_swap / std atomics behave as documented"]

MUTANTS = [
    {"name": "set_meta-le-to-lt", "file": "src/proxy/manager.rs", "old": "cluster_meta.get_epoch() <= self.epoch.load(Ordering::SeqCst)",
     "new": "cluster_meta.get_epoch() < self.epoch.load(Ordering::SeqCst)", "expect": "C05.D1:setcluster:eq,force=0"},
    {"name": "setrepl-recheck-le-to-lt", "file": "src/replication/manager.rs", "old": "if !force && epoch <= replicators.0 {",
     "new": "if !force && epoch < replicators.0 {", "expect": "C05.D1:setrepl:eq,force=0"},
    {"name": "set_meta-drop-force-test", "file": "src/proxy/manager.rs", "old": "                && !cluster_meta.get_flags().force\n", "new": "", "expect": "C05.D1:setcluster:"},
    {"name": "set_meta-epoch-before-map", "edits": [
        {"file": "src/proxy/manager.rs", "old": "            // Should go after the meta_map.store above\n            self.epoch.store(cluster_meta.get_epoch(), Ordering::SeqCst);\n", "new": ""},
        {"file": "src/proxy/manager.rs", "old": "            self.meta_map.store(Arc::new(MetaMap {\n", "new": "            self.epoch.store(cluster_meta.get_epoch(), Ordering::SeqCst);\n            self.meta_map.store(Arc::new(MetaMap {\n"}],
     "expect": "C05.D2:snapshot-before-epoch"},
    {"name": "set_meta-drop-check-hosts", "file": "src/proxy/manager.rs", "old": "if !local.check_hosts(self.config.announce_host.as_str(), cluster_name) {", "new": "if local.get_map().len() > 100_000 {", "expect": "C05.D1:setcluster:"},
    {"name": "set_meta-guard-temporary", "file": "src/proxy/manager.rs", "old": "let _guard = self.lock.lock();", "new": "let _ = self.lock.lock();", "expect": "C05.D2:guard"},
    {"name": "setrepl-second-writer", "file": "src/replication/manager.rs", "old": "    pub fn get_role_num(&self) -> (usize, usize) {", "new": "    pub fn reset_epoch(&self) {\n        self.updating_epoch.store(0, atomic::Ordering::SeqCst);\n    }\n\n    pub fn get_role_num(&self) -> (usize, usize) {", "expect": "C05.D3:single-writer:ReplicatorManager.updating_epoch"},
    {"name": "setcluster-reply-swapped", "file": "src/proxy/executor.rs", "old": "                ClusterMetaError::OldEpoch => cmd_ctx.set_resp_result(Ok(Resp::Error(\n                    response::OLD_EPOCH_REPLY", "new": "                ClusterMetaError::OldEpoch => cmd_ctx.set_resp_result(Ok(Resp::Error(\n                    response::TRY_AGAIN_REPLY", "expect": "C05.D4:setcluster:OldEpoch"},
    {"name": "replicator-kept-by-role-only", "file": "src/replication/manager.rs", "old": "            if Some(true)\n                == master_key_set\n                    .get(key)\n                    .and_then(|meta| replicator.as_ref().left().map(|m| m.get_meta() == meta))\n            {", "new": "            if replicator.is_left() && master_key_set.contains_key(key) {", "expect": "C05.D5"},
    {"name": "epoch-gate-before-host-validation", "file": "src/replication/manager.rs", "old": "        // validation\n        for meta in masters.iter() {", "new": "        self.updating_epoch.store(epoch, atomic::Ordering::SeqCst);\n        // validation\n        for meta in masters.iter() {", "expect": "C05.D6:no-trace:update_replicators"},
]

ERR = "proxy::cluster::ClusterMetaError"
MM = "proxy::manager::MetaManager"
RM = "replication::manager::ReplicatorManager"


def _cmp_sites(body, du, is_msg, is_inst):
    """comparison binops one side of which depends on the message epoch and the other on the installed epoch.
    returns [(bb, idx, stmt, msg_side)] msg_side in 'a'|'b'"""
    out = []
    for bb, i, s in binop_sites(body):
        rv = s["rv"]
        sa = du.slice_operand(rv["a"])
        sb = du.slice_operand(rv["b"])
        if is_msg(sa) and is_inst(sb) and not is_inst(sa):
            out.append((bb, i, s, "a"))
        elif is_msg(sb) and is_inst(sa) and not is_inst(sb):
            out.append((bb, i, s, "b"))
    return out


def _eval_cmp(op, msg_side, order):
    """truth of `a op b` when msg ? installed is `order`"""
    c = {"lt": -1, "eq": 0, "gt": 1}[order]
    if msg_side == "b":
        c = -c
    return {"Lt": c < 0, "Le": c <= 0, "Gt": c > 0, "Ge": c >= 0, "Eq": c == 0, "Ne": c != 0}[op]


def _decision_table(ctx, rule, body, cmp_sites, install_blocks, host_oracle, host_sites, label, scope=0):
    """run SCCP for every element of the domain and compare with the required table"""
    F = ctx.F
    cmp_index = {(bb, i): (s, side) for bb, i, s, side in cmp_sites}
    dom0 = cfg.dominators(body)
    old_blocks = {bb for bb, i, s in agg_sites(body, ERR, "OldEpoch") if scope in dom0.get(bb, ())}
    notmine_blocks = {bb for bb, i, s in agg_sites(body, ERR, "NotMyMeta")}
    if not ctx.floor(rule, "%s OldEpoch construction" % label, len(old_blocks), 1):
        return
    if not ctx.floor(rule, "%s NotMyMeta construction" % label, len(notmine_blocks), 1):
        return
    ok = True
    for order in ("lt", "eq", "gt"):
        for force in (0, 1):
            for host in (0, 1):
                def binop(interp, bb, stmt, op, a, b, order=order):
                    for (cb, ci), (s, side) in cmp_index.items():
                        if s is stmt:
                            return Bool(_eval_cmp(op, side, order))
                    return None

                def read(interp, bb, place, val, force=force):
                    fs = place_fields(place)
                    if fs and fs[-1][1] == "force" and m(norm(fs[-1][0]), "ClusterMapFlags"):
                        return Int(force)
                    return None

                def call(interp, bb, term, argvals, host=host):
                    return host_oracle(interp, bb, term, argvals, host)

                res = Interp(F, body, Oracle(binop=binop, read=read, call=call)).run()
                ex = res.exec_blocks
                inst_reach = [b for b in install_blocks if b in ex]
                old_reach = [b for b in old_blocks if b in ex]
                nm_reach = [b for b in notmine_blocks if b in ex]
                key = "%s:%s,force=%d,host_ok=%d" % (label, order, force, host)
                accept = (order == "gt" or force == 1)
                if host == 0:
                    # from every host test the only way out is NotMyMeta: install unreachable from it
                    bad = []
                    for hb in host_sites:
                        if hb not in ex:
                            continue
                        sub = _reach_exec(body, res, hb)
                        if any(b in sub for b in install_blocks):
                            bad.append(hb)
                    good = not bad and bool(nm_reach)
                    ok &= ctx.check(good, rule, key, site(body),
                                    ok="host mismatch: every host test leads to NotMyMeta only, install unreachable from it",
                                    bad="host mismatch does not prevent the install (host test blocks %s reach the install; NotMyMeta reachable=%s)" % (bad, bool(nm_reach)))
                    continue
                if accept:
                    # must install: OldEpoch/NotMyMeta dead, every executable path to a return passes an install block
                    must = _all_paths_pass(body, res, install_blocks, scope)
                    good = bool(inst_reach) and not old_reach and not nm_reach and must
                    ok &= ctx.check(good, rule, key, site(body),
                                    ok="newer-or-forced message: installs on every path, no OldEpoch/NotMyMeta",
                                    bad="newer-or-forced message is not installed (install reachable=%s, OldEpoch reachable at bb%s, NotMyMeta at bb%s, all paths install=%s)" % (
                                        bool(inst_reach), old_reach, nm_reach, must))
                else:
                    good = not inst_reach and bool(old_reach)
                    ok &= ctx.check(good, rule, key, site(body, (inst_reach or [None])[0]),
                                    ok="stale-or-equal unforced message: OldEpoch, install unreachable",
                                    bad="stale-or-equal unforced message can be installed (install block(s) %s reachable; OldEpoch reachable=%s)" % (inst_reach, bool(old_reach)))
    return ok


def _reach_exec(body, res, start):
    seen = {start}
    stack = [start]
    while stack:
        b = stack.pop()
        for s in body.succs()[b]:
            if (b, s) in res.exec_edges and s not in seen:
                seen.add(s)
                stack.append(s)
    return seen


def _all_paths_pass(body, res, blocks, start=0):
    """in the executable sub-CFG every path start->return passes one of `blocks`"""
    blocks = set(blocks)
    seen = {start}
    stack = [start]
    if start in blocks:
        return True
    while stack:
        b = stack.pop()
        if body.blocks[b].term["k"] == "return":
            return False
        for s in body.succs()[b]:
            if (b, s) in res.exec_edges and s not in seen and s not in blocks:
                seen.add(s)
                stack.append(s)
    return True


def run(ctx):
    F = ctx.F
    ctx.rule("C05.D1", "install decision table over {lt,eq,gt} x force x host-match (conditional constant propagation), for SETCLUSTER and SETREPL", exhaustive=True)
    ctx.rule("C05.D2", "atomic install: lock dominates compare and stores, guard alive in between, snapshot stored before epoch, stored values originate from the same message")
    ctx.rule("C05.D3", "single writer of MetaManager.epoch / meta_map and ReplicatorManager.updating_epoch / replicators over lib + bins")
    ctx.rule("C05.D6", "a message refused for its host (NotMyMeta) leaves no trace: no write of the manager's epoch gate, epoch, tables or snapshot can be followed by the NotMyMeta refusal")
    ctx.rule("C05.D5", "SETREPL carries a running replicator over to the new epoch only when its metadata equals the accepted message's (role and peers); everything else is rebuilt from the message")
    ctx.rule("C05.D4", "reply mapping OldEpoch->OLD_EPOCH_REPLY, NotMyMeta->ERR_NOT_MY_META; GETEPOCH replies the installed epoch")

    # ---------------------------------------------------------------- locate writers (D3 + anchors)
    epoch_writers = {}
    map_writers = {}
    upd_writers = {}
    repl_writers = {}
    for b in F.all_bodies():
        if b.kind == "Promoted":
            continue
        du = None
        for bb, t in b.calls():
            c = callee_of(t) or ""
            if c.startswith("std::sync::atomic::Atomic") and c.rsplit("::", 1)[-1] in ATOMIC_WRITES:
                du = du or DefUse(b)
                sl = du.slice_operand(t["args"][0], deep=False)
                if (MM, "epoch") in sl.fields:
                    epoch_writers.setdefault(b.path, []).append(bb)
                if (RM, "updating_epoch") in sl.fields:
                    upd_writers.setdefault(b.path, []).append(bb)
            elif m(c, "ArcSwapAny::store") or m(c, "ArcSwapAny::swap") or m(c, "ArcSwapAny::rcu") or m(c, "ArcSwapAny::compare_and_swap"):
                du = du or DefUse(b)
                sl = du.slice_operand(t["args"][0], deep=False)
                if (MM, "meta_map") in sl.fields:
                    map_writers.setdefault(b.path, []).append(bb)
            elif c.endswith("RwLock::write") or c.endswith("RwLock::try_write") or c.endswith("RwLock::upgradable_read") or c.endswith("RwLock::get_mut"):
                du = du or DefUse(b)
                sl = du.slice_operand(t["args"][0], deep=False)
                if (RM, "replicators") in sl.fields:
                    repl_writers.setdefault(b.path, []).append(bb)
    ctx.call_sites += sum(len(v) for d in (epoch_writers, map_writers, upd_writers, repl_writers) for v in d.values())

    if ctx.floor("C05.D3", "writer of MetaManager.epoch", len(epoch_writers), 1):
        ctx.check(len(epoch_writers) == 1, "C05.D3", "single-writer:MetaManager.epoch", None,
                  ok="only %s stores into MetaManager.epoch" % list(epoch_writers),
                  bad="MetaManager.epoch is written by several functions: %s" % sorted(epoch_writers))
    if ctx.floor("C05.D3", "writer of MetaManager.meta_map", len(map_writers), 1):
        ctx.check(set(map_writers) <= set(epoch_writers), "C05.D3", "single-writer:MetaManager.meta_map", None,
                  ok="meta_map is swapped only in %s" % list(map_writers),
                  bad="meta_map is replaced outside the epoch-installing function: %s" % sorted(set(map_writers) - set(epoch_writers)))
    if ctx.floor("C05.D3", "writer of ReplicatorManager.updating_epoch", len(upd_writers), 1):
        ctx.check(len(upd_writers) == 1, "C05.D3", "single-writer:ReplicatorManager.updating_epoch", None,
                  ok="only %s stores updating_epoch" % list(upd_writers), bad="several writers: %s" % sorted(upd_writers))
    if ctx.floor("C05.D3", "write-lock taker of ReplicatorManager.replicators", len(repl_writers), 1):
        ctx.check(set(repl_writers) <= set(upd_writers), "C05.D3", "single-writer:ReplicatorManager.replicators", None,
                  ok="replicators write-locked only in %s" % list(repl_writers),
                  bad="replicators write-locked outside the installing function: %s" % sorted(set(repl_writers) - set(upd_writers)))

    # ---------------------------------------------------------------- SETCLUSTER
    for path in sorted(epoch_writers):
        body = F.body(path)
        if body is None:
            continue
        ctx.analysed(body)
        if not calls_to(body, "NodeMap::check_hosts"):
            # host validation moved into a private helper: analyse the function with such helpers inlined (the block
            # ids of the original function are preserved, so the writer blocks found above stay valid)
            from ..inline import inlined
            b2 = inlined(F, body)
            if b2 is not None and calls_to(b2, "NodeMap::check_hosts"):
                body = b2
        du = DefUse(body)
        is_msg = lambda sl: sl.has_call("ProxyClusterMeta::get_epoch")
        is_inst = lambda sl: (MM, "epoch") in sl.fields
        cmps = _cmp_sites(body, du, is_msg, is_inst)
        if not ctx.floor("C05.D1", "epoch comparison in %s" % path, len(cmps), 1):
            continue
        store_blocks = epoch_writers[path]
        map_blocks = map_writers.get(path, [])
        host_calls = calls_to(body, "NodeMap::check_hosts")
        host_sites = [bb for bb, t in host_calls]

        def host_oracle(interp, bb, term, argvals, host):
            if m(callee_of(term), "NodeMap::check_hosts"):
                return Bool(host)
            return None
        if not host_calls:
            ctx.violation("C05.D1", "setcluster:host-validation-missing", site(body),
                          "the installing function never validates the hosts of the local nodes (no NodeMap::check_hosts call)")
        _decision_table(ctx, "C05.D1", body, cmps, store_blocks + map_blocks, host_oracle, host_sites, "setcluster")
        # the host check must be about the message's local nodes and the configured announce host
        for bb, t in host_calls:
            s0 = du.slice_operand(t["args"][0])
            s1 = du.slice_operand(t["args"][1])
            ctx.check(s0.has_call("ProxyClusterMeta::get_local") and s0.has_param(2), "C05.D1", "setcluster:host-check-subject", site(body, bb),
                      ok="check_hosts runs on the message's local node map", bad="check_hosts does not run on cluster_meta.get_local(): %s" % s0.summary())
            ctx.check(s1.has_field("ServerProxyConfig", "announce_host"), "C05.D1", "setcluster:host-check-host", site(body, bb),
                      ok="against config.announce_host", bad="check_hosts compares with something else than config.announce_host: %s" % s1.summary())
        _check_hosts_fn(ctx)

        # ---- D2
        dom = cfg.dominators(body)
        locks = [(bb, t) for bb, t in body.calls() if (callee_of(t) or "").endswith("Mutex::lock") and (MM, "lock") in du.slice_operand(t["args"][0], deep=False).fields]
        if ctx.floor("C05.D2", "mutex lock in %s" % path, len(locks), 1):
            lbb, lt = locks[0]
            guard = lt["dest"]["l"]
            events = [("compare", c[0]) for c in cmps] + [("epoch.store", b) for b in store_blocks] + [("meta_map.store", b) for b in map_blocks]
            # loads of the installed epoch
            for bb, t, meth, fields in atomic_sites(body, du):
                if meth == "load" and (MM, "epoch") in fields:
                    events.append(("epoch.load", bb))
            for name, bb in events:
                ctx.check(lbb in dom.get(bb, ()) and lbb != bb, "C05.D2", "lock-dominates:%s" % name, site(body, bb),
                          ok="lock() dominates %s" % name, bad="%s (bb%d) is not dominated by the lock() call (bb%d)" % (name, bb, lbb))
            # guard alive: no drop / move of the guard on a path lock -> ... -> event
            drops = [d for d in drops_of(body, guard) if d != lbb]
            for name, bb in events:
                bad = [d for d in drops if cfg.reaches(body, lbb, d) and cfg.reaches(body, d, bb) and d != bb]
                ctx.check(not bad, "C05.D2", "guard-alive-until:%s" % name, site(body, bb),
                          ok="guard _%d is not released between lock() and %s" % (guard, name),
                          bad="the lock guard is dropped/moved at bb%s before %s" % (bad, name))
            # the guard must be bound to a variable that lives to the end of the block (not a temporary `_`)
            ctx.check(bool(drops), "C05.D2", "guard-bound", site(body, lbb), ok="guard is held in a local and dropped at scope end",
                      bad="the guard is never dropped: it is not held")
            for mb in map_blocks:
                for sb in store_blocks:
                    ctx.check(mb in dom.get(sb, ()), "C05.D2", "snapshot-before-epoch", site(body, sb),
                              ok="meta_map.store dominates epoch.store", bad="epoch.store (bb%d) is not dominated by meta_map.store (bb%d): GETEPOCH can announce an epoch whose routing is not visible" % (sb, mb))
        for sb in store_blocks:
            t = body.blocks[sb].term
            sl = du.slice_operand(t["args"][1])
            ctx.check(sl.has_call("ProxyClusterMeta::get_epoch") and sl.has_param(2) and not sl.binops, "C05.D2", "stored-epoch-origin", site(body, sb),
                      ok="stored epoch = cluster_meta.get_epoch()", bad="stored epoch does not originate from the message's get_epoch(): %s binops=%s" % (sl.summary(), sorted(sl.binops)))
        for mb in map_blocks:
            t = body.blocks[mb].term
            sl = du.slice_operand(t["args"][1])
            ctx.check(sl.has_call("ClusterBackendMap::from_cluster_map") and sl.has_param(2), "C05.D2", "stored-map-origin", site(body, mb),
                      ok="stored map built by from_cluster_map(&cluster_meta,..)", bad="stored map does not originate from from_cluster_map of the message: %s" % sl.summary())
            fc = calls_to(body, "ClusterBackendMap::from_cluster_map")
            for bb, ft in fc:
                s0 = du.slice_operand(ft["args"][0], deep=False)
                ctx.check(s0.has_param(2), "C05.D2", "from_cluster_map-subject", site(body, bb), ok="from_cluster_map(&cluster_meta)",
                          bad="from_cluster_map is not applied to the message")

    # ---------------------------------------------------------------- SETREPL
    for path in sorted(upd_writers):
        body = F.body(path)
        if body is None:
            continue
        ctx.analysed(body)
        du = DefUse(body)
        is_msg = lambda sl: any(l == 2 and p == "epoch" for l, p in sl.params)
        is_inst1 = lambda sl: (RM, "updating_epoch") in sl.fields
        is_inst2 = lambda sl: (RM, "replicators") in sl.fields or sl.has_call("RwLock::write")
        cmps1 = _cmp_sites(body, du, is_msg, is_inst1)
        cmps2 = _cmp_sites(body, du, is_msg, is_inst2)
        ctx.floor("C05.D1", "optimistic epoch comparison in %s" % path, len(cmps1), 1)
        if not ctx.floor("C05.D1", "epoch re-check under the write lock in %s" % path, len(cmps2), 1):
            continue
        # install = assignment through the write guard of a tuple whose first element is the message epoch
        wl = [(bb, t) for bb, t in body.calls() if (callee_of(t) or "").endswith("RwLock::write") and (RM, "replicators") in du.slice_operand(t["args"][0], deep=False).fields]
        installs = []
        for bb, i, s in body.assigns():
            pl = s["place"]
            if pl["p"] and pl["p"][-1] == "deref" or (pl["p"] and pl["p"][0] == "deref" and len(pl["p"]) == 1):
                sl = du.slice_place({"l": pl["l"], "p": []}, deep=True)
                if sl.has_call("DerefMut::deref_mut") and sl.has_call("RwLock::write"):
                    installs.append((bb, i, s))
        if not ctx.floor("C05.D1", "assignment through the replicators write guard", len(installs), 1):
            continue
        install_blocks = [bb for bb, i, s in installs]
        hsites = []
        for bb, t in body.calls():
            d = callee_decl(t)
            if d in ("std::cmp::PartialEq::ne", "std::cmp::PartialEq::eq"):
                sl = du.slice_operand(t["args"][0]); sl2 = du.slice_operand(t["args"][1])
                if sl.has_call("extract_host_from_address") or sl2.has_call("extract_host_from_address"):
                    hsites.append((bb, t, sl if sl.has_call("extract_host_from_address") else sl2))
        ctx.floor("C05.D1", "host validation sites in %s" % path, len(hsites), 2)
        covered = set()
        for bb, t, sl in hsites:
            for f in ("master_node_address", "replica_node_address"):
                if any(n == f for a, n in sl.fields):
                    covered.add(f)
            ctx.check(sl.has_param(3) or any(n == "announce_host" for n in sl.captures), "C05.D1", "setrepl:host-check-host:%s" % "+".join(sorted(n for a, n in sl.fields if n.endswith("_node_address"))), site(body, bb),
                      ok="host compared with the announce_host argument", bad="host test does not involve announce_host")
        ctx.check(covered == {"master_node_address", "replica_node_address"}, "C05.D1", "setrepl:host-check-coverage", site(body),
                  ok="both master and replica node addresses are validated", bad="validated address kinds: %s" % sorted(covered))

        def host_oracle2(interp, bb, term, argvals, host):
            for hb, ht, _ in hsites:
                if ht is term:
                    ne = callee_decl(term).endswith("::ne")
                    return Bool((not host) if ne else bool(host))
            return None
        # the authoritative comparison is the one under the write lock: the table is derived with only that
        # one assumed (the optimistic one left unknown), so a missing / wrong re-check cannot hide behind it
        _decision_table(ctx, "C05.D1", body, cmps2, install_blocks, host_oracle2, [hb for hb, _, _ in hsites], "setrepl",
                        scope=(wl[0][0] if wl else 0))
        # the optimistic fast-fail must never reject a message the rule accepts (it may let stale ones through:
        # the re-check catches them, that is an optimisation only)
        wl_blocks = {bb for bb, t in wl}
        domx = cfg.dominators(body)
        fast_old = [bb for bb, i, s in agg_sites(body, ERR, "OldEpoch") if not any(w in domx.get(bb, ()) for w in wl_blocks)]
        for order, force in (("gt", 0), ("gt", 1), ("lt", 1), ("eq", 1)):
            def binop1(interp, bb, stmt, op, a, b, order=order):
                for cb, ci, cs, side in cmps1:
                    if cs is stmt:
                        return Bool(_eval_cmp(op, side, order))
                return None

            def read1(interp, bb, place, val, force=force):
                fs = place_fields(place)
                if fs and fs[-1][1] == "force" and m(norm(fs[-1][0]), "ClusterMapFlags"):
                    return Int(force)
                return None
            res1 = Interp(F, body, Oracle(binop=binop1, read=read1, call=lambda i, bb, t, a: host_oracle2(i, bb, t, a, 1))).run()
            live = [b for b in fast_old if b in res1.exec_blocks]
            ctx.check(not live, "C05.D1", "setrepl-fastpath:%s,force=%d" % (order, force), site(body, (live or [None])[0]),
                      ok="optimistic check does not reject an acceptable message", bad="the optimistic check rejects a newer-or-forced message (OldEpoch at bb%s)" % live)
        # ---- D2 for SETREPL
        dom = cfg.dominators(body)
        if ctx.floor("C05.D2", "RwLock::write on replicators", len(wl), 1):
            wbb, wt = wl[0]
            for bb, i, s, side in cmps2:
                ctx.check(wbb in dom.get(bb, ()), "C05.D2", "setrepl:recheck-under-lock", site(body, bb, i),
                          ok="re-check is dominated by replicators.write()", bad="epoch re-check not under the write lock")
            for bb, i, s in installs:
                ctx.check(wbb in dom.get(bb, ()), "C05.D2", "setrepl:install-under-lock", site(body, bb, i),
                          ok="assignment under the write guard (the re-check on the way is shown by the D1 table)", bad="replicators assignment is not dominated by replicators.write()")
                # first tuple element = message epoch
                rhs = s["rv"]
                sl = du.slice_operand(rhs["a"]) if rhs["k"] == "use" else None
                if sl is not None:
                    # field-sensitive: element 0
                    pl = rhs["a"].get("mv") or rhs["a"].get("cp")
                    sl0 = du.slice_place({"l": pl["l"], "p": [{"f": 0, "name": "0"}]}) if pl else sl
                    ctx.check(any(l == 2 and p == "epoch" for l, p in sl0.params) and not sl0.binops, "C05.D2", "setrepl:stored-epoch-origin", site(body, bb, i),
                              ok="stored epoch = meta.epoch", bad="stored replicators epoch does not originate from the message: %s" % sl0.summary())
            # the optimistic gate must track the installed epoch: every write of updating_epoch is a plain
            # store of the message epoch (before the lock) or of the installed replicators.0 (correction under the lock)
            gate_msg = []
            for bb, t, meth, fields in atomic_sites(body, du):
                if (RM, "updating_epoch") not in fields or meth == "load":
                    continue
                vs = du.slice_operand(t["args"][1]) if len(t["args"]) > 1 else None
                from_msg = vs is not None and any(l == 2 and p == "epoch" for l, p in vs.params) and not vs.binops and not vs.calls
                from_inst = vs is not None and (vs.has_call("RwLock::write") or (RM, "replicators") in vs.fields) and not vs.binops
                ctx.check(meth == "store" and (from_msg or from_inst), "C05.D2", "setrepl:gate-write:%s" % meth, site(body, bb),
                          ok="updating_epoch.store(%s)" % ("message epoch" if from_msg else "installed epoch"),
                          bad="updating_epoch is modified by `%s` with a value that is neither exactly the message epoch nor the installed epoch: after a forced lower epoch the gate no longer equals the installed epoch" % meth)
                if meth == "store" and from_msg:
                    gate_msg.append(bb)
            for bb, i, s in installs:
                ctx.check(any(g in dom.get(bb, ()) for g in gate_msg), "C05.D2", "setrepl:gate-set-before-install", site(body, bb, i),
                          ok="updating_epoch.store(epoch) dominates the install", bad="the install is not preceded on every path by updating_epoch.store(message epoch)")
            guard = wt["dest"]["l"]
            drops = [d for d in drops_of(body, guard) if d != wbb]
            for bb, i, s in installs:
                bad = [d for d in drops if cfg.reaches(body, wbb, d) and cfg.reaches(body, d, bb) and d != bb]
                ctx.check(not bad, "C05.D2", "setrepl:guard-alive", site(body, bb, i), ok="write guard alive until the assignment",
                          bad="write guard released at bb%s before the assignment" % bad)

    # ---------------------------------------------------------------- D4 reply mapping
    _reply_mapping(ctx)
    _replicator_reuse(ctx)
    _refused_leaves_no_trace(ctx)


def _check_hosts_fn(ctx):
    """NodeMap::check_hosts: a host that differs (or cannot be extracted) returns false"""
    F = ctx.F
    b = F.one("NodeMap::check_hosts")
    if b is None:
        ctx.lost("C05.D1", "NodeMap::check_hosts", "function not found")
        return
    ctx.analysed(b)
    du = DefUse(b)
    hs = []
    for bb, t in b.calls():
        d = callee_decl(t)
        if d in ("std::cmp::PartialEq::ne", "std::cmp::PartialEq::eq"):
            s0 = du.slice_operand(t["args"][0]); s1 = du.slice_operand(t["args"][1])
            if (s0.has_call("extract_host_from_address") and s1.has_param(2)) or (s1.has_call("extract_host_from_address") and s0.has_param(2)):
                hs.append((bb, t))
    if not ctx.floor("C05.D1", "host comparison in NodeMap::check_hosts", len(hs), 1):
        return
    for host in (0, 1):
        def call(interp, bb, term, argvals, host=host):
            for hb, ht in hs:
                if ht is term:
                    ne = callee_decl(term).endswith("::ne")
                    return Bool((not host) if ne else bool(host))
            return None
        res = Interp(F, b, Oracle(call=call)).run()
        for hb, ht in hs:
            # value returned on paths from the comparison that do not pass the loop head again
            sub = _reach_exec(b, res, hb)
            rets = [r for r in b.return_blocks() if r in sub]
            if host == 0:
                # the mismatch branch must assign false to _0 and return without continuing the loop
                nxt = [s for s in b.succs()[hb]]
                falses = []
                seen = set(); stack = list(nxt); cont = False
                while stack:
                    x = stack.pop()
                    if x in seen or (hb, x) not in res.exec_edges and x in nxt:
                        continue
                    seen.add(x)
                    for s in b.blocks[x].stmts:
                        if s["k"] == "assign" and s["place"]["l"] == 0 and s["rv"]["k"] == "use" and "c" in s["rv"]["a"]:
                            falses.append(s["rv"]["a"]["c"].get("int"))
                    for s2 in b.succs()[x]:
                        if (x, s2) in res.exec_edges:
                            if s2 == hb:
                                cont = True
                            stack.append(s2)
                ctx.check(falses and all(v == 0 for v in falses) and not cont, "C05.D1", "check_hosts:mismatch-returns-false", site(b, hb),
                          ok="a differing host makes check_hosts return false", bad="after a host mismatch check_hosts can continue or return %s" % falses)
    # extraction failure returns false as well
    nones = []
    for bb, i, s in b.assigns():
        if s["place"]["l"] == 0 and s["rv"]["k"] == "use" and "c" in s["rv"]["a"]:
            nones.append(s["rv"]["a"]["c"].get("int"))
    ctx.check(nones.count(1) == 1, "C05.D1", "check_hosts:single-true-exit", site(b),
              ok="check_hosts returns true only at the end of the loop", bad="check_hosts has %d `true` results" % nones.count(1))


def _reply_mapping(ctx):
    F = ctx.F
    from ..facts import const_bytes
    for fn, label in (("handle_umctl_set_cluster", "setcluster"), ("handle_umctl_setrepl", "setrepl")):
        bs = [b for b in F.find(fn) if b.kind == "AssocFn"]
        if not ctx.floor("C05.D4", fn, len(bs), 1):
            continue
        b = bs[0]
        ctx.analysed(b)
        adt = F.adt(ERR)
        # which string constant is used on the path selected by each error variant
        consts = {}
        for item in ("OLD_EPOCH_REPLY", "ERR_NOT_MY_META"):
            for bb, i, s in b.assigns():
                rv = s["rv"]
                ops = [rv.get("a"), rv.get("b")] + rv.get("ops", [])
                for o in ops:
                    if o and "c" in o and (o["c"].get("item") or "").endswith(item):
                        consts.setdefault(item, []).append(bb)
            for bb, t in b.calls():
                for o in t["args"]:
                    if "c" in o and (o["c"].get("item") or "").endswith(item):
                        consts.setdefault(item, []).append(bb)
        # switch on the discriminant of the ClusterMetaError
        sw = None
        for bb, t in b.iter_terms():
            if t["k"] == "switch":
                pl = t["discr"].get("mv") or t["discr"].get("cp")
                if pl is None:
                    continue
                du = DefUse(b)
                # discriminant of a ClusterMetaError place
                for d in du.defs.get(pl["l"], []):
                    if d[0] == "assign" and d[3]["rv"]["k"] == "discr":
                        src = d[3]["rv"]["p"]
                        ty = b.locals[src["l"]]["ty"]
                        last = src["p"][-1] if src["p"] else None
                        if "ClusterMetaError" in ty and (not src["p"] or isinstance(last, dict)):
                            sw = (bb, t)
        if sw is None:
            ctx.lost("C05.D4", "%s:error-switch" % label, "no switch on the ClusterMetaError discriminant in %s" % b.path)
            continue
        bb, t = sw
        tgt = {int(v): x for v, x in t["targets"]}
        want = {"OldEpoch": "OLD_EPOCH_REPLY", "NotMyMeta": "ERR_NOT_MY_META"}
        for vi, var in enumerate(adt.variants):
            if var["name"] not in want:
                continue
            start = tgt.get(int(var["discr"]), t["otherwise"])
            others = [x for v, x in tgt.items() if x != start] + ([t["otherwise"]] if t["otherwise"] != start else [])
            region = cfg.reachable_blocks(b, start)
            # blocks reachable from this arm but from no other arm
            other_reach = set()
            for o in others:
                other_reach |= cfg.reachable_blocks(b, o)
            own = region - other_reach
            item = want[var["name"]]
            good = any(x in own for x in consts.get(item, []))
            wrong = [k for k, v in consts.items() if k != item and any(x in own for x in v)]
            ctx.check(good and not wrong, "C05.D4", "%s:%s" % (label, var["name"]), site(b, start),
                      ok="%s -> %s" % (var["name"], item), bad="%s arm does not reply %s (found %s)" % (var["name"], item, wrong))
    ge = [b for b in F.find("handle_umctl_get_epoch") if b.kind == "AssocFn"]
    if ctx.floor("C05.D4", "handle_umctl_get_epoch", len(ge), 1):
        b = ge[0]
        ctx.analysed(b)
        c = calls_to(b, "MetaManager::get_epoch")
        ctx.check(bool(c), "C05.D4", "getepoch:source", site(b), ok="GETEPOCH replies manager.get_epoch()", bad="GETEPOCH does not read MetaManager::get_epoch")
        g = F.one("MetaManager::get_epoch")
        if g is not None:
            ctx.analysed(g)
            loads = [x for x in atomic_sites(g) if x[2] == "load" and (MM, "epoch") in x[3]]
            ctx.check(len(loads) == 1, "C05.D4", "getepoch:loads-installed-epoch", site(g), ok="get_epoch loads MetaManager.epoch",
                      bad="MetaManager::get_epoch does not load the epoch field")


def _replicator_reuse(ctx):
    """update_replicators answers OK and records the message's epoch; the replication roles behind that epoch are the
    message's only if every replicator that is kept (not rebuilt from the message) was compared with the message's
    metadata for that node - a node that keeps its role but changes its peers must get a new replicator"""
    from ..lib import branch_conditions
    F = ctx.F
    b = F.one("ReplicatorManager::update_replicators")
    if b is None:
        ctx.lost("C05.D5", "update_replicators", "not found")
        return
    ctx.analysed(b)
    du = DefUse(b)
    dom = cfg.dominators(b)
    reuse = []
    for bb, t in b.calls():
        c = callee_of(t) or ""
        if not (c.endswith("HashMap::insert") and len(t["args"]) > 2):
            continue
        v = du.slice_operand(t["args"][2])
        # the inserted value comes from the installed table (self.replicators), not from a constructor
        if v.has_field("ReplicatorManager", "replicators") and not (v.has_call("RedisMasterReplicator::new") or v.has_call("RedisReplicaReplicator::new")):
            reuse.append((bb, t))
    if not ctx.floor("C05.D5", "carried-over replicator insertions", len(reuse), 2):
        return
    for n, (bb, t) in enumerate(reuse):
        ok = False
        for d, discr, val in branch_conditions(b, bb, dom):
            sl = du.slice_operand(discr)
            if sl.has_call("get_meta") and (sl.has_call("PartialEq::eq") or sl.has_call("PartialEq::ne") or sl.binops & {"Eq", "Ne"}) and (sl.has_call("HashMap::get") or sl.has_call("HashMap::get_key_value") or sl.has_call("HashMap::remove")):
                ok = True
        ctx.check(ok, "C05.D5", "reuse-only-if-meta-equal#%d" % n, site(b, bb), ok="kept only when replicator.get_meta() equals the message's metadata for this node",
                  bad="a running replicator is carried over to the new epoch without comparing its metadata (peers) with the accepted message: the epoch is recorded and answered OK while the node keeps replicating from its old peer")


def _refused_leaves_no_trace(ctx):
    """`applies a non-forced message exactly when its epoch is strictly greater than the installed one`: a foreign message
    that is refused with NotMyMeta must not move the epoch gate either, otherwise later legitimate messages with
    installed < epoch <= refused epoch are answered OLD_EPOCH"""
    F = ctx.F
    n = 0
    for name in ("proxy::manager::MetaManager::set_meta", "replication::manager::ReplicatorManager::update_replicators"):
        b = F.bodies.get(name) or F.one(name.split("::", 2)[-1])
        if b is None:
            ctx.lost("C05.D6", name.rsplit("::", 1)[-1], "%s not found" % name)
            continue
        ctx.analysed(b)
        if not agg_sites(b, "ClusterMetaError", "NotMyMeta") and not any((callee_of(t) or "").endswith("check_hosts") for bb, t in b.calls()):
            from ..inline import inlined
            b2 = inlined(F, b)
            if b2 is not None:
                b = b2
        du = DefUse(b)
        refusals = [bb for bb, i, st in agg_sites(b, "ClusterMetaError", "NotMyMeta")]
        # refusals produced by a helper (check_hosts): the `?` / match that returns its Err
        for bb, t in b.calls():
            if (callee_of(t) or "").endswith("check_hosts"):
                refusals.append(bb)
        writes = []
        for bb, t, meth, fields in atomic_sites(b, du):
            if meth in ATOMIC_WRITES and any((a or "").endswith(("MetaManager", "ReplicatorManager")) for a, _ in fields):
                writes.append((bb, "%s.%s" % (next((f for a, f in fields if (a or "").endswith(("MetaManager", "ReplicatorManager"))), "?"), meth)))
        for bb, t in b.calls():
            c = callee_of(t) or ""
            if c.rsplit("::", 1)[-1] in ("store", "swap", "rcu") and "ArcSwap" in c:
                writes.append((bb, "snapshot." + c.rsplit("::", 1)[-1]))
            if c.rsplit("::", 1)[-1] == "write" and "RwLock" in c:
                writes.append((bb, "tables.write()"))
        if not ctx.floor("C05.D6", "NotMyMeta refusals in %s" % name.rsplit("::", 1)[-1], len(refusals), 1) or not ctx.floor("C05.D6", "state writes in %s" % name.rsplit("::", 1)[-1], len(writes), 1):
            continue
        for wb, what in writes:
            n += 1
            hit = [r for r in refusals if r != wb and cfg.path_between(b, wb, r) is not None]
            ctx.check(not hit, "C05.D6", "no-trace:%s:%s" % (name.rsplit("::", 1)[-1], what), site(b, wb), ok="%s cannot be followed by the NotMyMeta refusal" % what,
                      bad="%s is written and the message can still be refused with NotMyMeta afterwards: a misdelivered message moves this proxy's %s, and later legitimate messages up to that epoch are answered OLD_EPOCH" % (what, "epoch gate" if "epoch" in what else "state"))
