"""C09 - key-to-slot routing at a proxy is exact (DESIGN §5 C09)."""
import itertools

from ..facts import norm, callee_of, callee_decl, place_fields, const_int
from ..defuse import DefUse
from ..sccp import Interp, Oracle, Int, Bool, Agg, TOP
from .. import cfg
from ..lib import m, calls_to, site, agg_sites, const_str_set
from .C03 import cmd_tables

EXPLANATION = (
    "generate_slot is wired as CRC16-XMODEM of get_hash_tag(key) modulo SLOT_NUM = 16384 and the lock hash (ARC) is used nowhere else; "
    "get_hash_tag is evaluated by constant propagation (slice / iterator / closure models) on every byte string over {a, '{', '}'} up to length 5 "
    "(364 keys) and compared with the Redis Cluster hash-tag rule; the key position table (EVAL/EVALSHA -> element 3, everything else -> element 1) "
    "is extracted for all command variants; the six same-slot guards dominate the forwarding in their handlers, the five splitting handlers may "
    "skip the guard only under active redirection, the EVAL guard is unconditional; LocalCluster::send / RemoteCluster::send_remote realise the "
    "local / MOVED / error trichotomy for the command's own slot. CRC16 numerics are library code and are not decided."
)
ASSUMPTIONS = ["crc16::State::<XMODEM> implements CRC16-XMODEM", "other multi-key commands (RENAME, SMOVE, ...) are routed by their first key; same-slot keys are a documented client obligation (docs/command_table.md)"]
TRUSTED = ["crc16 crate"]

MUTANTS = [
    {"name": "same_slot-skips-second-key", "file": "src/common/utils.rs", "old": "    for k in key_iter {\n        if generate_slot(k) != slot {", "new": "    for k in key_iter.skip(1) {\n        if generate_slot(k) != slot {", "expect": "C09.D4:same_slot:compares-every-key"},
    {"name": "slot-hash-arc", "file": "src/common/utils.rs", "old": "    State::<XMODEM>::calculate(get_hash_tag(key)) as usize % SLOT_NUM", "new": "    State::<ARC>::calculate(get_hash_tag(key)) as usize % SLOT_NUM", "expect": "C09.D1"},
    {"name": "slot-hash-whole-key", "file": "src/common/utils.rs", "old": "    State::<XMODEM>::calculate(get_hash_tag(key)) as usize % SLOT_NUM", "new": "    State::<XMODEM>::calculate(key) as usize % SLOT_NUM", "expect": "C09.D1"},
    {"name": "hash-tag-empty-body", "file": "src/common/utils.rs", "old": "            if end_offset == 0 {\n                return key;\n            }\n", "new": "", "expect": "C09.D2"},
    {"name": "eval-key-index", "file": "src/proxy/command.rs", "old": "DataCmdType::Eval | DataCmdType::Evalsha => packet.get_array_element(3),", "new": "DataCmdType::Eval | DataCmdType::Evalsha => packet.get_array_element(2),", "expect": "C09.D3"},
    {"name": "multi-int-guard-dropped", "file": "src/proxy/executor.rs", "after": "async fn handle_multi_int_cmd(", "old": "            if !in_same_slot {", "new": "            if !in_same_slot && arg_len > 1_000_000 {", "expect": "C09.D4"},
    {"name": "unwrap-keeps-cached-slot", "file": "src/proxy/command.rs", "old": "        let remaining = self.request.left_trim_cmd(removed_num)?;\n        self.info = CommandInfo::new(&self.request);", "new": "        let remaining = self.request.left_trim_cmd(removed_num)?;\n        self.info = CommandInfo {\n            cmd_type: CmdType::from_packet(&self.request),\n            data_cmd_type: DataCmdType::from_packet(&self.request),\n            slot: self.info.slot,\n        };", "expect": "C09.D6"},
    {"name": "single-slot-range-dropped", "file": "src/proxy/slot.rs", "old": "                if start > end {\n                    continue;", "new": "                if start >= end {\n                    continue;", "expect": "C09.D7:single-slot-range-is-filled"},
    {"name": "fill-excludes-end", "file": "src/proxy/slot.rs", "old": "                for s in start..=end {", "new": "                for s in start..end {", "expect": "C09.D7:fill-includes-end"},
]


def _ref_tag(k):
    i = k.find(b"{")
    if i < 0:
        return k
    j = k.find(b"}", i + 1)
    if j < 0 or j == i + 1:
        return k
    return k[i + 1:j]


def run(ctx):
    F = ctx.F
    ctx.rule("C09.D1", "generate_slot = XMODEM(get_hash_tag(key)) % 16384; the lock hash is not used for routing; all slot users share generate_slot")
    ctx.rule("C09.D2", "get_hash_tag equals the Redis Cluster hash-tag rule on all 364 strings over {a,{,}} of length <= 5", exhaustive=True)
    ctx.rule("C09.D3", "key position table over all command variants: EVAL/EVALSHA -> 3, others -> 1", exhaustive=True)
    ctx.rule("C09.D4", "same-slot guards: six handlers, guard dominates forwarding, refusal reply, skippable only under active redirection (never for EVAL)")
    ctx.rule("C09.D6", "slot provenance: every CommandInfo is built with slot = generate_slot(get_key(the same packet)); the cached slot is re-derived whenever the request of a Command is rewritten")
    ctx.rule("C09.D7", "the routing table covers single-slot ranges: in SlotMapData::new a range with start == end still reaches the table write, and the fill is inclusive of `end`")
    ctx.rule("C09.D5", "local / MOVED / error trichotomy for the command's own slot")
    _wiring(ctx)
    _hash_tag(ctx)
    _key_pos(ctx)
    _guards(ctx)
    _trichotomy(ctx)
    _slot_provenance(ctx)
    _same_slot_total(ctx)
    _hash_raw_bytes(ctx)
    slot_table_boundary(ctx, "C09.D7")


def _wiring(ctx):
    F = ctx.F
    g = F.one("common::utils::generate_slot")
    if g is None:
        ctx.lost("C09.D1", "generate_slot", "not found")
        return
    ctx.analysed(g)
    du = DefUse(g)
    calc = [(bb, t) for bb, t in g.calls() if (callee_of(t) or "").endswith("State::calculate")]
    if ctx.floor("C09.D1", "crc call in generate_slot", len(calc), 1):
        bb, t = calc[0]
        ctx.check("XMODEM" in t.get("inst", "") and "ARC" not in t.get("inst", ""), "C09.D1", "crc-variant", site(g, bb), ok="crc16 XMODEM", bad="generate_slot uses %s" % t.get("inst", "")[:80])
        ctx.check(du.slice_operand(t["args"][0]).has_call("get_hash_tag"), "C09.D1", "hash-of-hash-tag", site(g, bb), ok="hash of get_hash_tag(key)", bad="the CRC is not computed over get_hash_tag(key)")
    rems = [s for bb, i, s in g.assigns() if s["rv"]["k"] == "binop" and s["rv"]["op"] == "Rem"]
    it = Interp(F, g)
    sn = it._const_item("common::utils::SLOT_NUM")
    ctx.check(sn == Int(16384), "C09.D1", "slot-num", None, ok="SLOT_NUM = 16384", bad="SLOT_NUM = %s" % (sn,))
    ok_rem = False
    for s in rems:
        b_ = s["rv"]["b"]
        if "c" in b_ and ((b_["c"].get("item") or "").endswith("SLOT_NUM") or const_int(b_["c"]) == 16384):
            ok_rem = True
    ctx.check(ok_rem, "C09.D1", "modulo-slot-num", site(g), ok="% SLOT_NUM", bad="generate_slot does not reduce modulo SLOT_NUM")
    rv = du.slice_local(0)
    ctx.check(rv.has_call("State::calculate") and "Rem" in rv.binops, "C09.D1", "result-is-reduced-crc", site(g), ok="returns crc % SLOT_NUM", bad="generate_slot returns something else")
    # ARC users
    arc_users = set()
    for b in F.all_bodies(bins=True):
        if b.kind == "Promoted" or b.is_mock():
            continue
        for bb, t in b.calls():
            if (callee_of(t) or "").endswith("State::calculate") and "ARC" in t.get("inst", ""):
                arc_users.add(b.path)
    ctx.check(arc_users <= {"common::utils::generate_lock_slot"}, "C09.D1", "lock-hash-only-for-locks", None, ok="ARC is only used by generate_lock_slot", bad="the lock hash is also used in %s" % sorted(arc_users - {"common::utils::generate_lock_slot"}))
    # everything that turns a key into a slot goes through generate_slot
    for fn in ("proxy::command::CommandInfo::new", "common::utils::same_slot", "migration::task::SlotRangeArray::is_key_inside"):
        b = F.one(fn)
        if b is None:
            ctx.lost("C09.D1", fn, "not found")
            continue
        ctx.analysed(b)
        fam = F.family(b)
        uses = any(calls_to(x, "common::utils::generate_slot") for x in fam) or any(any(a.get("c", {}).get("fn", "").endswith("generate_slot") for a in t["args"]) for x in fam for bb, t in x.calls())
        ctx.check(uses, "C09.D1", "uses-generate_slot:%s" % fn.rsplit("::", 1)[-1], site(b), ok="slot via generate_slot", bad="%s does not compute slots with generate_slot" % fn)
    ci = F.one("proxy::command::CommandInfo::new")
    if ci is not None:
        du2 = DefUse(ci)
        for bb, i, s in agg_sites(ci, "proxy::command::CommandInfo"):
            rv_ = s["rv"]
            sl = du2.slice_operand(rv_["ops"][rv_["fields"].index("slot")])
            ctx.check(sl.has_call("CommandInfo::get_key") and (sl.has_call("generate_slot") or any(c.get("fn", "").endswith("generate_slot") for c in sl.consts)), "C09.D1", "command-slot-from-its-key", site(ci, bb, i), ok="slot = generate_slot(get_key(..))", bad="the command's slot is not generate_slot of its key")


def hash_tag_eval(F, b):
    """get_hash_tag evaluated by the abstract interpreter on all 364 keys over {a,{,}} up to length 5:
    returns (wrong results, keys without a constant result - e.g. a panic -, number of keys)"""
    bad = []
    undec = []
    n = 0
    for L in range(0, 6):
        for t in itertools.product(b"a{}", repeat=L):
            k = bytes(t)
            n += 1
            try:
                rv = Interp(F, b, Oracle(args={1: ("ref", ("const", k), ())})).run().return_value()
            except Exception:
                rv = None
            got = rv[1][1] if rv and rv[0] == "ref" and isinstance(rv[1], tuple) and rv[1][0] == "const" else None
            if got is None:
                undec.append(k)
            elif got != _ref_tag(k):
                bad.append((k, got, _ref_tag(k)))
    return bad, undec, n


def _hash_tag(ctx):
    F = ctx.F
    b = F.one("common::utils::get_hash_tag")
    if b is None:
        ctx.lost("C09.D2", "get_hash_tag", "not found")
        return
    ctx.analysed(b, *F.children(b))
    bad, undec, n = hash_tag_eval(F, b)
    ctx.paths += n
    if undec:
        ctx.lost("C09.D2", "hash-tag-table", "the hash tag of %d/%d sample keys is not a constant under the models (first: %r)" % (len(undec), n, undec[0]))
    for k, got, want in bad[:6]:
        ctx.violation("C09.D2", "hash-tag:%s" % k.decode(), site(b), "get_hash_tag(%r) = %r, Redis Cluster hashes %r" % (k.decode(), got.decode(), want.decode()))
    if not bad and not undec:
        ctx.holds("C09.D2", "hash-tag-table", site(b), "%d keys over {a,{,}} (length <= 5) agree with the Redis Cluster hash-tag rule" % n)
    ctx.note("hash-tag samples evaluated: %d" % n)


def _key_pos(ctx):
    F = ctx.F
    b = F.one("proxy::command::CommandInfo::get_key")
    adt = F.adt("proxy::command::DataCmdType")
    if b is None or adt is None:
        ctx.lost("C09.D3", "CommandInfo::get_key", "not found")
        return
    ctx.analysed(b)
    gets = [(bb, t) for bb, t in b.calls() if (callee_of(t) or "").endswith("get_array_element")]
    if not ctx.floor("C09.D3", "get_array_element calls", len(gets), 1):
        return
    for vi, v in enumerate(adt.variants):
        res = Interp(F, b, Oracle(args={1: Agg(adt.path, vi, ())})).run()
        idx = set()
        for bb, t in gets:
            if bb in res.exec_blocks:
                a = res.call_args.get(bb)
                idx.add(a[1][1] if a and a[1][0] == "int" else "?")
        want = {3} if v["name"] in ("Eval", "Evalsha") else {1}
        ctx.check(idx == want, "C09.D3", "key-position:%s" % v["name"], site(b), ok="key at element %s" % sorted(want), bad="%s takes its key from element %s (Redis: %s)" % (v["name"], sorted(idx, key=str), sorted(want)))


def _guards(ctx):
    F = ctx.F
    handlers = ["handle_mget", "handle_mset", "handle_msetnx", "handle_multi_int_cmd", "handle_blocking_commands", "handle_multi_key_eval_cmd"]
    found = 0
    for hn in handlers:
        bs = [b for b in F.find("ForwardHandler::" + hn) if b.kind == "AssocFn"]
        if not bs:
            ctx.lost("C09.D4", hn, "handler not found")
            continue
        b = bs[0]
        inner = F.body(b.path + "::{closure#0}")
        if inner is not None and not list(b.calls()):
            b = inner     # async fn: the real body is the coroutine
        ctx.analysed(b)
        du = DefUse(b)
        dom = cfg.dominators(b)
        ss = [(bb, t) for bb, t in b.calls() if (callee_of(t) or "").endswith("utils::same_slot")]
        if not ss:
            ctx.violation("C09.D4", "%s:guard-missing" % hn, site(b), "%s forwards a multi-key command without a same-slot test" % hn)
            continue
        found += 1
        fam = F.family(b)
        fwd = [(x, bb) for x in fam for bb, t in x.calls() if (callee_of(t) or "").endswith("handle_single_key_data_cmd") or (callee_of(t) or "").endswith("handle_data_cmd") or (callee_decl(t) or "").endswith("CmdCtxHandler::handle_cmd_ctx")]
        fwd_here = [bb for x, bb in fwd if x is b]
        err_consts = []
        for bb, t in b.calls():
            for a in t["args"]:
                if "c" in a and (a["c"].get("item") or "").endswith("ERR_NOT_THE_SAME_SLOT"):
                    err_consts.append(bb)
        for bb, i, s in b.assigns():
            for o in [s["rv"].get("a"), s["rv"].get("b")] + s["rv"].get("ops", []):
                if o and "c" in o and (o["c"].get("item") or "").endswith("ERR_NOT_THE_SAME_SLOT"):
                    err_consts.append(bb)
        # behaviour table: active_redirection x same
        for ar in (0, 1):
            for same in (0, 1):
                def call(interp, bbx, term, argvals, same=same):
                    for sb, st in ss:
                        if st is term:
                            return Bool(same)
                    return None

                def read(interp, bbx, place, val, ar=ar):
                    fs = place_fields(place)
                    if fs and fs[-1][1] == "active_redirection":
                        return Int(ar)
                    return None
                res = Interp(F, b, Oracle(call=call, read=read)).run()
                refused = any(x in res.exec_blocks for x in err_consts)
                # anything forwarded: forwarding calls in this body or closures created in executable blocks
                forwards = any(x in res.exec_blocks for x in fwd_here)
                for x in fam:
                    if x is b:
                        continue
                    created = [bb for bb, i, s in b.assigns() if s["rv"]["k"] == "agg" and s["rv"]["ak"] in ("closure", "coroutine") and norm(s["rv"]["def"]) == x.path]
                    if any(c in res.exec_blocks for c in created) and any(xx is x for xx, _ in fwd):
                        forwards = True
                must_refuse = (not same) and (hn == "handle_multi_key_eval_cmd" or not ar)
                key = "%s:active_redirection=%d,same_slot=%d" % (hn, ar, same)
                if must_refuse:
                    ctx.check(refused and not forwards, "C09.D4", key, site(b, ss[0][0]), ok="refused with ERR_NOT_THE_SAME_SLOT, nothing forwarded",
                              bad="keys in different slots are %s (refusal reachable=%s)" % ("forwarded" if forwards else "not refused", refused))
                else:
                    ctx.check(forwards or not fwd, "C09.D4", key, site(b, ss[0][0]), ok="forwarded", bad="a valid multi-key command is not forwarded")
        # the guard looks at the command's keys
        for sb, st in ss:
            sl = du.slice_operand(st["args"][0])
            ctx.check(sl.has_call("get_command_element") or sl.has_call("get_cmd") or any(b.local_name(l) == "keys" for l in sl.locals), "C09.D4", "%s:guard-subject" % hn, site(b, sb), ok="guard over the command's keys", bad="same_slot is not applied to the command's keys")
    ctx.floor("C09.D4", "same-slot guards", found, 6)


def _trichotomy(ctx):
    F = ctx.F
    l = F.one("LocalCluster::send")
    if l is None:
        ctx.lost("C09.D5", "LocalCluster::send", "not found")
    else:
        ctx.analysed(l)
        gets = calls_to(l, "SlotMap::get")
        snf = [bb for bb, i, s in agg_sites(l, "ClusterSendError", "SlotNotFound")]
        snd = [bb for bb, t in l.calls() if (callee_decl(t) or "").endswith("CmdTaskSender::send")]
        if ctx.floor("C09.D5", "local slot lookup", len(gets), 1) and ctx.floor("C09.D5", "SlotNotFound", len(snf), 1) and ctx.floor("C09.D5", "backend send", len(snd), 1):
            from ..sccp import Some, NONE
            for found in (0, 1):
                ng = calls_to(l, "HashMap::get")

                def call(interp, bbx, term, argvals, found=found):
                    if term is gets[0][1]:
                        return Some(TOP) if found else NONE
                    for nb, nt in ng:
                        if nt is term:
                            return Some(TOP)
                    return None
                res = Interp(F, l, Oracle(call=call)).run()
                s_ = any(x in res.exec_blocks for x in snd); n_ = any(x in res.exec_blocks for x in snf)
                ctx.check((s_, n_) == ((True, False) if found else (False, True)), "C09.D5", "local:slot-%s" % ("owned" if found else "not-owned"), site(l, gets[0][0]),
                          ok="executed locally" if found else "SlotNotFound -> remote lookup", bad="slot owned=%d: local send reachable=%s, SlotNotFound reachable=%s" % (found, s_, n_))
    r = F.one("RemoteCluster::send_remote")
    if r is None:
        ctx.lost("C09.D5", "RemoteCluster::send_remote", "not found")
    else:
        ctx.analysed(r)
        gets = calls_to(r, "SlotMap::get")
        mv = [bb for bb, t in calls_to(r, "gen_moved")] + [bb for bb, i, s in agg_sites(r, "ClusterSendError", "ActiveRedirection")]
        cs = const_str_set(r)
        if ctx.floor("C09.D5", "remote slot lookup", len(gets), 1) and ctx.floor("C09.D5", "MOVED / redirection construction", len(mv), 1):
            from ..sccp import Some, NONE
            for found in (0, 1):
                def call(interp, bbx, term, argvals, found=found):
                    if term is gets[0][1]:
                        return Some(TOP) if found else NONE
                    return None
                res = Interp(F, r, Oracle(call=call)).run()
                m_ = any(x in res.exec_blocks for x in mv)
                ctx.check(m_ == bool(found), "C09.D5", "remote:slot-%s" % ("covered" if found else "not-covered"), site(r, gets[0][0]), ok="MOVED to the owner" if found else "error reply, no MOVED",
                          bad="slot covered=%d: MOVED construction reachable=%s" % (found, m_))
            ctx.check(any(b"slot not covered" in c or b"not covered" in c for c in cs), "C09.D5", "remote:not-covered-error", site(r), ok="uncovered slot answers an error", bad="no `slot not covered` error in send_remote")


def _slot_provenance(ctx):
    """the routing slot of a command is a cache of hash(key of its current request): (a) every construction of
    CommandInfo computes it from the packet it is given, never from a parameter or another command's info;
    (b) every function that rewrites Command.request (wrap / strip UMFORWARD, change an element) rebuilds info from
    the rewritten request afterwards"""
    from ..lib import agg_sites
    F = ctx.F
    R = "C09.D6"
    n = 0
    for b in F.all_bodies(bins=True):
        if b.is_mock() or b.kind == "Promoted" or "tests::" in b.path:
            continue
        sites_ = agg_sites(b, "proxy::command::CommandInfo")
        if not sites_:
            continue
        du = DefUse(b)
        for bb, i, st in sites_:
            n += 1
            ctx.analysed(b)
            rv = st["rv"]
            op = rv["ops"][rv["fields"].index("slot")]
            sl = du.slice_operand(op)
            hashes = any(c.get("fn", "").endswith("generate_slot") for c in sl.consts) or sl.has_call("generate_slot")
            keyed = sl.has_call("CommandInfo::get_key")
            ctx.check(hashes and keyed, R, "slot-from-own-key:%s" % b.path.rsplit("::", 1)[-1], site(b, bb, i), ok="slot = get_key(packet).map(generate_slot)",
                      bad="%s builds a CommandInfo whose slot is not computed from the packet's key (origins: %s): a command can be routed by another command's slot" % (b.path, sl.summary()))
            # field writes to CommandInfo.slot outside constructors
    ctx.floor(R, "CommandInfo constructions", n, 1)
    for b in F.all_bodies(bins=True):
        if b.is_mock() or b.kind == "Promoted" or "tests::" in b.path:
            continue
        for bb, i, st in b.assigns():
            fs = [(norm(a), nm) for a, nm in place_fields(st["place"])]
            if fs and fs[-1] == ("proxy::command::CommandInfo", "slot"):
                ctx.violation(R, "slot-field-write:%s" % b.path, site(b, bb, i), "the cached slot is overwritten outside CommandInfo's constructor")
    # (b) rewrites of Command.request re-derive info
    m_ = 0
    for b in F.all_bodies(bins=False):
        if b.is_mock() or b.kind == "Promoted" or "tests::" in b.path or b.impl_adt != "proxy::command::Command" or b.kind != "AssocFn":
            continue
        if not (b.sig and b.sig.get("self") in ("refmut", "&mut")):
            continue
        du = DefUse(b)
        rew = []
        for bb, t in b.calls():
            if not t.get("atys") or not t["atys"][0].startswith("&mut"):
                continue
            sl = du.slice_operand(t["args"][0], deep=False)
            if ("proxy::command::Command", "request") in {(norm(a), nm) for a, nm in sl.fields}:
                rew.append((bb, t))
        if not rew:
            continue
        if b.path.endswith("::change_element"):
            # vetted: replaces the bytes of one element in place; its only user is the value compressor, whose positions
            # (2, 3, even indexes >= 2; never the key position) are decided by C20.D1
            ctx.info(R, "rewrite-rederives-info:change_element", "in-place element replacement used for values only (C20.D1 decides the positions): key and slot unchanged")
            continue
        m_ += 1
        ctx.analysed(b)
        news = [(bb, t) for bb, t in calls_to(b, "CommandInfo::new")]
        infow = [bb for bb, i, st in b.assigns() if [(norm(a), nm) for a, nm in place_fields(st["place"])][-1:] == [("proxy::command::Command", "info")]]
        ok_exits = b.return_blocks()
        bad = None
        for rb, rt in rew:
            # from the rewrite every path to a return either passes an info write fed by CommandInfo::new(&self.request) or is the failure path
            good_w = set()
            for nb, nt in news:
                if ("proxy::command::Command", "request") in {(norm(a), nm) for a, nm in du.slice_operand(nt["args"][0]).fields} and cfg.reaches(b, rb, nb):
                    good_w.add(nb)
            if not good_w:
                bad = (rb, "no CommandInfo::new(&self.request) after the rewrite")
        ctx.check(bad is None, R, "rewrite-rederives-info:%s" % b.path.rsplit("::", 1)[-1], site(b, bad[0]) if bad else site(b), ok="request rewrite is followed by info = CommandInfo::new(&self.request)",
                  bad="%s rewrites the request but %s: the command keeps the slot of its old key" % (b.path, bad[1] if bad else ""))
    ctx.floor(R, "Command methods that rewrite the request", m_, 2)


def slot_table_boundary(ctx, R):
    """SlotMapData::new: comparisons between a range's start and end are evaluated at start == end (conditional constant
    propagation with the comparison answered for equal operands): the write into the slot table must stay executable.
    A `start >= end -> skip` guard silently drops every one-slot range: its owner answers `slot not covered` and the
    peers have no MOVED target."""
    from ..lib import binop_sites
    F = ctx.F
    b = F.one("proxy::slot::SlotMapData::new")
    if b is None:
        ctx.lost(R, "SlotMapData::new", "not found")
        return
    ctx.analysed(b)
    du = DefUse(b)
    cmps = []
    for bb, i, st in binop_sites(b, ("Lt", "Le", "Gt", "Ge", "Eq", "Ne")):
        na = {b.local_name(l) for l in du.slice_operand(st["rv"]["a"], deep=False).locals}
        nb = {b.local_name(l) for l in du.slice_operand(st["rv"]["b"], deep=False).locals}
        if ("start" in na and "end" in nb) or ("end" in na and "start" in nb):
            cmps.append(st)
    writes = [bb for bb, i, st in b.assigns() if any(e == "deref" for e in st["place"]["p"]) and b.locals[st["place"]["l"]]["ty"].startswith("&mut std::option::Option<usize>")]
    if not writes:
        # iterator style fill: any write through a mutable element reference
        writes = [bb for bb, i, st in b.assigns() if any(e == "deref" for e in st["place"]["p"]) and "Option<usize>" in b.locals[st["place"]["l"]]["ty"]]
    if not ctx.floor(R, "slot table writes in SlotMapData::new", len(writes), 1):
        return

    def binop(interp, bbx, stmt, op, a, bv):
        for c in cmps:
            if c is stmt:
                return Bool({"Lt": 0, "Le": 1, "Gt": 0, "Ge": 1, "Eq": 1, "Ne": 0}[op])
        return None
    res = Interp(F, b, Oracle(binop=binop)).run()
    ctx.check(any(w in res.exec_blocks for w in writes), R, "single-slot-range-is-filled", site(b, writes[0]), ok="with start == end the slot table write is executable (%d start/end comparison(s))" % len(cmps),
              bad="with start == end the slot table write is not executable: a range `s-s` is dropped from the routing table, its owner answers `slot not covered` and peers cannot answer MOVED")
    # inclusive upper bound
    excl = [(bb, i) for bb, i, st in b.assigns() if st["rv"]["k"] == "agg" and st["rv"].get("ak") == "adt" and norm(st["rv"].get("adt", "")) == "std::ops::Range"
            and {"start", "end"} <= ({b.local_name(l) for l in du.slice_operand(st["rv"]["ops"][0], deep=False).locals} | {b.local_name(l) for l in du.slice_operand(st["rv"]["ops"][1], deep=False).locals})
            and not (du.slice_operand(st["rv"]["ops"][1]).binops & {"Add", "AddWithOverflow"})]
    ctx.check(not excl, R, "fill-includes-end", site(b, excl[0][0], excl[0][1]) if excl else site(b), ok="the fill range includes `end`", bad="the fill iterates start..end without the end slot: the last slot of every range has no owner in the table")


def _same_slot_total(ctx):
    """same_slot is the predicate behind every multi-key guard: it must hash every key and compare all of them with the
    first - no element of the key iterator may be dropped (skip / take / step_by / nth ...)"""
    from ..lib import TRUNCATING
    F = ctx.F
    b = F.one("common::utils::same_slot")
    if b is None:
        ctx.lost("C09.D4", "same_slot", "not found")
        return
    fam = F.family(b)
    ctx.analysed(*fam)
    bad = []
    hashes = 0
    for x in fam:
        for bb, t in x.calls():
            d = callee_decl(t) or callee_of(t) or ""
            last = d.rsplit("::", 1)[-1]
            if (d.startswith(("std::iter::Iterator::", "core::iter::")) or "itertools" in d.lower()) and last in TRUNCATING + ("skip", "take", "step_by", "rev_skip"):
                bad.append((last, x, bb))
            if (callee_of(t) or "").endswith("generate_slot"):
                hashes += 1
        for bb, i, st in x.assigns():
            for o in ([st["rv"].get("a"), st["rv"].get("b")] + list(st["rv"].get("ops", []))):
                if isinstance(o, dict) and "c" in o and str(o["c"].get("fn", "")).endswith("generate_slot"):
                    hashes += 1
        for bb, t in x.calls():
            for a in t["args"]:
                if "c" in a and str(a["c"].get("fn", "")).endswith("generate_slot"):
                    hashes += 1
    ctx.check(not bad, "C09.D4", "same_slot:compares-every-key", site(bad[0][1], bad[0][2]) if bad else site(b), ok="no key of the iterator is skipped",
              bad="same_slot uses %s on the key iterator: some key is left out of the comparison, so a command whose keys hash to different slots passes every multi-key guard and is executed partially" % sorted({x[0] for x in bad}))
    ctx.check(hashes >= 1, "C09.D4", "same_slot:hashes-with-generate_slot", site(b), ok="keys are hashed with generate_slot", bad="same_slot does not hash the keys with generate_slot")


TEXT_CONV = ("from_utf8", "from_utf8_lossy", "to_string", "to_str", "as_bytes", "into_bytes", "to_uppercase", "to_lowercase", "to_ascii_uppercase", "to_ascii_lowercase", "trim", "parse")


def _hash_raw_bytes(ctx):
    """`every key, binary keys included`: wherever the proxy hashes a key of a command it hashes the raw element bytes -
    a detour through str / String (UTF-8 validation, case folding, trimming) changes or rejects binary keys"""
    F = ctx.F
    n = 0
    for b in F.all_bodies(bins=False):
        if b.is_mock() or b.kind == "Promoted" or "tests::" in b.path or not b.path.startswith(("proxy::executor", "proxy::command", "<proxy::command")):
            continue
        cs = [(bb, t) for bb, t in b.calls() if (callee_of(t) or "").endswith("common::utils::generate_slot")]
        if not cs:
            continue
        du = DefUse(b)
        for bb, t in cs:
            n += 1
            ctx.analysed(b)
            sl = du.slice_operand(t["args"][0])
            conv = sorted({c.rsplit("::", 1)[-1] for c in list(sl.calls) + list(sl.decls) if c.rsplit("::", 1)[-1] in TEXT_CONV and ("str" in c or "String" in c or "string" in c)})
            ctx.check(not conv, "C09.D1", "hash-raw-bytes:%s" % b.path.split("::{")[0].rsplit("::", 1)[-1], site(b, bb), ok="generate_slot is given the element bytes",
                      bad="the key passes through %s before it is hashed: keys that are not valid UTF-8 are rejected or altered, so CLUSTER KEYSLOT / the computed slot disagrees with the slot the command is routed by" % conv)
    ctx.floor("C09.D1", "generate_slot calls in executor / command", n, 2)
