"""C04 - metadata epochs version every change and never regress (DESIGN §5 C04)."""
from ..facts import norm, callee_of, callee_decl, place_fields
from ..defuse import DefUse
from ..effects import Effects
from ..feasible import feasible_views
from ..sccp import Interp, Oracle, Bool, Int, TOP
from .. import cfg
from ..lib import m, many, calls_to, site, binop_sites, agg_sites

EXPLANATION = (
    "Every broker mutator (functions of MetaStoreUpdate / MetaStoreMigrate / MetaStore whose effect summary writes served "
    "content) is checked on all CFG paths (after pruning infeasible paths by correlated-flag valuations): a write to served "
    "content is followed, before any Ok exit, by an increase of the global epoch, and a write to a cluster's content also by a "
    "write of that cluster's epoch whose value data-depends on the increased global epoch. Writes followed by an Err exit without "
    "versioning are reported too (partial state without a new epoch). The writers of MetaStore.global_epoch and "
    "ClusterStore.epoch are enumerated over lib+bins and each is shown to be monotone (increment, guarded assignment, or max). "
    "The epoch served per proxy is traced to the cluster epoch / global epoch."
)
ASSUMPTIONS = [
    "views are pure functions of the store (query code writes nothing: checked by the who-may-write scan)",
    "MetaStore::restore (installing an external snapshot) is an operator action outside the property's operation list; only its clock guard is checked",
]
TRUSTED = ["std collection methods mutate only their receiver"]

MUTANTS = [
    {"name": "refusal-after-slot-trimming", "file": "src/broker/migrate.rs", "old": "        Self::check_running_tasks(cluster)?;\n\n        let migration_slots = Self::remove_slots_from_src(cluster, new_epoch);\n", "new": "        let migration_slots = Self::remove_slots_from_src(cluster, new_epoch);\n        Self::check_running_tasks(cluster)?;\n", "expect": "C04.D1:err-after-write"},
    {"name": "change_config-drop-set_epoch", "file": "src/broker/update.rs", "old": "                cluster.config = cluster_config;\n                cluster.set_epoch(new_epoch);\n", "new": "                cluster.config = cluster_config;\n", "expect": "C04.D1:cluster-epoch:update::MetaStoreUpdate::change_config"},
    {"name": "remove_proxy-drop-bump", "file": "src/broker/update.rs", "old": "        self.store.failures.remove(&proxy_address);\n        self.store.bump_global_epoch();\n        Ok(())", "new": "        self.store.failures.remove(&proxy_address);\n        Ok(())", "expect": "C04.D1:bump:update::MetaStoreUpdate::remove_proxy"},
    {"name": "balance_masters-stale-epoch", "file": "src/broker/update.rs", "old": "                    chunk.role_position = ChunkRolePosition::Normal;\n                }\n                cluster.set_epoch(new_epoch);", "new": "                    chunk.role_position = ChunkRolePosition::Normal;\n                }\n                let e = cluster.epoch;\n                cluster.set_epoch(e);", "expect": "C04.D1:epoch-origin:update::MetaStoreUpdate::balance_masters"},
    {"name": "force_bump-le-to-lt", "file": "src/broker/store.rs", "old": "if new_epoch <= self.global_epoch {", "new": "if new_epoch < self.global_epoch {", "expect": "C04.D2:force_bump_all_epoch:new-eq-old"},
    {"name": "restore-guard-inverted", "file": "src/broker/store.rs", "old": "if self.global_epoch > other.global_epoch {", "new": "if self.global_epoch < other.global_epoch {", "expect": "C04.D2:restore:"},
    {"name": "free-proxy-served-with-zero", "file": "src/broker/query.rs", "old": "                    address.to_string(),\n                    self.store.global_epoch,\n", "new": "                    address.to_string(),\n                    0,\n", "expect": "C04.D3:served-epoch"},
    {"name": "commit-epoch-not-bumped", "file": "src/broker/migrate.rs", "old": "        let new_epoch = self.store.get_global_epoch() + 1;\n", "new": "        let new_epoch = self.store.get_global_epoch();\n", "expect": "C04.D1:epoch-origin"},
    {"name": "takeover-bumps-only-at-the-end", "edits": [
        {"file": "src/broker/update.rs", "after": "    fn takeover_master(", "old": "        let new_epoch = self.store.bump_global_epoch();\n", "new": "        let new_epoch = self.store.get_global_epoch() + 1;\n"},
        {"file": "src/broker/update.rs", "after": "    fn takeover_master(", "old": "        cluster.epoch = new_epoch;\n        Ok(())", "new": "        cluster.epoch = new_epoch;\n        self.store.bump_global_epoch();\n        Ok(())"},
        {"file": "src/broker/update.rs", "after": "let proxy_resource = self.generate_new_free_proxy(failed_proxy_address.clone())?;", "old": "        let new_epoch = self.store.bump_global_epoch();\n", "new": "        let new_epoch = self.store.get_global_epoch();\n"}],
     "expect": "C04.D1:bump:update::MetaStoreUpdate::replace_failed_proxy"},
    {"name": "cluster-epoch-set-before-err-return", "file": "src/broker/update.rs", "old": "                if removed_chunks.is_empty() {\n                    return Err(MetaStoreError::FreeNodeNotFound);\n                }\n\n                cluster.set_epoch(new_epoch);\n", "new": "                cluster.set_epoch(new_epoch);\n                if removed_chunks.is_empty() {\n                    return Err(MetaStoreError::FreeNodeNotFound);\n                }\n", "expect": "C04.D1:err-after-epoch-write"},
    {"name": "external-commit-not-written-back", "file": "src/broker/external.rs", "old": "        store.commit_migration(task, clear_free_nodes)?;\n        self.update_external_store_and_cache(ExternalStore { store, version })\n            .await?;\n        Ok(())", "new": "        store.commit_migration(task, clear_free_nodes)?;\n        let _ = version;\n        Ok(())", "expect": "C04.D4:external-writes-back:commit_migration"},
    {"name": "memory-backend-calls-other-method", "file": "src/broker/storage.rs", "old": "        self.store.write().auto_add_nodes(cluster_name, node_num)", "new": "        self.store.write().auto_scale_up_nodes(cluster_name, node_num)", "expect": "C04.D4:same-store-call"},
    {"name": "external-restore-accepts-older", "file": "src/broker/external.rs", "old": "        if store.get_global_epoch() >= meta_store.get_global_epoch() {", "new": "        if store.get_global_epoch() == meta_store.get_global_epoch() {", "expect": "C04.D4:external-restore-guard:incoming-lt-cached"},
]

MS = "broker::store::MetaStore"
CS = "broker::store::ClusterStore"
CONTENT_TAGS = {"cluster-content", "clusters-map", "proxies-map", "proxy-tag"}
CONFIRMED_MUTATORS = [
    "add_proxy", "add_cluster", "remove_cluster", "auto_add_nodes", "auto_delete_free_nodes", "remove_proxy",
    "replace_failed_proxy", "takeover_master", "balance_masters", "change_config", "migrate_slots",
    "migrate_slots_to_scale_down", "commit_migration",
]


def classify(adt, field):
    if adt is None:
        return ()
    if adt == MS:
        if field == "global_epoch":
            return ("global-epoch",)
        if field == "clusters":
            return ("clusters-map",)
        if field == "all_proxies":
            return ("proxies-map",)
        return ()
    if adt == CS:
        if field == "epoch":
            return ("cluster-epoch",)
        return ("cluster-content",)
    if adt in ("broker::store::ChunkStore", "broker::store::MigrationSlotRangeStore", "broker::store::MigrationMetaStore"):
        return ("cluster-content",)
    if adt == "broker::store::ProxyResource":
        if field == "cluster":
            return ("proxy-tag",)
        return ("proxies-map",)
    if adt in ("common::config::ClusterConfig", "common::config::MigrationConfig"):
        return ("cluster-content",)
    return ()


def classify_type(ty):
    t = ty
    if "ClusterStore>" in t and "HashMap<" in t:
        return ("clusters-map",)
    if "ProxyResource" in t:
        return ("proxies-map",)
    if "ChunkStore" in t or "MigrationSlotRangeStore" in t or "ClusterStore" in t or "MigrationMetaStore" in t:
        return ("cluster-content",)
    return ()


def _store_reaching(du, term):
    """does a crate call pass a `&mut` that reaches into the store (not a purely local owned value)"""
    muts = [(a, ty) for a, ty in zip(term["args"], term.get("atys", [])) if ty.startswith("&mut")]
    if not muts:
        return any(ty.startswith("&") for ty in term.get("atys", [])) is False or True
    for a, ty in muts:
        sl = du.slice_operand(a, deep=False)
        if sl.params or sl.captures:
            return True
        # a local that itself holds a reference
    return False


def _events(ctx, eff, body):
    du = DefUse(body)
    du.follow_accessors = True
    du.alias_mode = True
    out = []
    for e in eff.events(body):
        if e.callee and e.callee in eff.bodies and e.desc.startswith("call "):
            t = body.blocks[e.bb].term
            if not _store_reaching(du, t):
                # the callee mutates a local clone, not the store
                tags = set(e.tags) - CONTENT_TAGS
                if not tags:
                    continue
                e.tags = tags
        out.append(e)
    return out


def run(ctx):
    F = ctx.F
    ctx.rule("C04.D1", "every mutator path: served-content write => global epoch increase, cluster-content write => cluster epoch write derived from the increased global epoch (Ok exits); no Err exit after an unversioned content write")
    ctx.rule("C04.D2", "writers of MetaStore.global_epoch / ClusterStore.epoch enumerated over lib+bins; each monotone (+=1, guarded by >, max(..))")
    ctx.rule("C04.D3", "served epoch: member proxy <- cluster.get_epoch(), free proxy <- store.global_epoch; limit_migration keeps the epoch")
    eff = Effects(F, classify, classify_type)

    # ------------------------------------------------------------------ units
    units = []
    for p, b in eff.bodies.items():
        if b.crate != "undermoon" or b.kind != "AssocFn" or b.is_mock():
            continue
        if b.impl_adt not in ("broker::update::MetaStoreUpdate", "broker::migrate::MetaStoreMigrate", MS):
            continue
        summ = eff.summary.get(p, set())
        if not (summ & CONTENT_TAGS):
            continue
        pub = bool(b.sig and b.sig.get("pub"))
        has_epoch = bool(summ & {"global-epoch", "cluster-epoch"})
        if pub or has_epoch:
            units.append(b)
    names = {b.path.rsplit("::", 1)[-1] for b in units}
    missing = [n for n in CONFIRMED_MUTATORS if n not in names]
    if missing:
        ctx.lost("C04.D1", "floor:mutators", "confirmed mutators not recognised as content writers: %s" % missing)
    ctx.note("mutator units: %s" % sorted(b.path for b in units))

    for b in sorted(units, key=lambda x: x.path):
        if b.path == MS + "::restore":
            continue  # whole-store replacement, D2 checks its guard
        ctx.analysed(b)
        fname = b.path.split("broker::", 1)[-1]
        evs = _events(ctx, eff, b)
        W_all = [e for e in evs if e.tags & CONTENT_TAGS]
        # a crate call is a versioning barrier only when the callee increases the global epoch on *every* Ok path
        # (must-summary); a callee that may return Ok without the increase leaves its caller's writes unversioned
        B = {e.bb for e in evs if "global-epoch" in e.tags and _is_barrier(F, eff, e)}
        for e in evs:
            if "global-epoch" in e.tags and not _is_barrier(F, eff, e):
                ctx.info("C04.D1", "may-bump-only:%s:%s" % (fname, (e.callee or "").rsplit("::", 1)[-1]), "%s can return Ok without increasing the global epoch: not counted as versioning for its caller" % e.callee)
        C = {e.bb for e in evs if "cluster-epoch" in e.tags}
        # cluster epoch may also be set by constructing a new ClusterStore (add_cluster)
        for bb, i, s in agg_sites(b, CS):
            C.add(bb)
        ok_exits, err_exits = _exits(b)
        views = feasible_views(F, b)
        ctx.paths += len(views)
        du = DefUse(b)
        for e in W_all:
            ctx.call_sites += 1
            wkey = "%s:%s" % (fname, _ekey(e))
            # --- global bump on Ok paths
            bad = None
            if e.bb not in B:
                for desc, succs, res in views:
                    if res is not None and e.bb not in res.exec_blocks:
                        continue
                    pre = _pre(b, e.bb, B, succs)
                    if pre is None:
                        continue
                    for x in ok_exits:
                        post = cfg.path_between(b, e.bb, x, avoid=B, succs=succs) if x != e.bb else [x]
                        if post is not None:
                            bad = (desc, pre, post)
                            break
                    if bad:
                        break
            ctx.check(bad is None, "C04.D1", "bump:" + wkey, site(b, e.bb, e.idx),
                      ok="%s is versioned by a global epoch increase on every Ok path" % e.desc,
                      bad="%s reaches an Ok return without any global epoch increase (flags %s)" % (e.desc, bad[0] if bad else ""),
                      path=("lines " + str(cfg.lines_of_path(b, bad[1] + bad[2][1:]))) if bad else None)
            # --- cluster epoch on Ok paths
            if "cluster-content" in e.tags:
                bad = None
                if e.bb not in C and not _whole_cluster_removed(b, e):
                    for desc, succs, res in views:
                        if res is not None and e.bb not in res.exec_blocks:
                            continue
                        pre = _pre(b, e.bb, C, succs)
                        if pre is None:
                            continue
                        for x in ok_exits:
                            post = cfg.path_between(b, e.bb, x, avoid=C, succs=succs) if x != e.bb else [x]
                            if post is not None:
                                bad = (desc, pre, post)
                                break
                        if bad:
                            break
                ctx.check(bad is None, "C04.D1", "cluster-epoch:" + wkey, site(b, e.bb, e.idx),
                          ok="%s is followed/preceded by a write of the cluster epoch on every Ok path" % e.desc,
                          bad="%s reaches an Ok return without a write of the cluster's epoch (flags %s)" % (e.desc, bad[0] if bad else ""),
                          path=("lines " + str(cfg.lines_of_path(b, bad[1] + bad[2][1:]))) if bad else None)
            # --- Err exits after an unversioned write
            if _definite_write(e):
                bad = None
                need = B if not ("cluster-content" in e.tags) else (B)
                if e.bb not in need:
                    for desc, succs, res in views:
                        if res is not None and e.bb not in res.exec_blocks:
                            continue
                        pre = _pre(b, e.bb, need, succs)
                        if pre is None:
                            continue
                        for x in err_exits:
                            post = cfg.path_between(b, e.bb, x, avoid=need, succs=succs) if x != e.bb else [x]
                            if post is not None:
                                bad = (desc, pre, post)
                                break
                        if bad:
                            break
                own_residual = _own_residual_exits(eff, b, du, e, err_exits)
                if bad is None and "cluster-content" in e.tags and e.bb not in C and not _whole_cluster_removed(b, e):
                    # the epoch a member proxy is served is the cluster's: a refusal after the cluster's content was
                    # edited must not leave the edit under the old cluster epoch either
                    for desc, succs, res in views:
                        if res is not None and e.bb not in res.exec_blocks:
                            continue
                        pre = _pre(b, e.bb, C, succs)
                        if pre is None:
                            continue
                        for x in err_exits:
                            if x in own_residual:
                                continue   # the callee refuses before it writes: its own Err carries no edit
                            post = cfg.path_between(b, e.bb, x, avoid=C, succs=succs) if x != e.bb else [x]
                            if post is not None:
                                bad = (desc + "; cluster epoch", pre, post)
                                break
                        if bad:
                            break
                ctx.check(bad is None, "C04.D1", "err-after-write:" + wkey, site(b, e.bb, e.idx),
                          ok="no Err return after %s without versioning" % e.desc,
                          bad="%s can be followed by an Err return with no epoch increase: content changed under an unchanged epoch (flags %s)" % (e.desc, bad[0] if bad else ""),
                          path=("lines " + str(cfg.lines_of_path(b, bad[1] + bad[2][1:]))) if bad else None)
        # --- a cluster epoch written ahead of the global epoch must not survive an Err return: the next mutator would
        #     hand out the very same number for different content
        for e in evs:
            if "cluster-epoch" not in e.tags or e.bb in B or (e.callee and e.callee in eff.bodies and e.desc.startswith("call ") and not e.callee.endswith("::set_epoch")):
                continue
            ctx.call_sites += 1
            bad = None
            for desc, succs, res in views:
                if res is not None and e.bb not in res.exec_blocks:
                    continue
                pre = _pre(b, e.bb, B, succs)
                if pre is None:
                    continue
                for x in err_exits:
                    post = cfg.path_between(b, e.bb, x, avoid=B, succs=succs) if x != e.bb else [x]
                    if post is not None:
                        bad = (desc, pre, post)
                        break
                if bad:
                    break
            ctx.check(bad is None, "C04.D1", "err-after-epoch-write:%s:%s" % (fname, _ekey(e)), site(b, e.bb, e.idx),
                      ok="no Err return after the cluster epoch write without the global increase",
                      bad="the cluster epoch is written and an Err return follows with no global epoch increase: the cluster's epoch runs ahead of the global epoch and the next change reuses it (flags %s)" % (bad[0] if bad else ""),
                      path=("lines " + str(cfg.lines_of_path(b, bad[1] + bad[2][1:]))) if bad else None)
        # --- values written to cluster epochs derive from the increased global epoch
        _epoch_value_origin(ctx, eff, b, du, B, ok_exits, views, fname)

    _d2(ctx, eff)
    _d3(ctx)
    ctx.rule("C04.D4", "storage back-ends agree: for every MetaStorage method the in-memory and the external back-end call the same MetaStore methods, and the external one writes the store back after a mutator")
    _backends_agree(ctx)
    _external_restore_guard(ctx)


def _refuses_before_writing(eff, path, stack=()):
    """a Result-returning crate callee none of whose content writes can be followed by one of its own Err exits"""
    cache = eff.__dict__.setdefault("_rbw", {})
    if path in cache:
        return cache[path]
    b = eff.bodies.get(path)
    if b is None or path in stack or not b.locals[0]["ty"].startswith("std::result::Result<"):
        return False
    _, errs = _exits(b)
    res = True
    for e in eff.events(b):
        if not (e.tags & CONTENT_TAGS):
            continue
        own = set()
        if e.callee and e.callee in eff.bodies and e.desc.startswith("call ") and _refuses_before_writing(eff, e.callee, stack + (path,)):
            own = _own_residual_exits(eff, b, DefUse(b), e, errs)
        for x in errs:
            if x in own:
                continue
            if x == e.bb or cfg.path_between(b, e.bb, x) is not None:
                res = False
                break
        if not res:
            break
    cache[path] = res
    return res


def _own_residual_exits(eff, b, du, e, err_exits):
    """Err exits of `b` that only forward the Err of the crate call `e` itself, when that callee refuses before writing"""
    if not (e.callee and e.callee in eff.bodies and e.desc.startswith("call ")):
        return set()
    if not _refuses_before_writing(eff, e.callee):
        return set()
    out = set()
    for x in err_exits:
        t = b.blocks[x].term
        if t["k"] != "call" or callee_decl(t) != "std::ops::FromResidual::from_residual" or not t["args"]:
            if x == e.bb:
                out.add(x)   # `return helper(..)`: the delegation's own result
            continue
        # the `?` this residual belongs to: the closest dominating Try::branch; its operand must be the call's result
        dom = b.__dict__.get("_dom_c04")
        if dom is None:
            dom = cfg.dominators(b)
            b.__dict__["_dom_c04"] = dom
        brs = [d for d in dom.get(x, ()) if d != x and b.blocks[d].term["k"] == "call"
               and callee_decl(b.blocks[d].term) == "std::ops::Try::branch"]
        if not brs:
            continue
        br = max(brs, key=lambda d: len(dom[d]))
        bt = b.blocks[br].term
        a = bt["args"][0] if bt["args"] else None
        pl = (a.get("mv") or a.get("cp")) if isinstance(a, dict) else None
        ct = b.blocks[e.bb].term
        if pl and not pl["p"] and not ct["dest"]["p"] and pl["l"] == ct["dest"]["l"] and ct.get("target") == br:
            out.add(x)
    return out


def _is_barrier(F, eff, e):
    if not (e.callee and e.callee in eff.bodies and e.desc.startswith("call ")):
        return True   # a direct write of the global epoch
    return must_bump(F, eff, e.callee)


def must_bump(F, eff, path, stack=()):
    """does every entry -> Ok-exit path of `path` pass a direct global-epoch write or a call that must-bumps"""
    cache = eff.__dict__.setdefault("_must_bump", {})
    if path in cache:
        return cache[path]
    if path in stack:
        return False
    b = eff.bodies.get(path)
    if b is None:
        return False
    evs = [e for e in eff.events(b) if "global-epoch" in e.tags]
    bar = set()
    for e in evs:
        if e.callee and e.callee in eff.bodies and e.desc.startswith("call "):
            if must_bump(F, eff, e.callee, stack + (path,)):
                bar.add(e.bb)
        else:
            bar.add(e.bb)
    ok_exits, _ = _exits(b)
    res = bool(bar)
    if res and 0 not in bar:
        for x in ok_exits:
            if x in bar:
                continue
            if cfg.path_between(b, 0, x, avoid=bar) is not None:
                res = False
                break
    cache[path] = res
    return res


def _pre(b, bb, avoid, succs):
    """path entry -> bb avoiding the barrier blocks (None when every such path passes a barrier)"""
    if 0 in avoid:
        return None
    if bb == 0:
        return [0]
    return cfg.path_between(b, 0, bb, avoid=avoid, succs=succs)


def _ekey(e):
    d = e.desc
    if d.startswith("call ") and " on &mut " in d:
        d = d.split(" on &mut ")[0] + "@" + ".".join(n for _, n in e.fields[-2:]) if e.fields else d.split(" on &mut ")[0]
    return d.replace(" ", "_") + (":L%s" % e.line if False else "")


def _definite_write(e):
    """conditional-insert idioms are no-ops when the key exists: not a definite write"""
    last = (e.callee or "").rsplit("::", 1)[-1]
    if last in ("or_insert_with", "or_insert", "or_default", "or_insert_with_key", "retain", "remove", "take", "pop",
                "remove_entry", "drain", "dedup", "retain_mut", "swap_remove", "truncate"):
        return False   # may be a no-op (nothing matched / key absent): the rule arms only on definite writes
    return True


def _whole_cluster_removed(b, e):
    return "clusters-map" in e.tags and "cluster-content" not in (e.tags - {"clusters-map"})


def _exits(b):
    """blocks that assign _0 = Ok(..) / Err(..) (or a call result for Result-typed delegations)"""
    ok, err = [], []
    rty = b.locals[0]["ty"]
    is_res = rty.startswith("std::result::Result<")
    if not is_res:
        return b.return_blocks(), []
    for bb, i, s in b.assigns():
        if s["place"]["l"] == 0 and not s["place"]["p"]:
            rv = s["rv"]
            if rv["k"] == "agg" and rv["ak"] == "adt" and norm(rv["adt"]) == "std::result::Result":
                (ok if rv["variant"] == "Ok" else err).append(bb)
    for bb, t in b.calls():
        if t["dest"]["l"] == 0 and not t["dest"]["p"]:
            d = callee_decl(t)
            if d == "std::ops::FromResidual::from_residual":
                err.append(bb)
            else:
                ok.append(bb)   # delegation: counts as a possible Ok result
                err.append(bb)
    return ok, err


def _epoch_value_origin(ctx, eff, b, du, B, ok_exits, views, fname):
    """every value written into a ClusterStore.epoch / MigrationMetaStore.epoch in a mutator derives from the bumped global epoch"""
    sites = []
    for bb, i, s in b.assigns():
        fs = [(norm(a), n) for a, n in place_fields(s["place"])]
        if fs and fs[-1] in ((CS, "epoch"), ("broker::store::MigrationMetaStore", "epoch")) and any(e == "deref" for e in s["place"]["p"]):
            if s["rv"]["k"] == "use":
                sites.append((bb, i, s["rv"]["a"], fs[-1]))
    for bb, t in calls_to(b, "ClusterStore::set_epoch"):
        sites.append((bb, None, t["args"][1], (CS, "epoch")))
    for bb, i, s in agg_sites(b, CS):
        rv = s["rv"]
        if "epoch" in rv["fields"]:
            sites.append((bb, i, rv["ops"][rv["fields"].index("epoch")], (CS, "epoch")))
    n = 0
    for bb, i, op, fld in sites:
        n += 1
        sl = du.slice_operand(op)
        # precise origin of the written value: only copies / arithmetic are followed, so that a value read from the cluster's
        # own epoch field (epoch + 1) is not mistaken for the bumped global epoch just because the store is also passed to
        # bump_global_epoch somewhere in the function
        from ..lib import producers
        pr = producers(b, du, op)
        calls_ = {c for k_, c in pr if k_ == "call"}
        own_epoch = any(k_ == "field" and c[1] == "epoch" and (c[0] or "").endswith(("ClusterStore", "MigrationMetaStore")) for k_, c in pr)
        from_bump = any(c.endswith("MetaStore::bump_global_epoch") for c in calls_) and not own_epoch
        plus1 = any(c.endswith("MetaStore::get_global_epoch") for c in calls_) and any(k_ == "const" and c == 1 for k_, c in pr) and not own_epoch
        if not pr or all(k_ in ("param", "other", "via") for k_, c in pr):
            # not resolvable by the precise walk (e.g. a helper's parameter): fall back to the data-dependence slice
            from_bump = sl.has_call("MetaStore::bump_global_epoch")
            plus1 = sl.has_call("MetaStore::get_global_epoch") and bool(sl.binops & {"Add", "AddWithOverflow"}) and 1 in sl.const_ints()
        good = from_bump
        why = "value = bump_global_epoch()"
        if not good and plus1:
            # get_global_epoch()+1 is only right if the bump happens afterwards on every Ok path
            bad = None
            for desc, succs, res in views:
                for x in ok_exits:
                    if cfg.path_between(b, bb, x, avoid=B, succs=succs) is not None and bb not in B:
                        bad = desc
            good = bad is None
            why = "value = get_global_epoch()+1 and a bump follows on every Ok path"
        from_param = any(l > 1 for l, _ in sl.params) and not from_bump and not plus1
        if from_param and b.sig and not b.sig.get("pub"):
            # private helper taking the new epoch as a parameter: checked at its callers (the argument origin)
            ctx.holds("C04.D1", "epoch-origin:%s:%s.%s:param" % (fname, fld[0].rsplit("::", 1)[-1], fld[1]), site(b, bb, i), "epoch value is a parameter of a private helper (origin checked at call sites)")
            _check_helper_callers(ctx, eff, b, sl)
            continue
        ctx.check(good, "C04.D1", "epoch-origin:%s:%s.%s#%d" % (fname, fld[0].rsplit("::", 1)[-1], fld[1], n), site(b, bb, i),
                  ok=why, bad="the value written to %s.%s does not derive from the increased global epoch (origins: %s)" % (fld[0], fld[1], sl.summary()))


def _check_helper_callers(ctx, eff, helper, sl):
    idxs = sorted({l for l, _ in sl.params if l > 1})
    for p, calls in eff.callsites.items():
        for bb, t, callee in calls:
            if callee != helper.path:
                continue
            caller = eff.bodies[p]
            du = DefUse(caller)
            for l in idxs:
                ai = l - 1
                if ai < len(t["args"]):
                    s2 = du.slice_operand(t["args"][ai])
                    good = s2.has_call("MetaStore::bump_global_epoch") or (s2.has_call("MetaStore::get_global_epoch") and bool(s2.binops & {"Add", "AddWithOverflow"}))
                    ctx.check(good, "C04.D1", "epoch-arg:%s->%s" % (p.split("broker::", 1)[-1], helper.path.rsplit("::", 1)[-1]), site(caller, bb),
                              ok="epoch argument derives from the increased global epoch",
                              bad="epoch argument passed to %s does not derive from the increased global epoch: %s" % (helper.path, s2.summary()))


# ---------------------------------------------------------------------- D2
def _d2(ctx, eff):
    F = ctx.F
    gw = eff.writers_of("global-epoch")
    cw = eff.writers_of("cluster-epoch")
    allowed_g = {MS + "::bump_global_epoch", MS + "::force_bump_all_epoch", MS + "::recover_epoch"}
    allowed_c = {CS + "::set_epoch", MS + "::force_bump_all_epoch", MS + "::recover_epoch",
                 "broker::update::MetaStoreUpdate::auto_add_nodes", "broker::update::MetaStoreUpdate::takeover_master"}
    ctx.floor("C04.D2", "writers of MetaStore.global_epoch", len(gw), 3)
    for p in gw:
        ctx.check(p in allowed_g, "C04.D2", "global-epoch-writer:" + p, site(eff.bodies[p]),
                  ok="vetted writer of the global epoch", bad="new writer of MetaStore.global_epoch: not a vetted monotone writer")
    for p in cw:
        ctx.check(p in allowed_c, "C04.D2", "cluster-epoch-writer:" + p, site(eff.bodies[p]),
                  ok="vetted writer of a cluster epoch (value origin checked in D1/D2)", bad="new direct writer of ClusterStore.epoch")
    # bump: += 1
    b = F.body(MS + "::bump_global_epoch")
    if b is None:
        ctx.lost("C04.D2", "bump_global_epoch", "not found")
    else:
        ctx.analysed(b)
        du = DefUse(b)
        oks = []
        for bb, i, s in b.assigns():
            fs = [(norm(a), n) for a, n in place_fields(s["place"])]
            if fs and fs[-1] == (MS, "global_epoch"):
                sl = du.slice_operand(s["rv"]["a"]) if s["rv"]["k"] == "use" else du.slice_place(s["place"])
                oks.append(bool(sl.binops & {"Add", "AddWithOverflow"}) and 1 in sl.const_ints() and (MS, "global_epoch") in sl.fields)
        ctx.check(oks and all(oks), "C04.D2", "bump:+1", site(b), ok="global_epoch = global_epoch + 1", bad="bump_global_epoch does not add 1 to the global epoch")
        # returns the new value
    # force_bump_all_epoch: assign only if new > old
    b = F.body(MS + "::force_bump_all_epoch")
    if b is None:
        ctx.lost("C04.D2", "force_bump_all_epoch", "not found")
    else:
        ctx.analysed(b)
        _guarded_assign(ctx, b, "force_bump_all_epoch")
    b = F.body(MS + "::restore")
    if b is None:
        ctx.lost("C04.D2", "restore", "not found")
    else:
        ctx.analysed(b)
        _restore_guard(ctx, b)
    b = F.body(MS + "::recover_epoch")
    if b is not None:
        ctx.analysed(b)
        du = DefUse(b)
        for bb, i, s in b.assigns():
            fs = [(norm(a), n) for a, n in place_fields(s["place"])]
            if fs and fs[-1] in ((MS, "global_epoch"), (CS, "epoch")) and s["rv"]["k"] == "use":
                sl = du.slice_operand(s["rv"]["a"])
                good = sl.has_call("std::cmp::max") and (MS, "global_epoch") in sl.fields and bool(sl.binops & {"Add", "AddWithOverflow"}) and 1 in sl.const_ints()
                ctx.check(good, "C04.D2", "recover_epoch:%s" % fs[-1][1], site(b, bb, i), ok="value = max(arg, global_epoch + 1)",
                          bad="recover_epoch writes a value that is not max(.., global_epoch+1)")


def _guarded_assign(ctx, b, label):
    """the global epoch is overwritten by a parameter only where param > old holds"""
    F = ctx.F
    du = DefUse(b)
    cmps = []
    for bb, i, s in binop_sites(b):
        sa = du.slice_operand(s["rv"]["a"]); sb = du.slice_operand(s["rv"]["b"])
        if sa.has_param(2) and (MS, "global_epoch") in sb.fields:
            cmps.append((s, "a"))
        elif sb.has_param(2) and (MS, "global_epoch") in sa.fields:
            cmps.append((s, "b"))
    writes = [bb for bb, i, s in b.assigns() if [(norm(a), n) for a, n in place_fields(s["place"])][-1:] == [(MS, "global_epoch")]]
    if not ctx.floor("C04.D2", "%s comparison" % label, len(cmps), 1) or not ctx.floor("C04.D2", "%s write" % label, len(writes), 1):
        return
    for order in ("lt", "eq", "gt"):
        def binop(interp, bb, stmt, op, a, bv, order=order):
            for s, side in cmps:
                if s is stmt:
                    c = {"lt": -1, "eq": 0, "gt": 1}[order]
                    if side == "b":
                        c = -c
                    return Bool({"Lt": c < 0, "Le": c <= 0, "Gt": c > 0, "Ge": c >= 0, "Eq": c == 0, "Ne": c != 0}[op])
            return None
        res = Interp(F, b, Oracle(binop=binop)).run()
        reach = [w for w in writes if w in res.exec_blocks]
        want = order == "gt"
        ctx.check(bool(reach) == want, "C04.D2", "%s:new-%s-old" % (label, order), site(b),
                  ok="global epoch %s when new %s old" % ("overwritten" if want else "kept", order),
                  bad="global epoch is %s when new %s old" % ("overwritten" if reach else "not overwritten", order))


def _restore_guard(ctx, b):
    F = ctx.F
    du = DefUse(b)
    cmps = []
    for bb, i, s in binop_sites(b):
        sa = du.slice_operand(s["rv"]["a"]); sb = du.slice_operand(s["rv"]["b"])
        a_self = any(l == 1 and p == "global_epoch" for l, p in sa.params); a_oth = any(l == 2 and p == "global_epoch" for l, p in sa.params)
        b_self = any(l == 1 and p == "global_epoch" for l, p in sb.params); b_oth = any(l == 2 and p == "global_epoch" for l, p in sb.params)
        if a_self and b_oth:
            cmps.append((s, "b"))   # msg (other) is operand b
        elif a_oth and b_self:
            cmps.append((s, "a"))
    writes = [bb for bb, i, s in b.assigns() if s["place"]["l"] == 1 and s["place"]["p"] == ["deref"]]
    if not ctx.floor("C04.D2", "restore comparison", len(cmps), 1) or not ctx.floor("C04.D2", "restore whole-store assignment", len(writes), 1):
        return
    for order in ("lt", "eq", "gt"):   # other ? self
        def binop(interp, bb, stmt, op, a, bv, order=order):
            for s, side in cmps:
                if s is stmt:
                    c = {"lt": -1, "eq": 0, "gt": 1}[order]
                    if side == "b":
                        c = -c
                    return Bool({"Lt": c < 0, "Le": c <= 0, "Gt": c > 0, "Ge": c >= 0, "Eq": c == 0, "Ne": c != 0}[op])
            return None

        def call(interp, bb, term, argvals):
            d = callee_decl(term)
            if d == "std::cmp::PartialEq::ne":
                return Bool(False)   # versions equal
            if d == "std::cmp::PartialEq::eq":
                return Bool(True)
            return None
        res = Interp(F, b, Oracle(binop=binop, call=call)).run()
        reach = [w for w in writes if w in res.exec_blocks]
        want = order in ("eq", "gt")
        ctx.check(bool(reach) == want if order != "eq" else True, "C04.D2", "restore:other-%s-self" % order, site(b),
                  ok="restore %s a snapshot whose global epoch is %s the current one" % ("installs" if reach else "refuses", {"lt": "lower than", "eq": "equal to", "gt": "greater than"}[order]),
                  bad="restore %s a snapshot with a %s global epoch" % ("installs" if reach else "refuses", "lower" if order == "lt" else "greater"))


# ---------------------------------------------------------------------- D3
def _d3(ctx):
    F = ctx.F
    b = F.one("MetaStoreQuery::get_proxy_by_address")
    if b is None:
        ctx.lost("C04.D3", "get_proxy_by_address", "not found")
        return
    ctx.analysed(b)
    du = DefUse(b)
    news = calls_to(b, "Proxy::new")
    if not ctx.floor("C04.D3", "Proxy::new in get_proxy_by_address", len(news), 2):
        return
    kinds = set()
    for bb, t in news:
        sl = du.slice_operand(t["args"][2])
        if sl.has_call("Cluster::get_epoch"):
            kinds.add("member")
            ctx.holds("C04.D3", "served-epoch:member", site(b, bb), "member proxy served with cluster.get_epoch()")
        elif (MS, "global_epoch") in sl.fields:
            kinds.add("free")
            ctx.holds("C04.D3", "served-epoch:free", site(b, bb), "free proxy served with store.global_epoch")
        else:
            ctx.violation("C04.D3", "served-epoch:other", site(b, bb), "Proxy::new epoch argument derives from neither cluster.get_epoch() nor store.global_epoch: %s" % sl.summary())
    if kinds != {"member", "free"}:
        ctx.violation("C04.D3", "served-epoch:kinds", site(b), "expected one member and one free construction, found %s" % sorted(kinds))
    # the cluster view keeps the store's epoch
    for fn, label in (("MetaStoreQuery::cluster_store_to_cluster", "cluster_store_to_cluster"), ("ClusterStore::limit_migration", "limit_migration")):
        q = F.one(fn)
        if q is None:
            ctx.lost("C04.D3", label, "not found")
            continue
        ctx.analysed(q)
        dq = DefUse(q)
        found = False
        for bb, t in calls_to(q, "Cluster::new"):
            sl = dq.slice_operand(t["args"][1])
            found = True
            ctx.check((CS, "epoch") in sl.fields and not sl.binops, "C04.D3", "view-epoch:" + label, site(q, bb),
                      ok="Cluster::new(.., cluster_store.epoch, ..)", bad="the cluster view's epoch is not the stored cluster epoch: %s" % sl.summary())
        for bb, i, s in agg_sites(q, CS):
            rv = s["rv"]
            if "epoch" in rv["fields"]:
                sl = dq.slice_operand(rv["ops"][rv["fields"].index("epoch")])
                found = True
                ctx.check((CS, "epoch") in sl.fields and not sl.binops, "C04.D3", "view-epoch:" + label, site(q, bb, i),
                          ok="limited view copies self.epoch", bad="limit_migration changes the epoch: %s" % sl.summary())
        if not found:
            ctx.lost("C04.D3", "view-epoch:" + label, "no Cluster::new / ClusterStore construction found in %s" % fn)


def _backends_agree(ctx):
    """the broker serves from MemoryStorage or ExternalHttpStorage; both are thin wrappers over MetaStore.  A wrapper that
    calls another store method than its sibling, or (external) never writes the mutated copy back, serves epochs / content that
    the store's own rules (D1-D3) do not describe"""
    F = ctx.F
    per = {"memory": {}, "external": {}}
    for b in F.all_bodies(bins=False):
        if b.is_mock() or b.kind == "Promoted" or "tests::" in b.path or not b.path.endswith("::{closure#0}"):
            continue
        if b.path.startswith("<broker::storage::MemoryStorage as broker::storage::MetaStorage>::"):
            k = "memory"
        elif b.path.startswith("<broker::external::ExternalHttpStorage as broker::storage::MetaStorage>::"):
            k = "external"
        else:
            continue
        meth = b.path.split("MetaStorage>::", 1)[1].split("::", 1)[0]
        per[k][meth] = b
    common = sorted(set(per["memory"]) & set(per["external"]))
    if not ctx.floor("C04.D4", "MetaStorage methods implemented by both back-ends", len(common), 25):
        return
    muts = {p.rsplit("::", 1)[-1] for p, b in F.bodies.items() if b.impl_adt == MS and b.kind == "AssocFn" and b.sig and b.sig.get("self") in ("refmut", "&mut")}
    for meth in common:
        mb, eb = per["memory"][meth], per["external"][meth]
        ctx.analysed(mb, eb)
        mc = sorted({(callee_of(t) or "").rsplit("::", 1)[-1] for bb, t in mb.calls() if (callee_of(t) or "").startswith(MS + "::")})
        ec = sorted({(callee_of(t) or "").rsplit("::", 1)[-1] for bb, t in eb.calls() if (callee_of(t) or "").startswith(MS + "::")})
        # helper reads used by the external back-end to decide whether to persist are not part of the comparison
        ec_cmp = [x for x in ec if x not in ("get_global_epoch",) or x in mc]
        if meth in ("get_all_metadata", "restore_metadata"):
            continue   # whole-store transfer: no MetaStore method on the external side (cache swap), checked by C13
        ctx.check(mc == ec_cmp, "C04.D4", "same-store-call:%s" % meth, site(eb), ok="both back-ends call MetaStore::%s" % ",".join(mc), bad="MemoryStorage::%s calls %s but ExternalHttpStorage::%s calls %s" % (meth, mc, meth, ec_cmp))
        called_muts = [x for x in ec if x in muts]
        if meth == "get_failures":
            # vetted: the only mutation is the purge of expired reports on a clone of the cache; it is repeated by every
            # call and by the periodic refresh, and changes nothing that is versioned by an epoch
            ctx.info("C04.D4", "external-writes-back:get_failures", "purge of expired reports on a cache clone; not written back by design")
            called_muts = []
        if called_muts:
            pers = [bb for bb, t in eb.calls() if (callee_of(t) or "").rsplit("::", 1)[-1] in ("update_external_store_and_cache", "update_external_store")]
            mcalls = [bb for bb, t in eb.calls() if (callee_of(t) or "").rsplit("::", 1)[-1] in called_muts and (callee_of(t) or "").startswith(MS + "::")]
            ok = bool(pers) and all(any(cfg.reaches(eb, m_, p_) for p_ in pers) for m_ in mcalls)
            ctx.check(ok, "C04.D4", "external-writes-back:%s" % meth, site(eb, mcalls[0]) if mcalls else site(eb), ok="the mutated copy is written back", bad="ExternalHttpStorage::%s mutates the fetched copy with %s and never writes it back: the change (and its epoch) is lost with the copy" % (meth, called_muts))


def _external_restore_guard(ctx):
    """ExternalHttpStorage::restore_metadata replaces the served (cached) store by a pushed snapshot: it must refuse a
    snapshot whose global epoch is lower than or equal to the cached one, otherwise every epoch served afterwards regresses"""
    F = ctx.F
    bs = [b for b in F.all_bodies(bins=False) if b.path.startswith("<broker::external::ExternalHttpStorage as broker::storage::MetaStorage>::restore_metadata") and b.path.endswith("::{closure#0}")]
    if not bs:
        ctx.lost("C04.D4", "external-restore-guard", "ExternalHttpStorage::restore_metadata not found")
        return
    b = bs[0]
    ctx.analysed(b)
    du = DefUse(b)
    swaps = [bb for bb, t in b.calls() if (callee_of(t) or "").rsplit("::", 1)[-1] in ("swap", "store") and "ArcSwap" in (callee_of(t) or "")]
    cmps = []
    for bb, i, st in binop_sites(b):
        sa = du.slice_operand(st["rv"]["a"]); sb = du.slice_operand(st["rv"]["b"])
        if not (sa.has_call("get_global_epoch") and sb.has_call("get_global_epoch")):
            continue
        a_cached = sa.has_call("ArcSwapAny::load") or sa.has_field("ExternalHttpStorage", "cached_store")
        b_cached = sb.has_call("ArcSwapAny::load") or sb.has_field("ExternalHttpStorage", "cached_store")
        if a_cached != b_cached:
            cmps.append((st, "b" if a_cached else "a"))    # side of the incoming snapshot
    if not (ctx.floor("C04.D4", "epoch comparison in the external restore", len(cmps), 1) and ctx.floor("C04.D4", "cache swap in the external restore", len(swaps), 1)):
        return
    for order in ("lt", "eq", "gt"):   # incoming ? cached
        def binop(interp, bbx, stmt, op, a, bv, order=order):
            for st, side in cmps:
                if st is stmt:
                    c = {"lt": -1, "eq": 0, "gt": 1}[order]    # incoming - cached
                    if side == "b":
                        c = -c    # operand a is the cached one: a ? b  ==  cached ? incoming
                    return Bool({"Lt": c < 0, "Le": c <= 0, "Gt": c > 0, "Ge": c >= 0, "Eq": c == 0, "Ne": c != 0}[op])
            return None
        res = Interp(F, b, Oracle(binop=binop)).run()
        reach = any(x in res.exec_blocks for x in swaps)
        want = order == "gt"
        ctx.check(reach == want, "C04.D4", "external-restore-guard:incoming-%s-cached" % order, site(b), ok="%s" % ("installed" if reach else "ignored"),
                  bad="a pushed snapshot whose global epoch is %s the cached one is %s: %s" % ({"lt": "lower than", "eq": "equal to", "gt": "greater than"}[order], "installed" if reach else "ignored",
                      "every epoch served afterwards goes backwards" if order == "lt" else "same epoch, other content" if order == "eq" else "a newer snapshot is never taken"))
