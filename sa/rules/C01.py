"""C01 - every slot has exactly one owner in every broker view (DESIGN §5 C01): structural
necessary conditions only; the partition arithmetic itself is not decided."""
from ..facts import norm, callee_of, callee_decl, place_fields
from ..defuse import DefUse
from ..effects import Effects
from ..sccp import Interp, Oracle, Int, Bool, Agg, TOP
from .. import cfg
from ..lib import m, calls_to, agg_sites, site, agg_variant_of, binop_sites
from . import _chunktables
from .C06 import tables_rules, to_slot_range_rule
from .C04 import classify, classify_type

EXPLANATION = (
    "Necessary structural conditions of the exactly-one-owner property: (D1) the owner/role/proxy index tables of the view builder "
    "and of the store helpers agree (exhaustive constant propagation), so replicas own nothing and every part is attached at exactly "
    "one master node; to_slot_range plumbs each side's indexes; (D2) a migration is always recorded as a twin pair "
    "(migrating entry at the source position, importing entry at the destination position, same ranges and meta) in assign_dst_slots "
    "and in limit_migration, and deferred migrations are merged back into the *source* stable slots; (D3) commit_migration matches "
    "by (range list, epoch, direction) - truth tables of its four predicates - requires both twins before the first write, and merges "
    "the removed importing ranges into the chunk they were removed from; (D4) only broker::{store,update,migrate} write chunk content "
    "(lib + bins). The arithmetic of remove_slots_from_src* and RangeList::compact over all histories is NOT decided."
)
ASSUMPTIONS = ["slot arithmetic (average/remainder, compact, merge) is not decided by this check"]
TRUSTED = []

MIG = "broker::migrate::MetaStoreMigrate"
MSRS = "broker::store::MigrationSlotRangeStore"

MUTANTS = [
    {"name": "free-chunks-released-during-migration", "file": "src/broker/update.rs", "after": "pub fn auto_delete_free_nodes(", "old": "                    return Err(MetaStoreError::MigrationRunning);", "new": "                    debug!(\"migration running\");", "expect": "C01.D5"},
    {"name": "assign-importing-to-src", "file": "src/broker/migrate.rs", "old": "                    .get_mut(meta.dst_chunk_index)\n                    .expect(\"assign_dst_slots\");\n                let migrating_slots = dst_chunk\n                    .migrating_slots\n                    .get_mut(meta.dst_chunk_part)",
     "new": "                    .get_mut(meta.dst_chunk_index)\n                    .expect(\"assign_dst_slots\");\n                let migrating_slots = dst_chunk\n                    .migrating_slots\n                    .get_mut(meta.src_chunk_part)", "expect": "C01.D2:assign_dst_slots"},
    {"name": "limit-drop-importing-push", "file": "src/broker/store.rs", "old": "                            .expect(\"limit_migration\")\n                            .push(importing_slot_range_store);\n", "new": "                            .expect(\"limit_migration\");\n                        let _ = importing_slot_range_store;\n", "expect": "C01.D2"},
    {"name": "limit-deferred-merged-into-dst", "file": "src/broker/store.rs", "old": "                            .get_mut(meta.src_chunk_index)\n                            .and_then(|chunk| chunk.stable_slots.get_mut(meta.src_chunk_part))", "new": "                            .get_mut(meta.dst_chunk_index)\n                            .and_then(|chunk| chunk.stable_slots.get_mut(meta.dst_chunk_part))", "expect": "C01.D2:limit_migration:deferred"},
    {"name": "commit-find-ignores-direction", "file": "src/broker/migrate.rs", "old": "                        && slot_range_store.meta.epoch == task_epoch\n                        && !slot_range_store.is_migrating\n", "new": "                        && slot_range_store.meta.epoch == task_epoch\n", "expect": "C01.D3:predicate"},
    {"name": "commit-retain-ignores-meta", "file": "src/broker/migrate.rs", "old": "                            && slot_range_store.range_list == task.slot_range.range_list\n                            && slot_range_store.meta == meta)", "new": "                            && slot_range_store.range_list == task.slot_range.range_list)", "expect": "C01.D3:predicate"},
    {"name": "query-writes-store", "file": "src/broker/store.rs", "old": "    pub fn get_failed_proxies(&self) -> Vec<String> {", "new": "    pub fn drop_first_chunk(&mut self, name: &ClusterName) {\n        if let Some(c) = self.clusters.get_mut(name) {\n            c.chunks.truncate(1);\n        }\n    }\n\n    pub fn get_failed_proxies(&self) -> Vec<String> {", "expect": "C01.D4"},
    {"name": "tables-first-slot-index", "file": "src/broker/query.rs", "old": "ChunkRolePosition::FirstChunkMaster => (0, 1),", "new": "ChunkRolePosition::FirstChunkMaster => (0, 2),", "expect": "C01.D1"},
]


def run(ctx):
    F = ctx.F
    ctx.rule("C01.D1", "owner/role/proxy/peer index tables agree between view builder and store helpers (3 positions x 4 nodes x 2 parts); to_slot_range side plumbing", exhaustive=True)
    ctx.rule("C01.D2", "twin construction: migrating entry at (src index, src part) and importing entry at (dst index, dst part) with the same ranges and meta, in assign_dst_slots and limit_migration; deferred migrations merged into the source's stable slots")
    ctx.rule("C01.D3", "commit_migration: predicate truth tables (range, epoch/meta, direction), both twins found before the first write, removed importing ranges merged into the same chunk")
    ctx.rule("C01.D4", "who-may-write chunk content: only broker::{store,update,migrate} (lib + bins); query code writes nothing")
    ctx.rule("C01.D7", "shared with C10 / C06: structural changes are refused while a migration runs and only slot-less chunks are released (otherwise twins lose their partner or slots their owner); a failover re-issues both twins of every migration it touches")
    ctx.rule("C01.D5", "chunk indexes named by migration metas stay valid: every index-shifting operation on ClusterStore.chunks (retain / remove / sort / insert / truncate ...) is unreachable while a migration is running")
    T = _chunktables.extract(ctx, "C01.D1")
    if T is not None:
        tables_rules(ctx, "C01.D1", T)
    to_slot_range_rule(ctx, "C01.D1")
    _assign(ctx)
    _limit(ctx)
    _commit(ctx)
    _who_may_write(ctx)
    _index_stability(ctx)
    from .C02 import broker_view_lossless
    ctx.rule("C01.D6", "served node / peer lists are built without element-dropping operations (truncating adaptors, keyed collections that overwrite)")
    broker_view_lossless(ctx, "C01.D6")
    from ..engine import AliasCtx
    from . import C10 as _c10, C06 as _c06
    _c10.run(AliasCtx(ctx, "C01.D7", only={"C10.D1", "C10.D2"}))
    _c06.run(AliasCtx(ctx, "C01.D7", only={"C06.D2"}))


def _side_of(sl):
    names = {n for a, n in sl.fields}
    src = "src_chunk_index" in names and "src_chunk_part" in names
    dst = "dst_chunk_index" in names and "dst_chunk_part" in names
    part_src = "src_chunk_index" in names or "src_chunk_part" in names
    part_dst = "dst_chunk_index" in names or "dst_chunk_part" in names
    if src and not part_dst:
        return "src"
    if dst and not part_src:
        return "dst"
    return "mixed:%s" % sorted(n for n in names if "chunk_" in n)


def _assign(ctx):
    F = ctx.F
    b = F.one(MIG + "::assign_dst_slots")
    if b is None:
        ctx.lost("C01.D2", "assign_dst_slots", "function not found")
        return
    ctx.analysed(b)
    du = DefUse(b)
    aggs = agg_sites(b, MSRS)
    pushes = calls_to(b, "Vec::push")
    if not ctx.floor("C01.D2", "MigrationSlotRangeStore constructions in assign_dst_slots", len(aggs), 2):
        return
    seen = {}
    for bb, i, s in aggs:
        rv = s["rv"]
        flag = rv["ops"][rv["fields"].index("is_migrating")]
        val = flag.get("c", {}).get("int")
        # the push that consumes this aggregate
        tgt = None
        for pb, t in pushes:
            sl = du.slice_operand(t["args"][1])
            if s["place"]["l"] in sl.locals:
                tgt = (pb, t)
        if tgt is None:
            ctx.violation("C01.D2", "assign_dst_slots:entry-not-pushed:is_migrating=%s" % val, site(b, bb, i), "a migration entry is built and never pushed")
            continue
        recv = du.slice_operand(tgt[1]["args"][0])
        side = _side_of(recv)
        names = {n for a, n in recv.fields}
        want = "src" if val == 1 else "dst"
        ctx.check(side == want and "migrating_slots" in names, "C01.D2", "assign_dst_slots:position:is_migrating=%s" % val, site(b, tgt[0]),
                  ok="%s entry pushed to migrating_slots at (%s_chunk_index, %s_chunk_part)" % ("migrating" if val else "importing", want, want),
                  bad="the %s entry is pushed at the %s position (expected %s)" % ("migrating" if val else "importing", side, want))
        rl = du.slice_operand(rv["ops"][rv["fields"].index("range_list")])
        mt = du.slice_operand(rv["ops"][rv["fields"].index("meta")])
        seen[val] = (rl, mt)
    ctx.check(set(seen) == {0, 1}, "C01.D2", "assign_dst_slots:both-directions", site(b), ok="one migrating and one importing entry per migration",
              bad="entries built with is_migrating in %s" % sorted(seen))
    if set(seen) == {0, 1}:
        r_true = seen[1][0].locals & seen[0][0].locals
        m_true = seen[1][1].locals & seen[0][1].locals
        named = lambda ls: {l for l in ls if b.local_name(l)}
        ctx.check(bool(named(r_true)) and bool(named(m_true)), "C01.D2", "assign_dst_slots:twins-identical", site(b),
                  ok="both twins carry the same `ranges` and `meta`", bad="the twins do not share the same ranges/meta locals")
    ctx.check(bool(calls_to(b, "compact_slots")), "C01.D2", "assign_dst_slots:compact", site(b), ok="compact_slots follows", bad="compact_slots is not called")


def _limit(ctx):
    F = ctx.F
    b = F.one("ClusterStore::limit_migration")
    if b is None:
        ctx.lost("C01.D2", "limit_migration", "function not found")
        return
    ctx.analysed(b)
    du = DefUse(b)
    pushes = [(bb, t) for bb, t in calls_to(b, "Vec::push") if MSRS in norm((t.get("atys") or ["", ""])[1])]
    merges = calls_to(b, "RangeList::merge_another")
    ok = ctx.floor("C01.D2", "pushes of migration entries in limit_migration", len(pushes), 2)
    ok &= ctx.floor("C01.D2", "merge of a deferred migration in limit_migration", len(merges), 1)
    if not ok:
        return
    kinds = {}
    for bb, t in pushes:
        recv = du.slice_operand(t["args"][0])
        side = _side_of(recv)
        names = {n for a, n in recv.fields}
        val = du.slice_operand(t["args"][1])
        # the importing twin is a clone whose is_migrating was overwritten with false
        flipped = False
        for l in val.locals:
            for d in du.defs.get(l, []):
                if d[0] == "assign" and d[3]["place"]["p"] and [e.get("name") for e in d[3]["place"]["p"] if isinstance(e, dict)][-1:] == ["is_migrating"]:
                    c = d[3]["rv"].get("a", {}).get("c", {})
                    if c.get("int") == 0:
                        flipped = True
        kind = "importing" if flipped else "migrating"
        want = "dst" if flipped else "src"
        kinds[kind] = side
        ctx.check(side == want and "migrating_slots" in names, "C01.D2", "limit_migration:kept:%s" % kind, site(b, bb),
                  ok="%s entry kept at the %s position" % (kind, want), bad="%s entry is pushed at the %s position (expected %s)" % (kind, side, want))
    ctx.check(set(kinds) == {"migrating", "importing"}, "C01.D2", "limit_migration:kept-pair", site(b), ok="kept migrations keep both twins",
              bad="a kept migration keeps only %s" % sorted(kinds))
    dom = cfg.dominators(b)
    for bb, t in merges:
        recv = du.slice_operand(t["args"][0])
        side = _side_of(recv)
        names = {n for a, n in recv.fields}
        ctx.check(side == "src" and "stable_slots" in names, "C01.D2", "limit_migration:deferred-merged-into-source", site(b, bb),
                  ok="deferred ranges return to stable_slots at the source position", bad="deferred ranges are merged into the %s position (fields %s)" % (side, sorted(n for n in names if "slots" in n)))
        arg = du.slice_operand(t["args"][1])
        ctx.check(arg.has_field("MigrationSlotRangeStore", "range_list"), "C01.D2", "limit_migration:deferred-ranges", site(b, bb), ok="merges the entry's range list", bad="merge_another is not given the entry's range list")
        # kept and deferred are alternatives: no push is dominated by the merge and vice versa
        ctx.check(all(bb not in dom.get(pb, ()) for pb, _ in pushes) and all(pb not in dom.get(bb, ()) for pb, _ in pushes), "C01.D2", "limit_migration:exclusive-branches", site(b, bb),
                  ok="a migration is either kept (pair) or deferred (merged back), never both", bad="merge and push lie on the same path")
    # importing entries are skipped: they are re-created from their migrating twin
    reads = [x for x in b.assigns() if x[2]["rv"]["k"] == "use" and [e.get("name") for e in (x[2]["rv"]["a"].get("cp") or x[2]["rv"]["a"].get("mv") or {"p": []})["p"] if isinstance(e, dict)][-1:] == ["is_migrating"]]
    ctx.check(bool(reads), "C01.D2", "limit_migration:skips-importing", site(b), ok="entries are filtered by is_migrating", bad="limit_migration no longer distinguishes migrating from importing entries")
    for vi in (0, 1):
        def read(interp, bbx, place, val, vi=vi):
            fs = place_fields(place)
            if fs and fs[-1][1] == "is_migrating":
                return Int(vi)
            return None
        res = Interp(F, b, Oracle(read=read)).run()
        if vi == 1 and reads:
            # a migrating entry is either kept or folded back: no way round the loop that does neither
            rb, ri, _ = reads[0]
            inner = [(t_, h) for t_, h in cfg.natural_loops(b) if rb in cfg.loop_blocks(b, t_, h)]
            inner.sort(key=lambda th: len(cfg.loop_blocks(b, th[0], th[1])))
            if inner:
                head = inner[0][1]
                barriers = {(pb, len(b.blocks[pb].stmts)) for pb, _ in pushes} | {(mb, len(b.blocks[mb].stmts)) for mb, _ in merges}
                pth = cfg.path_avoiding(b, (rb, ri), {head}, barriers, succs=cfg.exec_succs(b, res.exec_edges))
                ctx.check(pth is None, "C01.D2", "limit_migration:every-migration-kept-or-deferred", site(b, rb, ri),
                          ok="every migrating entry is either kept (pair) or merged back into the source", bad="a migrating entry can be dropped from the limited view: neither kept nor merged back",
                          path=str(cfg.lines_of_path(b, pth)) if pth else None)
        reach = any(pb in res.exec_blocks for pb, _ in pushes) or any(mb in res.exec_blocks for mb, _ in merges)
        ctx.check(reach == (vi == 1), "C01.D2", "limit_migration:driven-by-migrating-entries:is_migrating=%d" % vi, site(b),
                  ok="handled" if vi else "skipped", bad="entries with is_migrating=%d are %s" % (vi, "processed" if reach else "skipped"))


def _pred_table(ctx, F, c, label):
    """truth table of a closure predicate over (range equal, epoch/meta equal, is_migrating); returns dict or None"""
    du = DefUse(c)
    eqs = []   # (term or stmt, kind)
    for bb, t in c.calls():
        d = callee_decl(t)
        if d in ("std::cmp::PartialEq::eq", "std::cmp::PartialEq::ne"):
            s0 = du.slice_operand(t["args"][0]); s1 = du.slice_operand(t["args"][1])
            names = {n for a, n in s0.fields} | {n for a, n in s1.fields}
            if "range_list" in names:
                eqs.append((t, "range"))
            elif "meta" in names or "epoch" in names:
                eqs.append((t, "meta"))
    bops = []
    for bb, i, s in binop_sites(c, ("Eq", "Ne")):
        sa = du.slice_operand(s["rv"]["a"]); sb = du.slice_operand(s["rv"]["b"])
        names = {n for a, n in sa.fields} | {n for a, n in sb.fields}
        if "epoch" in names:
            bops.append((s, "meta"))
    has_dir = any([e.get("name") for e in (st["rv"].get("a", {}).get("cp") or st["rv"].get("a", {}).get("mv") or {"p": []})["p"] if isinstance(e, dict)][-1:] == ["is_migrating"]
                  for _, _, st in c.assigns() if st["rv"]["k"] == "use")
    kinds = {k for _, k in eqs} | {k for _, k in bops}
    if "range" not in kinds:
        return None
    table = {}
    for r in (0, 1):
        for mt in (0, 1):
            for dr in (0, 1):
                def call(interp, bb, term, argvals, r=r, mt=mt):
                    for t, k in eqs:
                        if t is term:
                            v = r if k == "range" else mt
                            return Bool(v if callee_decl(term).endswith("eq") else not v)
                    return None

                def binop(interp, bb, stmt, op, a, bv, mt=mt):
                    for s, k in bops:
                        if s is stmt:
                            return Bool(mt if op == "Eq" else not mt)
                    return None

                def read(interp, bb, place, val, dr=dr):
                    fs = place_fields(place)
                    if fs and fs[-1][1] == "is_migrating":
                        return Int(dr)
                    return None
                rv = Interp(F, c, Oracle(call=call, binop=binop, read=read)).run().return_value()
                table[(r, mt, dr)] = rv[1] if rv is not None and rv[0] == "int" else None
    return {"table": table, "kinds": kinds, "has_dir": has_dir}


def _commit(ctx, R="C01.D3"):
    F = ctx.F
    b = F.one(MIG + "::commit_migration")
    if b is None:
        ctx.lost(R, "commit_migration", "function not found")
        return
    ctx.analysed(b)
    preds = []
    for c in F.children(b):
        if c.locals and c.locals[0]["ty"] == "bool":
            pt = _pred_table(ctx, F, c, c.path)
            if pt is not None:
                preds.append((c, pt))
                ctx.analysed(c)
    if not ctx.floor(R, "matching predicates in commit_migration", len(preds), 4):
        return
    shapes = {}
    for c, pt in preds:
        t = pt["table"]
        if any(v is None for v in t.values()):
            ctx.lost(R, "predicate:%s" % c.path.rsplit("::", 2)[-2] + c.path.rsplit("::", 1)[-1], "predicate value is not a constant under the assumed comparison outcomes: %s" % t)
            continue
        true_at = sorted(k for k, v in t.items() if v == 1)
        false_at = sorted(k for k, v in t.items() if v == 0)
        if true_at == [(1, 1, 1)]:
            shape = "select-migrating"
        elif true_at == [(1, 1, 0)]:
            shape = "select-importing"
        elif false_at == [(1, 1, 1)]:
            shape = "retain-all-but-migrating"
        elif false_at == [(1, 1, 0)]:
            shape = "retain-all-but-importing"
        else:
            shape = "other"
        shapes.setdefault(shape, []).append(c)
        ctx.check(shape != "other", R, "predicate:%s" % c.path.split("commit_migration::", 1)[-1], site(c),
                  ok="predicate = %s (true exactly at range=, epoch/meta=, direction %s)" % (shape, true_at if len(true_at) == 1 else "not " + str(false_at)),
                  bad="predicate does not select by (range list, epoch/meta, direction): true at %s" % true_at)
    ctx.check(len(shapes.get("select-migrating", [])) >= 1 and len(shapes.get("select-importing", [])) >= 2 and len(shapes.get("retain-all-but-migrating", [])) >= 1, R, "predicate-set", site(b),
              ok="find(migrating), find(importing), retain(!migrating twin), position(importing twin) all present", bad="predicate shapes found: %s" % {k: len(v) for k, v in shapes.items()})
    # both lookups succeed before the first write
    eff = Effects(F, classify, classify_type)
    writes = [e for e in eff.events(b) if "cluster-content" in e.tags or "cluster-epoch" in e.tags]
    du = DefUse(b)
    notfound = []
    for bb, t in calls_to(b, "Option::ok_or"):
        av = agg_variant_of(du, t["args"][1])
        if av and av[1] == "MigrationTaskNotFound":
            notfound.append(bb)
    if ctx.floor(R, "ok_or(MigrationTaskNotFound) lookups", len(notfound), 2) and ctx.floor(R, "content writes in commit_migration", len(writes), 2):
        dom = cfg.dominators(b)
        for e in writes:
            n = sum(1 for nb in notfound if nb in dom.get(e.bb, ()))
            ctx.check(n >= 2, R, "both-twins-found-before:%s" % e.desc.replace(" ", "_")[:60], site(b, e.bb, e.idx),
                      ok="dominated by both twin lookups", bad="%s is not dominated by both MigrationTaskNotFound lookups (%d)" % (e.desc, n))
    # the removed importing ranges are merged into / become the stable slots
    merges = calls_to(b, "RangeList::merge_another")
    if ctx.floor(R, "merge of committed ranges", len(merges), 1):
        for bb, t in merges:
            arg = du.slice_operand(t["args"][1])
            recv = du.slice_operand(t["args"][0])
            ctx.check(arg.has_call("Vec::remove") or arg.has_call("find_map"), R, "merge-source", site(b, bb), ok="merged ranges are the removed importing entry's", bad="merge_another is not fed by the removed importing entry")
            ctx.check(recv.has_field("ChunkStore", "stable_slots"), R, "merge-target", site(b, bb), ok="merged into the chunk's stable_slots", bad="merge target is not stable_slots")
    ctx.check(bool(calls_to(b, "compact_slots")), R, "compact", site(b), ok="compact_slots follows", bad="compact_slots not called")


def _who_may_write(ctx):
    F = ctx.F
    eff = Effects(F, classify, classify_type)
    allowed_prefix = ("broker::store", "broker::update", "broker::migrate")
    n = 0
    for p in sorted(eff.bodies):
        b = eff.bodies[p]
        evs = [e for e in eff.direct.get(p, []) if "cluster-content" in e.tags or "clusters-map" in e.tags]
        if not evs:
            continue
        # config fields are written by ClusterConfig/MigrationConfig::set_field on clones; only writes through the store count
        evs = [e for e in evs if not all((a or "").startswith("common::config") for a, _ in e.fields)] or ([] if p.startswith("common::config") else evs)
        if not evs:
            continue
        n += 1
        ok = b.crate == "undermoon" and p.startswith(allowed_prefix) and not p.startswith("broker::query")
        ctx.check(ok, "C01.D4", "writer:%s" % p, site(b, evs[0].bb, evs[0].idx), ok="allowed writer of chunk content (%s)" % evs[0].desc,
                  bad="%s writes chunk content (%s) outside broker::{store,update,migrate}" % (p, evs[0].desc))
    ctx.floor("C01.D4", "writers of chunk content", n, 8)
    # the public surface of MetaStore that can mutate chunk content is the vetted mutator list (C04 checks their epochs)
    from .C04 import CONFIRMED_MUTATORS
    vetted = set(CONFIRMED_MUTATORS) | {"auto_scale_up_nodes", "auto_change_node_number", "auto_scale_out_node_number", "auto_delete_free_nodes_if_exists", "restore",
                                       "force_bump_all_epoch", "recover_epoch", "add_failure", "cleanup_failures", "get_failures", "new"}
    for p, b in eff.bodies.items():
        if b.impl_adt == "broker::store::MetaStore" and b.kind == "AssocFn" and b.sig and b.sig.get("pub") and b.crate == "undermoon":
            if eff.summary.get(p, set()) & {"cluster-content", "clusters-map"}:
                nm = p.rsplit("::", 1)[-1]
                ctx.check(nm in vetted, "C01.D4", "public-mutator:%s" % nm, site(b), ok="vetted public mutator", bad="new public MetaStore method `%s` writes chunk content: not among the vetted mutators" % nm)


SHIFTING = ("retain", "retain_mut", "remove", "swap_remove", "truncate", "drain", "clear", "sort", "sort_by", "sort_by_key", "sort_unstable", "sort_unstable_by", "sort_unstable_by_key",
            "swap", "reverse", "insert", "dedup", "dedup_by", "dedup_by_key", "pop", "split_off", "rotate_left", "rotate_right", "splice")


def _index_stability(ctx):
    """MigrationMetaStore addresses chunks by position (src_chunk_index / dst_chunk_index): removing or reordering
    elements of ClusterStore.chunks while a migration exists leaves every remaining meta pointing at another chunk"""
    from .C10 import _guard_sites, ERR, _variant_index
    from ..sccp import Ok, Err, UNIT
    F = ctx.F
    sites_ = []
    for b in F.all_bodies(bins=True):
        if b.is_mock() or "tests::" in b.path or b.kind == "Promoted":
            continue
        du = None
        for bb, t in b.calls():
            c = callee_decl(t) or callee_of(t) or ""
            if c.rsplit("::", 1)[-1] not in SHIFTING or not c.startswith(("std::vec::Vec", "alloc::vec::Vec", "std::slice", "core::slice")):
                continue
            if "ChunkStore" not in (t.get("atys") or [""])[0]:
                continue
            du = du or DefUse(b)
            sl = du.slice_operand(t["args"][0], deep=False)
            if ("broker::store::ClusterStore", "chunks") in {(norm(a), n) for a, n in sl.fields}:
                sites_.append((b, bb, t, c.rsplit("::", 1)[-1]))
        for bb, i, st in b.assigns():
            fs = [(norm(a), n) for a, n in place_fields(st["place"])]
            if fs and fs[-1] == ("broker::store::ClusterStore", "chunks") and any(e == "deref" for e in st["place"]["p"]):
                sites_.append((b, bb, None, "assign"))
    if not ctx.floor("C01.D5", "index-shifting operations on ClusterStore.chunks", len(sites_), 1):
        return
    for b, bb, t, op in sites_:
        ctx.analysed(b)
        key = "%s:%s" % (b.path.split("broker::", 1)[-1], op)
        guards = _guard_sites(F, b)
        if not guards:
            from ..inline import inlined
            b2 = inlined(F, b)
            if b2 is not None and _guard_sites(F, b2):
                b = b2
                guards = _guard_sites(F, b)
        if not guards:
            ctx.violation("C01.D5", key, site(b, bb), "chunks.%s shifts chunk positions and %s has no migration-running test: migration metas would name other chunks" % (op, b.path))
            continue

        def call(interp, bbx, term, argvals):
            for gb, gt, kind in guards:
                if gt is term:
                    if kind == "bool":
                        return Bool(1)
                    return Err(Agg(ERR, _variant_index(F, "MigrationRunning"), ()))
            return None
        res = Interp(F, b, Oracle(call=call)).run()
        ctx.check(bb not in res.exec_blocks, "C01.D5", key, site(b, bb), ok="chunks.%s is unreachable while a migration is running" % op,
                  bad="chunks.%s is reachable while a migration is running: the positions stored in migration metas shift" % op)
