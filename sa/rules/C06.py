"""C06 - failover promotes the replica without changing slot ownership (DESIGN §5 C06)."""
from ..facts import norm, callee_of, callee_decl, place_fields
from ..defuse import DefUse
from ..sccp import Interp, Oracle, Int, Bool, Agg, Some, TOP, deref_val
from ..callgraph import CallGraph
from .. import cfg
from ..lib import m, calls_to, agg_sites, site, agg_variant_of
from . import _chunktables
from ._chunktables import CRP, CHS

EXPLANATION = (
    "The chunk index tables (owner node / role / proxy / peer per role position) are extracted from the broker's view builder and "
    "the store's index helpers by conditional constant propagation over the exhaustive domain 3 positions x 4 nodes x 2 parts and "
    "checked for mutual consistency (masters = owners, one master per peer pair on different proxies, peer involution). "
    "takeover_master is evaluated for 3 old positions x 2 failed indexes: new position, idempotent early return before any write, "
    "which parts' migrations are re-issued (must cover every part whose owner node changes according to the tables), origin of the "
    "re-issued epoch. replace_failed_proxy's address bookkeeping and ordering, and the allocation filter (occupied / failed / "
    "reported proxies never offered, and every allocation entry goes through that filter) are path and table rules."
)
ASSUMPTIONS = ["interplay of failover with concurrent migrations over histories is not decided", "a chunk has 4 nodes on 2 proxies (CHUNK_NODE_NUM = 4 is read from the loop bound in the facts)"]
TRUSTED = []

MUTANTS = [
    {"name": "limiter-key-by-role-position", "file": "src/broker/store.rs", "old": "                        .entry((meta.src_chunk_index, meta.src_chunk_part))", "new": "                        .entry((meta.src_chunk_index, (meta.src_chunk_part + chunk.role_position as usize) % 2))", "expect": "C06.D8:limiter-ignores-role-position"},
    {"name": "node-index-second-wrong", "file": "src/broker/store.rs", "old": "(0, ChunkRolePosition::SecondChunkMaster) => 3,", "new": "(0, ChunkRolePosition::SecondChunkMaster) => 2,", "expect": "C06.D1:owner-index-agrees:SecondChunkMaster:part0"},
    {"name": "view-slot-index-swapped", "file": "src/broker/query.rs", "old": "ChunkRolePosition::SecondChunkMaster => (3, 2),", "new": "ChunkRolePosition::SecondChunkMaster => (2, 3),", "expect": "C06.D1:owner-index-agrees:SecondChunkMaster"},
    {"name": "peer-index-wrong", "file": "src/broker/query.rs", "old": "                        1 => 2,\n", "new": "                        1 => 3,\n", "expect": "C06.D1:peer:"},
    {"name": "role-table-off-by-one", "file": "src/broker/query.rs", "old": "ChunkRolePosition::FirstChunkMaster if i >= CHUNK_HALF_NODE_NUM => {", "new": "ChunkRolePosition::FirstChunkMaster if i > CHUNK_HALF_NODE_NUM => {", "expect": "C06.D1:"},
    {"name": "takeover-wrong-target", "file": "src/broker/update.rs", "old": "                let old_position = chunk.role_position;\n                chunk.role_position = ChunkRolePosition::SecondChunkMaster;", "new": "                let old_position = chunk.role_position;\n                chunk.role_position = ChunkRolePosition::FirstChunkMaster;", "expect": "C06.D2:new-position"},
    {"name": "takeover-reissue-only-own-part", "file": "src/broker/update.rs", "old": "                if old_position == ChunkRolePosition::FirstChunkMaster {\n                    reissue(&mut chunk.migrating_slots[1]);\n                }\n", "new": "                let _ = old_position;\n", "expect": "C06.D2:reissue-coverage:FirstChunkMaster->SecondChunkMaster"},
    {"name": "replace-wrong-node-slot", "file": "src/broker/update.rs", "old": "chunk.node_addresses[3] = proxy_resource.node_addresses[1].clone();", "new": "chunk.node_addresses[1] = proxy_resource.node_addresses[1].clone();", "expect": "C06.D3:address-bookkeeping:failed=proxy[1]"},
    {"name": "free-filter-ignores-reports", "file": "src/broker/query.rs", "old": "            if failures.contains_key(proxy_address) {\n                continue;\n            }\n", "new": "            let _ = &failures;\n", "expect": "C06.D4:"},
    {"name": "failed-mark-after-choice", "edits": [
        {"file": "src/broker/update.rs", "old": "        self.store\n            .failed_proxies\n            .insert(failed_proxy_address.clone());\n\n        let proxy_resource = self.generate_new_free_proxy(failed_proxy_address.clone())?;\n", "new": "        let proxy_resource = self.generate_new_free_proxy(failed_proxy_address.clone())?;\n        self.store\n            .failed_proxies\n            .insert(failed_proxy_address.clone());\n"}],
     "expect": "C06.D3:failed-mark-before-replacement-choice"},
    {"name": "external-storage-drops-store-on-error", "file": "src/broker/external.rs", "old": "        let res = store.replace_failed_proxy(failed_proxy_address, migration_limit);\n        // It may change the store even on error.\n        self.update_external_store_and_cache(ExternalStore { store, version })\n            .await?;\n        res", "new": "        let res = store.replace_failed_proxy(failed_proxy_address, migration_limit)?;\n        self.update_external_store_and_cache(ExternalStore { store, version })\n            .await?;\n        Ok(res)", "expect": "C06.D6"},
]

UPD = "broker::update::MetaStoreUpdate"


def tables_rules(ctx, rule, T):
    """C01.D1 / C06.D1: consistency of the extracted tables"""
    pos = T.positions
    for p in pos:
        rows = {i: T.rows[(p, i)] for i in range(4)}
        for i, r in rows.items():
            ctx.check(r["node"] == i, rule, "node-address-index:%s:%d" % (p, i), site(T.view_body), ok="node i uses node_addresses[i]", bad="node %d is given node_addresses[%s]" % (i, r["node"]))
            ctx.check(r["proxy"] == i // 2, rule, "proxy-of-node:%s:%d" % (p, i), site(T.view_body), ok="node i lives on proxy_addresses[i/2]", bad="node %d is given proxy_addresses[%s]" % (i, r["proxy"]))
            ctx.check(r["owns_stable"] == r["owns_migrating"] and "?" not in r["owns_stable"], rule, "stable-migrating-same-owner:%s:%d" % (p, i), site(T.view_body),
                      ok="stable and migrating ranges of a part are attached at the same node", bad="stable parts %s vs migrating parts %s attached at node %d" % (r["owns_stable"], r["owns_migrating"], i))
        for part in (0, 1):
            owners = [i for i, r in rows.items() if part in r["owns_stable"] or part in r["owns_migrating"]]
            ctx.check(len(owners) == 1, rule, "single-owner:%s:part%d" % (p, part), site(T.view_body), ok="part attached at exactly one node (%s)" % owners,
                      bad="part %d is attached at nodes %s" % (part, owners))
            if len(owners) == 1:
                o = owners[0]
                ctx.check(T.node_index[(part, p)] == o, rule, "owner-index-agrees:%s:part%d" % (p, part), site(T.helpers[0]),
                          ok="chunk_part_to_node_index = %d = view owner" % o, bad="chunk_part_to_node_index(%d,%s) = %d but the view attaches the part at node %d" % (part, p, T.node_index[(part, p)], o))
                ctx.check(T.proxy_index[(part, p)] == rows[o]["proxy"], rule, "owner-proxy-agrees:%s:part%d" % (p, part), site(T.helpers[1]),
                          ok="chunk_part_to_proxy_index = proxy of the owner node", bad="chunk_part_to_proxy_index(%d,%s) = %d but the owner node %d lives on proxy %s" % (part, p, T.proxy_index[(part, p)], o, rows[o]["proxy"]))
                ctx.check(rows[o]["role"] == "Master", rule, "owner-is-master:%s:part%d" % (p, part), site(T.view_body), ok="owner is a master", bad="the node owning part %d has role %s" % (part, rows[o]["role"]))
        masters = [i for i, r in rows.items() if r["role"] == "Master"]
        owners_all = sorted(i for i, r in rows.items() if r["owns_stable"] or r["owns_migrating"])
        ctx.check(sorted(masters) == owners_all and len(masters) == 2, rule, "masters-are-owners:%s" % p, site(T.view_body),
                  ok="masters %s = owners; replicas own nothing" % masters, bad="masters %s but owners %s" % (masters, owners_all))
        for i, r in rows.items():
            pj = r["peer_node"]
            good = pj is not None and 0 <= pj < 4 and rows[pj]["peer_node"] == i and r["peer_proxy"] == pj // 2 and pj // 2 != i // 2 and rows[pj]["role"] != r["role"]
            ctx.check(good, rule, "peer:%s:%d" % (p, i), site(T.view_body), ok="peer(%d)=%d on the other proxy, opposite role, symmetric" % (i, pj),
                      bad="peer record of node %d inconsistent: peer node %s, peer proxy %s, roles %s/%s" % (i, pj, r["peer_proxy"], r["role"], rows[pj]["role"] if pj is not None and 0 <= pj < 4 else None))
    # role position semantics used by takeover: First = both masters on proxy 0, Second = both on proxy 1, Normal = one each
    want = {"Normal": [0, 1], "FirstChunkMaster": [0, 0], "SecondChunkMaster": [1, 1]}
    for p in pos:
        mp = sorted(T.rows[(p, i)]["proxy"] for i in range(4) if T.rows[(p, i)]["role"] == "Master")
        ctx.check(p in want and mp == want[p], rule, "master-placement:%s" % p, site(T.view_body), ok="masters on proxies %s" % mp, bad="masters of position %s live on proxies %s" % (p, mp))


def run(ctx):
    F = ctx.F
    ctx.rule("C06.D1", "chunk index tables (owner/role/proxy/peer) consistent; exhaustive 3 positions x 4 nodes x 2 parts", exhaustive=True)
    ctx.rule("C06.D2", "takeover_master over 3 old positions x 2 failed indexes: new position, idempotent early return, re-issue coverage, epoch origin", exhaustive=True)
    ctx.rule("C06.D3", "replace_failed_proxy: failed mark before replacement choice; address bookkeeping indexes; untag old / tag new")
    ctx.rule("C06.D4", "free-proxy filter excludes occupied / failed / reported proxies (8 combinations); every allocation entry reaches it")
    T = _chunktables.extract(ctx, "C06.D1")
    if T is not None:
        tables_rules(ctx, "C06.D1", T)
        _takeover(ctx, T)
    ctx.rule("C06.D1b", "to_slot_range: each migration address is looked up with the chunk index, part and role position of its own side (src/dst) and the matching index helper")
    ctx.rule("C06.D5", "balance_masters resets a chunk to Normal only when none of its proxies is failed or under failure report")
    to_slot_range_rule(ctx, "C06.D1b")
    _replace(ctx)
    _never_allocate_failed(ctx)
    _balance(ctx)
    ctx.rule("C06.D7", "shared with C04: every store change on the failover path is published under a global epoch that was not handed out before")
    ctx.rule("C06.D6", "the promotion performed by replace_failed_proxy is kept when no replacement is available: every storage back-end persists the store whatever replace_failed_proxy returns")
    _persist_on_error(ctx)
    ctx.rule("C06.D8", "the per-proxy view limiter (limit_migration) decides which running migrations are shown from the migration records alone: nothing in it reads a chunk's role position, so a failover cannot make a running migration disappear from the served view")
    _limiter_ignores_failover_state(ctx)
    from ..engine import AliasCtx
    from . import C04 as _c04
    _c04.run(AliasCtx(ctx, "C06.D7", only={"C04.D1"}))


def _pa_eq_oracle(du, failed_idx, it_holder):
    """oracle for `chunk.proxy_addresses[k] == failed_proxy_address`"""
    def f(interp, bb, term, argvals):
        d = callee_decl(term)
        if d not in ("std::cmp::PartialEq::eq", "std::cmp::PartialEq::ne"):
            return None
        for a in term["args"][:2]:
            pl = a.get("mv") or a.get("cp")
            if pl is None:
                continue
            # the argument is a reference local assigned `&(*chunk).proxy_addresses[idx]` in this block
            for i, s in enumerate(interp.body.blocks[bb].stmts):
                if s["k"] == "assign" and s["place"]["l"] == pl["l"] and s["rv"]["k"] == "ref":
                    rp = s["rv"]["p"]
                    names = [e.get("name") for e in rp["p"] if isinstance(e, dict)]
                    if "proxy_addresses" in names:
                        k = _index_of(interp, bb, i, rp)
                        if k is None:
                            return None
                        eq = (k == failed_idx)
                        return Bool(eq if d.endswith("eq") else not eq)
        return None
    return f


def _index_of(interp, bb, stmt_idx, place):
    for e in place["p"]:
        if isinstance(e, dict) and "ci" in e:
            return e["ci"]
        if isinstance(e, dict) and "idx" in e:
            res = getattr(interp, "_res", None)
            if res is not None:
                st = interp.state_at(res, bb, stmt_idx)     # after the run: replay the block
            else:
                st = getattr(interp, "_st", None)           # during the run: the state at the call
            v = st.get(e["idx"], TOP) if st else TOP
            return v[1] if v[0] == "int" else None
    return None


def _replay(interp, bb, idx):
    """index locals are assigned constants in the same block: replay from an empty state"""
    st = {}
    for s in interp.body.blocks[bb].stmts[:idx]:
        if s["k"] == "assign" and s["rv"]["k"] == "use" and "c" in s["rv"]["a"] and not s["place"]["p"]:
            st[s["place"]["l"]] = interp.const_val(s["rv"]["a"]["c"])
    return st


def _takeover(ctx, T):
    F = ctx.F
    b = F.one(UPD + "::takeover_master")
    if b is None:
        ctx.lost("C06.D2", "takeover_master", "function not found")
        return
    ctx.analysed(b)
    du = DefUse(b)
    crp = F.adt(CRP)
    # anchors
    role_writes = []
    for bb, i, s in b.assigns():
        fs = [(norm(a), n) for a, n in place_fields(s["place"])]
        if fs and fs[-1] == (CHS, "role_position") and any(e == "deref" for e in s["place"]["p"]):
            role_writes.append((bb, i, s))
    if not ctx.floor("C06.D2", "role_position writes in takeover_master", len(role_writes), 2):
        return
    mig_refs = []   # (bb, idx, place) indexed borrows of migrating_slots[k]
    for bb, i, s in b.assigns():
        rv = s["rv"]
        if rv["k"] == "ref":
            names = [e.get("name") for e in rv["p"]["p"] if isinstance(e, dict)]
            if "migrating_slots" in names and any(isinstance(e, dict) and ("idx" in e or "ci" in e) for e in rv["p"]["p"]):
                mig_refs.append((bb, i, rv["p"]))
    if not ctx.floor("C06.D2", "indexed migrating_slots[k] borrows in takeover_master", len(mig_refs), 2):
        return
    fam = F.family(b)
    ctx.analysed(*fam)
    epoch_writes = []      # in the function itself
    fam_epoch_writes = 0   # incl. helper closures created in it
    for fb in fam:
        fdu = du if fb is b else DefUse(fb)
        for bb, i, s in fb.assigns():
            fs = [(norm(a), n) for a, n in place_fields(s["place"])]
            if fs and fs[-1] == ("broker::store::MigrationMetaStore", "epoch"):
                fam_epoch_writes += 1
                if fb is b:
                    epoch_writes.append((bb, i, s))
                sl = fdu.slice_operand(s["rv"]["a"]) if s["rv"]["k"] == "use" else None
                from ..lib import captures_with
                good = sl is not None and (sl.has_call("MetaStore::bump_global_epoch") or captures_with(F, fb, sl, lambda v: v.has_call("MetaStore::bump_global_epoch")))
                ctx.check(good, "C06.D2", "reissue-epoch-origin:%s#%d" % ("fn" if fb is b else "closure", fam_epoch_writes), site(fb, bb, i),
                          ok="re-issued migration epoch = bumped global epoch", bad="re-issued migration epoch does not come from bump_global_epoch()")
    # (a captured epoch variable is resolved to the parent's local above: it must itself be the bumped epoch)
    ctx.floor("C06.D2", "migration epoch writes in takeover_master (incl. closures)", fam_epoch_writes, 2)
    # second pass: every entry whose src or dst position was collected is re-issued: contains() tests on the collected set
    contains = sum(len(calls_to(fb, "HashSet::contains")) for fb in fam)
    inserts = sum(len(calls_to(fb, "HashSet::insert")) for fb in fam)
    ctx.check(contains >= 2 and inserts >= 2, "C06.D2", "peer-reissue-structure", site(b),
              ok="src and dst positions of re-issued entries are collected (%d inserts) and both looked up (%d contains) in the second pass" % (inserts, contains),
              bad="the peer re-issue pass does not collect / look up both src and dst positions (inserts=%d contains=%d)" % (inserts, contains))

    target_of_failed = {0: "SecondChunkMaster", 1: "FirstChunkMaster"}
    for failed_idx in (0, 1):
        for ovi, ov in enumerate(crp.variants):
            old = ov["name"]
            holder = {}
            pa = _pa_eq_oracle(du, failed_idx, holder)

            def call(interp, bb, term, argvals, ovi=ovi, pa=pa):
                r = pa(interp, bb, term, argvals)
                if r is not None:
                    return r
                d = callee_decl(term)
                if d in ("std::cmp::PartialEq::eq", "std::cmp::PartialEq::ne"):
                    for k, a in enumerate(term["args"][:2]):
                        pl = a.get("mv") or a.get("cp")
                        if pl is None:
                            continue
                        for s in interp.body.blocks[bb].stmts:
                            if s["k"] == "assign" and s["place"]["l"] == pl["l"] and s["rv"]["k"] == "ref":
                                names = [e.get("name") for e in s["rv"]["p"]["p"] if isinstance(e, dict)]
                                if names and names[-1] == "role_position":
                                    other = argvals[1 - k]
                                    ov2 = deref_val(interp, interp._st, other) if hasattr(interp, "_st") else other
                                    if ov2[0] == "agg" and ov2[1] == CRP:
                                        eq = (ov2[2] == ovi)
                                        return Bool(eq if d.endswith("eq") else not eq)
                return None

            def read(interp, bb, place, val, ovi=ovi):
                fs = place_fields(place)
                if fs and fs[-1][1] == "role_position" and norm(fs[-1][0]) == CHS:
                    return Agg(CRP, ovi, ())
                return None
            it = _Interp2(F, b, Oracle(call=call, read=read))
            res = it.run()
            new = target_of_failed[failed_idx]
            label = "%s,failed=proxy[%d]" % (old, failed_idx)
            written = []
            for bb, i, s in role_writes:
                if bb in res.exec_blocks:
                    st = it.state_at(res, bb, i)
                    v = it.rvalue(st, bb, s, s["place"])
                    written.append(crp.variants[v[2]]["name"] if v[0] == "agg" else "?")
            if old == new:
                # already switched: must return before any write
                domt = cfg.dominators(b)
                rw_blocks = {x[0] for x in role_writes}
                first_pass = [w for w in epoch_writes if any(r in domt.get(w[0], ()) for r in rw_blocks)]
                any_content = [bb for bb, i, s in role_writes + first_pass if bb in res.exec_blocks]
                ctx.check(not any_content, "C06.D2", "idempotent:%s" % label, site(b), ok="repeated failover of an already demoted proxy writes nothing",
                          bad="takeover of an already switched chunk still writes (blocks %s)" % any_content)
                continue
            ctx.check(written == [new], "C06.D2", "new-position:%s" % label, site(b),
                      ok="role_position <- %s" % new, bad="failed proxy[%d] with old position %s writes role_position %s (expected %s: no node of the failed proxy may stay master)" % (failed_idx, old, written, new))
            visited = set()
            for bb, i, pl in mig_refs:
                if bb in res.exec_blocks:
                    it._res = res
                    k = _index_of(it, bb, i, pl)
                    visited.add(k if k is not None else "?")
            needed = {part for part in (0, 1) if T.node_index[(part, old)] != T.node_index[(part, new)]}
            ctx.check(needed <= visited, "C06.D2", "reissue-coverage:%s->%s" % (old, new), site(b),
                      ok="parts whose owner node changes %s are re-issued (visited %s)" % (sorted(needed), sorted(visited, key=str)),
                      bad="failover %s -> %s moves the owner node of parts %s (tables: %s) but only migrating_slots%s are re-issued with the new epoch" % (
                          old, new, sorted(needed), {p: (T.node_index[(p, old)], T.node_index[(p, new)]) for p in (0, 1)}, sorted(visited, key=str)))


class _Interp2(Interp):
    """keeps the current state reachable for oracles that need to dereference argument values"""

    def call(self, st, bb, term):
        self._st = st
        return super().call(st, bb, term)


def _replace(ctx):
    F = ctx.F
    b = F.one(UPD + "::replace_failed_proxy")
    if b is None:
        ctx.lost("C06.D3", "replace_failed_proxy", "function not found")
        return
    ctx.analysed(b)
    du = DefUse(b)
    dom = cfg.dominators(b)
    ins = [(bb, t) for bb, t in calls_to(b, "HashSet::insert") if ("broker::store::MetaStore", "failed_proxies") in du.slice_operand(t["args"][0], deep=False).fields]
    gen = calls_to(b, "generate_new_free_proxy")
    tk = calls_to(b, "takeover_master")
    if ctx.floor("C06.D3", "generate_new_free_proxy call", len(gen), 1) and ctx.floor("C06.D3", "failed_proxies.insert", len(ins), 1):
        gbb = gen[0][0]
        ctx.check(any(ibb in dom.get(gbb, ()) for ibb, _ in ins), "C06.D3", "failed-mark-before-replacement-choice", site(b, gbb),
                  ok="failed_proxies.insert dominates generate_new_free_proxy (the failed proxy cannot be chosen)", bad="the replacement is chosen before the failed proxy is marked failed")
    if ctx.floor("C06.D3", "takeover_master call", len(tk), 1) and gen:
        ctx.check(tk[0][0] in dom.get(gen[0][0], ()), "C06.D3", "takeover-before-replacement", site(b, tk[0][0]), ok="takeover_master dominates the replacement", bad="replacement without a preceding takeover")
    # address bookkeeping
    writes = []
    for bb, i, s in b.assigns():
        names = [e.get("name") for e in s["place"]["p"] if isinstance(e, dict) and "name" in e]
        if names and names[-1] in ("hosts", "proxy_addresses", "node_addresses") and any(isinstance(e, dict) and ("idx" in e or "ci" in e) for e in s["place"]["p"]):
            writes.append((bb, i, s, names[-1]))
    if not ctx.floor("C06.D3", "address writes in replace_failed_proxy", len(writes), 8):
        return
    for failed_idx in (0, 1):
        it = Interp(F, b, Oracle(call=_pa_eq_oracle(du, failed_idx, {})))
        res = it.run()
        it._res = res
        got = {"hosts": [], "proxy_addresses": [], "node_addresses": []}
        srcs = {}
        for bb, i, s, nm in writes:
            if bb not in res.exec_blocks:
                continue
            k = _index_of(it, bb, i, s["place"])
            got[nm].append(k)
            if nm == "node_addresses":
                sl = du.slice_operand(s["rv"]["a"]) if s["rv"]["k"] == "use" else None
                # which element of proxy_resource.node_addresses is the source: index constants in the slice
                srcs[k] = sorted(set(sl.const_ints())) if sl else None
        k = failed_idx
        good = sorted(got["hosts"]) == [k] and sorted(got["proxy_addresses"]) == [k] and sorted(x for x in got["node_addresses"] if x is not None) == [2 * k, 2 * k + 1]
        ctx.check(good, "C06.D3", "address-bookkeeping:failed=proxy[%d]" % k, site(b),
                  ok="hosts[%d], proxy_addresses[%d], node_addresses[%d,%d] replaced" % (k, k, 2 * k, 2 * k + 1),
                  bad="replacing proxy[%d] writes hosts%s proxy_addresses%s node_addresses%s" % (k, got["hosts"], got["proxy_addresses"], got["node_addresses"]))
    # values come from the chosen proxy resource
    for bb, i, s, nm in writes:
        sl = du.slice_operand(s["rv"]["a"]) if s["rv"]["k"] == "use" else None
        fld = {"hosts": "host", "proxy_addresses": "proxy_address", "node_addresses": "node_addresses"}[nm]
        ctx.check(sl is not None and sl.has_call("generate_new_free_proxy") and sl.has_field("ProxyResource", fld), "C06.D3", "address-source:%s#%d" % (nm, i), site(b, bb, i),
                  ok="%s <- proxy_resource.%s" % (nm, fld), bad="%s is not written from the chosen proxy resource's %s" % (nm, fld))
    # untag old, tag new
    tags = []
    for bb, i, s in b.assigns():
        fs = [(norm(a), n) for a, n in place_fields(s["place"])]
        if fs and fs[-1] == ("broker::store::ProxyResource", "cluster"):
            base = du.slice_place({"l": s["place"]["l"], "p": []})
            rv = s["rv"]
            kind = None
            if rv["k"] == "agg":
                kind = rv.get("variant")
            elif rv["k"] == "use":
                av = agg_variant_of(du, rv["a"])
                kind = av[1] if av else None
            tags.append((bb, i, kind, base))
    olds = [t for t in tags if t[2] == "None" and t[3].has_param(2)]
    news = [t for t in tags if t[2] == "Some" and t[3].has_call("generate_new_free_proxy")]
    ctx.check(bool(olds), "C06.D3", "old-proxy-untagged", site(b), ok="failed proxy's cluster tag cleared", bad="the failed proxy keeps its cluster tag (it stays a member in the accounting)")
    ctx.check(bool(news), "C06.D3", "new-proxy-tagged", site(b), ok="replacement tagged with the cluster", bad="the replacement proxy is not tagged as a member")


def _never_allocate_failed(ctx):
    F = ctx.F
    b = F.one("MetaStoreQuery::get_free_proxy_resource")
    if b is None:
        ctx.lost("C06.D4", "get_free_proxy_resource", "function not found")
        return
    ctx.analysed(b)
    du = DefUse(b)
    pushes = calls_to(b, "Vec::push")
    g_occ = [(bb, t) for bb, t in calls_to(b, "Option::is_some", "Option::is_none") if du.slice_operand(t["args"][0]).has_field("ProxyResource", "cluster")]
    g_failed = [(bb, t) for bb, t in calls_to(b, "HashSet::contains") if du.slice_operand(t["args"][0]).has_field("MetaStore", "failed_proxies")]
    g_rep = [(bb, t) for bb, t in calls_to(b, "HashMap::contains_key") if du.slice_operand(t["args"][0]).has_field("MetaStore", "failures")]
    ok = ctx.floor("C06.D4", "push of a free proxy", len(pushes), 1)
    ok &= ctx.floor("C06.D4", "occupied test", len(g_occ), 1)
    ok &= ctx.floor("C06.D4", "failed_proxies test", len(g_failed), 1)
    ok &= ctx.floor("C06.D4", "failures test", len(g_rep), 1)
    if not ok:
        return
    for bb, t in g_failed + g_rep:
        sl = du.slice_operand(t["args"][1])
        ctx.check(sl.has_field("ProxyResource", "proxy_address"), "C06.D4", "filter-key:%s" % ("failed" if (bb, t) in g_failed else "reported"), site(b, bb),
                  ok="looked up by the candidate's proxy_address", bad="the failure lookup is not keyed by the candidate's proxy_address")
    for occ in (0, 1):
        for fl in (0, 1):
            for rp in (0, 1):
                def call(interp, bbx, term, argvals, occ=occ, fl=fl, rp=rp):
                    for gb, gt in g_occ:
                        if gt is term:
                            some = callee_of(term).endswith("is_some")
                            return Bool(bool(occ) == some)
                    for gb, gt in g_failed:
                        if gt is term:
                            return Bool(fl)
                    for gb, gt in g_rep:
                        if gt is term:
                            return Bool(rp)
                    return None
                res = Interp(F, b, Oracle(call=call)).run()
                reach = any(pb in res.exec_blocks for pb, _ in pushes)
                want = not (occ or fl or rp)
                ctx.check(reach == want, "C06.D4", "free-filter:occupied=%d,failed=%d,reported=%d" % (occ, fl, rp), site(b),
                          ok="offered" if want else "never offered", bad="a proxy with occupied=%d failed=%d reported=%d is %s" % (occ, fl, rp, "offered for allocation" if reach else "not offered"))
    # every allocation entry goes through the filter
    cg = CallGraph(F, bins=False)
    for entry in ("generate_free_chunks", "generate_free_chunks_for_ordered_proxy_index", "generate_new_free_proxy"):
        e = F.one(UPD + "::" + entry)
        if e is None:
            ctx.lost("C06.D4", "entry:" + entry, "allocation entry not found")
            continue
        ctx.analysed(e)
        p = cg.path(e.path, b.path)
        ctx.check(p is not None, "C06.D4", "allocation-uses-filter:" + entry, site(e), ok="reaches get_free_proxy_resource via %s" % (" -> ".join(x.rsplit("::", 1)[-1] for x in p) if p else ""),
                  bad="%s does not obtain its candidates from get_free_proxy_resource" % entry)
    # nobody else in the allocator reads all_proxies to *choose* candidates: every iteration over all_proxies
    # in broker::update / broker::query that yields addresses must be the filter itself or a vetted reader
    vetted = {"get_free_proxy_resource", "build_link_table", "get_proxies", "get_proxies_with_pagination", "check_metadata", "get_free_proxies"}
    for q in F.all_bodies(bins=False):
        if q.kind == "Promoted" or not (q.path.startswith("broker::update") or q.path.startswith("broker::query")):
            continue
        dq = None
        for bb, t in q.calls():
            c = callee_of(t) or ""
            if c.endswith("HashMap::values") or c.endswith("HashMap::iter") or c.endswith("HashMap::keys") or c.endswith("HashMap::into_values"):
                dq = dq or DefUse(q)
                if ("broker::store::MetaStore", "all_proxies") in dq.slice_operand(t["args"][0], deep=False).fields:
                    root = (q.root or q.path).rsplit("::", 1)[-1]
                    ctx.check(root in vetted, "C06.D4", "all_proxies-iteration:%s" % root, site(q, bb), ok="vetted reader of all_proxies",
                              bad="%s iterates MetaStore.all_proxies itself: candidates may bypass the failed/reported filter" % q.path)


def to_slot_range_rule(ctx, rule):
    """MigrationSlotRangeStore::to_slot_range: plumbing of same-typed indexes"""
    F = ctx.F
    b = F.one("MigrationSlotRangeStore::to_slot_range")
    if b is None:
        ctx.lost(rule, "to_slot_range", "function not found")
        return
    ctx.analysed(b)
    du = DefUse(b)
    metas = agg_sites(b, "common::cluster::MigrationMeta")
    if not ctx.floor(rule, "MigrationMeta construction in to_slot_range", len(metas), 1):
        return
    rv = metas[0][2]["rv"]
    MMS = "broker::store::MigrationMetaStore"
    for fld in ("src_proxy_address", "src_node_address", "dst_proxy_address", "dst_node_address"):
        side, kind = fld.split("_")[0], fld.split("_")[1]
        other = "dst" if side == "src" else "src"
        op = rv["ops"][rv["fields"].index(fld)]
        sl = du.slice_operand(op)
        names = {n for a, n in sl.fields}
        helper = "chunk_part_to_%s_index" % kind
        wrong_helper = "chunk_part_to_%s_index" % ("node" if kind == "proxy" else "proxy")
        arr = "%s_addresses" % kind
        good = ("%s_chunk_index" % side in names and "%s_chunk_part" % side in names and "%s_chunk_index" % other not in names
                and "%s_chunk_part" % other not in names and sl.has_call(helper) and not sl.has_call(wrong_helper) and arr in names)
        ctx.check(good, rule, "to_slot_range:%s" % fld, site(b, metas[0][0], metas[0][1]),
                  ok="%s <- chunks[%s_chunk_index].%s[%s(%s_chunk_part, that chunk's role_position)]" % (fld, side, arr, helper, side),
                  bad="%s is not computed from its own side only: fields %s, helpers %s" % (fld, sorted(n for n in names if "chunk" in n or "addresses" in n), sorted(c.rsplit("::", 1)[-1] for c in sl.calls if "chunk_part" in c)))
    # each helper call takes the part and the role position of the same chunk
    for bb, t in calls_to(b, "chunk_part_to_proxy_index", "chunk_part_to_node_index"):
        s0 = du.slice_operand(t["args"][0]); s1 = du.slice_operand(t["args"][1])
        n0 = {n for a, n in s0.fields}; n1 = {n for a, n in s1.fields}
        side0 = "src" if "src_chunk_part" in n0 else "dst" if "dst_chunk_part" in n0 else "?"
        side1 = "src" if "src_chunk_index" in n1 else "dst" if "dst_chunk_index" in n1 else "?"
        both = ("src_chunk_index" in n1 and "dst_chunk_index" in n1)
        ctx.check(side0 == side1 and side0 != "?" and not both and "role_position" in n1, rule, "helper-args-same-side:%s:%s" % (callee_of(t).rsplit("::", 1)[-1], side0), site(b, bb),
                  ok="part and role position of the %s chunk" % side0, bad="index helper is given the part of the %s side with the role position of the %s chunk" % (side0, side1))
    ctx.floor(rule, "index helper calls in to_slot_range", len(calls_to(b, "chunk_part_to_proxy_index", "chunk_part_to_node_index")), 4)
    # epoch of the descriptor = stored migration epoch
    op = rv["ops"][rv["fields"].index("epoch")]
    sl = du.slice_operand(op)
    ctx.check((MMS, "epoch") in sl.fields and not sl.binops, rule, "to_slot_range:epoch", site(b, metas[0][0], metas[0][1]), ok="descriptor epoch = stored migration epoch",
              bad="descriptor epoch is not the stored migration epoch")


def _balance(ctx):
    F = ctx.F
    b = F.one(UPD + "::balance_masters")
    if b is None:
        ctx.lost("C06.D5", "balance_masters", "function not found")
        return
    ctx.analysed(b)
    du = DefUse(b)
    writes = []
    for bb, i, s in b.assigns():
        fs = [(norm(a), n) for a, n in place_fields(s["place"])]
        if fs and fs[-1] == (CHS, "role_position"):
            writes.append((bb, i, s))
    if not ctx.floor("C06.D5", "role_position write in balance_masters", len(writes), 1):
        return
    # guard closures: children that consult failed_proxies / failures
    guards = []
    for c in F.children(b):
        cdu = DefUse(c)
        from ..lib import captures_with
        has_failed = any(captures_with(F, c, cdu.slice_operand(t["args"][0]), lambda v: ("broker::store::MetaStore", "failed_proxies") in v.fields) for bb, t in calls_to(c, "HashSet::contains"))
        has_rep = any(captures_with(F, c, cdu.slice_operand(t["args"][0]), lambda v: ("broker::store::MetaStore", "failures") in v.fields) for bb, t in calls_to(c, "HashMap::contains_key"))
        if has_failed or has_rep:
            guards.append((c, has_failed, has_rep))
    if not ctx.floor("C06.D5", "failure guard closure in balance_masters", len(guards), 1):
        return
    g, has_failed, has_rep = guards[0]
    ctx.analysed(g)
    ctx.check(has_failed and has_rep, "C06.D5", "guard-consults-both", site(g),
              ok="guard looks at failed_proxies and at pending failure reports", bad="guard consults failed_proxies=%s failures=%s: a proxy that is only %s can be re-promoted" % (has_failed, has_rep, "reported" if not has_rep else "marked failed"))
    # captured sets are the store's
    # (the captured sets are resolved to the store's fields above, independent of their variable names)
    # closure truth table
    cF = calls_to(g, "HashSet::contains"); cR = calls_to(g, "HashMap::contains_key")
    trues = [bb for bb, i, s in g.assigns() if s["place"]["l"] == 0 and s["rv"]["k"] == "use" and "c" in s["rv"]["a"] and s["rv"]["a"]["c"].get("int") == 1]
    for fa in (0, 1):
        for re_ in (0, 1):
            def call(interp, bb, term, argvals, fa=fa, re_=re_):
                for x, t in cF:
                    if t is term:
                        return Bool(fa)
                for x, t in cR:
                    if t is term:
                        return Bool(re_)
                return None
            res = Interp(F, g, Oracle(call=call)).run()
            reach = any(tb in res.exec_blocks for tb in trues)
            ctx.check(reach == bool(fa or re_), "C06.D5", "guard-table:failed=%d,reported=%d" % (fa, re_), site(g),
                      ok="guard %s" % ("fires" if reach else "passes"), bad="guard %s for failed=%d reported=%d" % ("fires" if reach else "does not fire", fa, re_))
    # parent: the write is unreachable when the guard fires
    gcalls = [(bb, t) for bb, t in b.calls() if callee_of(t) == g.path]
    if not ctx.floor("C06.D5", "guard call in balance_masters", len(gcalls), 1):
        return
    for val in (0, 1):
        def call2(interp, bb, term, argvals, val=val):
            for x, t in gcalls:
                if t is term:
                    return Bool(val)
            return None
        res = Interp(F, b, Oracle(call=call2)).run()
        reach = any(w[0] in res.exec_blocks for w in writes)
        ctx.check(reach == (val == 0), "C06.D5", "reset-only-when-healthy:guard=%d" % val, site(b, writes[0][0], writes[0][1]),
                  ok="role_position reset %s" % ("skipped" if val else "performed"), bad="role_position reset is %s when the guard returns %d" % ("reachable" if reach else "unreachable", val))
    dom = cfg.dominators(b)
    for w in writes:
        ctx.check(any(gb in dom.get(w[0], ()) for gb, _ in gcalls), "C06.D5", "guard-dominates-reset", site(b, w[0], w[1]), ok="guard call dominates the reset", bad="a reset of role_position is not preceded by the guard")
        av = agg_variant_of(du, w[2]["rv"]["a"]) if w[2]["rv"]["k"] == "use" else None
        ctx.check(av is not None and av[1] == "Normal", "C06.D5", "reset-value", site(b, w[0], w[1]), ok="reset to Normal", bad="balance_masters writes %s" % (av,))
    # the guard is applied to the chunk's own proxy addresses
    for gb, t in gcalls:
        sl = du.slice_operand(t["args"][1]) if len(t["args"]) > 1 else None
        ctx.check(sl is not None and sl.has_field("ChunkStore", "proxy_addresses"), "C06.D5", "guard-subject", site(b, gb), ok="guard applied to chunk.proxy_addresses", bad="guard is not applied to the chunk's proxy addresses")


def _persist_on_error(ctx):
    """MetaStore::replace_failed_proxy promotes the partner's replicas and records the failed proxy *before* it can fail
    with NoAvailableResource.  A storage back-end that works on a fetched copy must write the copy back on both results,
    otherwise the promotion is lost exactly when there is no spare proxy."""
    from ..lib import branch_conditions
    F = ctx.F
    n = 0
    for b in F.all_bodies(bins=False):
        if b.is_mock() or "tests::" in b.path or b.kind == "Promoted" or not b.path.startswith(("broker::external", "<broker::external")):
            continue
        calls = [(bb, t) for bb, t in b.calls() if (callee_of(t) or "").endswith("MetaStore::replace_failed_proxy")]
        if not calls:
            continue
        n += 1
        ctx.analysed(b)
        du = DefUse(b)
        dom = cfg.dominators(b)
        persists = [(bb, t) for bb, t in b.calls() if (callee_of(t) or "").endswith("update_external_store_and_cache") or (callee_of(t) or "").endswith("update_external_store")]
        if not persists:
            ctx.violation("C06.D6", "external:persist-missing", site(b, calls[0][0]), "the external storage never writes the store back after replace_failed_proxy")
            continue
        cb = calls[0][0]
        bad = None
        for pb, pt in persists:
            if cb not in dom.get(pb, ()):
                continue
            for d, discr, val in branch_conditions(b, pb, dom):
                if cb in dom.get(d, ()) and du.slice_operand(discr).has_call("MetaStore::replace_failed_proxy"):
                    bad = (pb, d, val)
        after = [pb for pb, _ in persists if cb in dom.get(pb, ())]
        ctx.check(bool(after) and bad is None, "C06.D6", "external:persist-on-both-results", site(b, cb), ok="the store is written back whatever replace_failed_proxy returned",
                  bad="the write-back of the store is %s: when no spare proxy exists the promotion of the partner's replicas is dropped with the fetched copy" % ("taken only on one branch of replace_failed_proxy's result (switch bb%s)" % bad[1] if bad else "not reached after replace_failed_proxy"))
    ctx.floor("C06.D6", "copy-based storage back-ends calling replace_failed_proxy", n, 1)
    # and the store-level function does mark / promote before it may fail: confirmed by the Err-exit analysis of C04 (err-after-write holds only because the epoch is bumped first)



def _limiter_ignores_failover_state(ctx):
    F = ctx.F
    cands = [b for b in F.all_bodies(bins=False) if b.crate == "undermoon" and not b.is_mock() and b.kind == "AssocFn" and b.impl_adt == "broker::store::ClusterStore"
             and any((callee_of(t) or "").endswith("HashMap::entry") for bb, t in b.calls())
             and b.locals[0]["ty"].startswith("broker::store::ClusterStore") and "tests::" not in b.path]
    if not ctx.floor("C06.D8", "ClusterStore view limiter (returns a ClusterStore, counts in a map)", len(cands), 1):
        return
    for b in cands:
        ctx.analysed(b)
        fam = [x for x in F.all_bodies(bins=False) if x.path == b.path or x.path.startswith(b.path + "::{closure")]
        reads = []
        nkeys = 0
        for x in fam:
            dx = DefUse(x)
            for bb, t in x.calls():
                if (callee_of(t) or "").endswith("HashMap::entry") and len(t["args"]) > 1:
                    nkeys += 1
                    if any(n == "role_position" for a, n in dx.slice_operand(t["args"][1], deep=True).fields):
                        reads.append((x, bb))
            for blk in x.blocks:
                if blk.term["k"] == "switch" and any(n == "role_position" for a, n in dx.slice_operand(blk.term["discr"], deep=True).fields):
                    reads.append((x, blk.id))
        ctx.floor("C06.D8", "throttle keys in the limiter", nkeys, 1)
        ctx.check(not reads, "C06.D8", "limiter-ignores-role-position:%s" % b.path.rsplit("::", 1)[-1], site(reads[0][0], reads[0][1]) if reads else site(b), ok="neither the throttle key nor any decision of the limiter depends on a role position",
                  bad="the throttle key / a decision of the view limiter depends on ChunkStore.role_position: after a failover both parts of a chunk map to the same value, a running migration is then counted as over the limit, its range is shown as stable at the source and the importing range disappears from the destination")
