"""C02 - synced proxies route every key to the broker-designated master (DESIGN §5 C02):
positional plumbing of same-typed values across broker -> coordinator -> proxy, dispatch
order, and no-skip loop rules; the composed routing over all states is not decided."""
from ..facts import norm, callee_of, callee_decl, place_fields, const_int
from ..defuse import DefUse
from ..sccp import Interp, Oracle, Int, Bool, Agg, TOP
from .. import cfg
from ..lib import m, calls_to, site, agg_sites
from . import _migtables, _chunktables
from .C06 import tables_rules, to_slot_range_rule

EXPLANATION = (
    "Necessary structural conditions of end-to-end routing: (D1) the same-typed maps are plumbed positionally - the broker serves a proxy its own "
    "nodes, peers = masters on *other* proxies grouped per proxy address, and the cluster epoch; the coordinator puts into_nodes() into the local "
    "map and get_peers() into the peer map of ProxyClusterMeta (keyed by node / proxy address); the proxy builds LocalCluster from get_local() and "
    "RemoteCluster from get_peer() and feeds get_local() to the migration map; the proxy slot map inserts every range of every node (no element of "
    "the three nested loops can be skipped). (D2) dispatch order: migration map first, cluster map only on SlotNotFound; local before remote; MOVED "
    "names the address found for the same slot. (D3) node/proxy index tables (shared with C01/C06). (D4) redirection bound and phase routing "
    "tables: a command is only redirected between source and destination of its migration. The composition over all reachable states is NOT decided."
)
ASSUMPTIONS = ["composed routing over all broker states, slots and phases is behavioural and not decided"]
TRUSTED = []

MUTANTS = [
    {"name": "source-redirects-in-preswitch", "file": "src/migration/scan_task.rs", "old": "            MigrationState::PreBlocking | MigrationState::PreSwitch => {", "new": "            MigrationState::PreBlocking => {", "expect": "C02.D4:C03.D5:migrating:PreSwitch"},
    {"name": "proxy-local-peer-swapped", "edits": [
        {"file": "src/proxy/cluster.rs", "old": "        let slot_ranges = cluster_meta.get_local().clone();", "new": "        let slot_ranges = cluster_meta.get_peer().clone();"},
        {"file": "src/proxy/cluster.rs", "old": "        let peer_slot_ranges = cluster_meta.get_peer().clone();", "new": "        let peer_slot_ranges = cluster_meta.get_local().clone();"}],
     "expect": "C02.D1:proxy"},
    {"name": "coordinator-empty-peer-map", "file": "src/coordinator/sync.rs", "old": "        node_map,\n        peer_node_map,\n        clusters_config,", "new": "        node_map,\n        HashMap::new(),\n        clusters_config,", "expect": "C02.D1:coordinator"},
    {"name": "retry-falls-through-to-cluster-map", "file": "src/proxy/manager.rs", "old": "            ClusterSendError::Retry(cmd_ctx) => return Err(RetryError::new(cmd_ctx.into_inner())),", "new": "            ClusterSendError::Retry(cmd_ctx) => cmd_ctx,", "expect": "C02.D2"},
    {"name": "broker-peers-include-replicas", "file": "src/broker/query.rs", "old": ".filter(|n| n.get_role() == Role::Master && n.get_proxy_address() != address)", "new": ".filter(|n| n.get_proxy_address() != address)", "expect": "C02.D1:broker"},
    {"name": "slot-map-skips-tagged", "file": "src/proxy/slot.rs", "old": "            for slot_range in slot_ranges {\n                for range in", "new": "            for slot_range in slot_ranges {\n                if slot_range.tag.is_migrating() {\n                    continue;\n                }\n                for range in", "expect": "C02.D1:slot-map"},
    {"name": "moved-to-other-slot-owner", "file": "src/proxy/cluster.rs", "old": "        match self.slot_map.get(slot) {\n            Some(addr) => {\n                if self.remote_backend.is_some() {", "new": "        match self.slot_map.get(slot + 1) {\n            Some(addr) => {\n                if self.remote_backend.is_some() {", "expect": "C02.D2"},
    {"name": "importing-precheck-installs-preblocking", "file": "src/migration/scan_task.rs", "old": "            MgrSubCmd::PreCheck => self.state.set_state(MigrationState::PreCheck),", "new": "            MgrSubCmd::PreCheck => self.state.set_state(MigrationState::PreBlocking),", "expect": "C02.D4:handshake-step:PreCheck"},
    {"name": "peers-collected-into-map", "file": "src/broker/query.rs", "old": "            .group_by(|node| node.get_proxy_address().to_string())\n            .into_iter()\n            .map(|(proxy_address, nodes)| {\n                // Collect all slots from masters.\n                let slots = nodes.flat_map(Node::into_slots).collect();\n                PeerProxy {\n                    proxy_address,\n                    slots,\n                }\n            })", "new": "            .map(|node| (node.get_proxy_address().to_string(), node.into_slots()))\n            .collect::<std::collections::BTreeMap<String, Vec<_>>>()\n            .into_iter()\n            .map(|(proxy_address, slots)| PeerProxy {\n                proxy_address,\n                slots,\n            })", "expect": "C02.D1:view-lossless"},
    {"name": "importing-task-recreated-on-resync", "file": "src/migration/manager.rs", "old": "                        if let Some(importing_task) = old_task_map.get(&migration_meta) {\n                            migration_tasks.insert(migration_meta, importing_task.clone());\n                        }", "new": "                        let _ = migration_meta;\n                        continue;", "expect": "C02.D5:task-carried-over:Importing"},
    {"name": "cluster-not-found-without-local-nodes", "file": "src/proxy/cluster.rs", "after": "impl<S: CmdTaskSender> LocalCluster<S> {", "old": "        if self.cluster_name.is_empty() {\n            return Err(ClusterSendError::ClusterNotFound { task: cmd_task });", "new": "        if self.local_backend.nodes.is_empty() {\n            return Err(ClusterSendError::ClusterNotFound { task: cmd_task });", "expect": "C02.D5:cluster-not-found-only-without-cluster"},
]


def loop_can_skip(body, sinks):
    """for every natural loop: is there a way round the loop (head -> ... -> head) that avoids every sink block and every
    inner loop head?  returns [(head, path)] for loops that can skip"""
    out = []
    loops = {}
    for t_, h in cfg.natural_loops(body):
        loops.setdefault(h, set()).update(cfg.loop_blocks(body, t_, h))
    for h, blocks in loops.items():
        inner_heads = {h2 for h2, b2 in loops.items() if h2 != h and h2 in blocks and b2 < blocks}
        avoid = (set(sinks) | inner_heads) - {h}
        succs = {b: [s for s in body.succs()[b] if s in blocks] for b in blocks}
        p = cfg.path_between(body, h, h, avoid=avoid, succs={**body.succs(), **succs})
        if p is not None:
            out.append((h, p))
    return out


def run(ctx):
    F = ctx.F
    ctx.rule("C02.D1", "positional plumbing of same-typed maps broker -> coordinator -> proxy; slot map inserts every range")
    ctx.rule("C02.D2", "dispatch order: migration map, then local cluster, then MOVED to the owner of the same slot; later stages only on SlotNotFound")
    ctx.rule("C02.D3", "node / proxy index tables of the broker view (exhaustive)", exhaustive=True)
    ctx.rule("C02.D6", "shared with C09: the slot a command is routed by is the hash of its own key (provenance, re-derived after rewrites), the routing table covers single-slot ranges, local / MOVED / error trichotomy")
    ctx.rule("C02.D5", "`cluster not found` is answered only when the proxy has no cluster (empty cluster name), never because it hosts no master; re-applying metadata keeps the running migration tasks of both tags (their handshake state is not reset)")
    ctx.rule("C02.D4", "redirection bound and phase routing tables (only between source and destination)", exhaustive=True)
    _broker(ctx)
    _coordinator(ctx)
    _proxy(ctx)
    _slot_map(ctx)
    _dispatch(ctx)
    T = _chunktables.extract(ctx, "C02.D3")
    if T is not None:
        tables_rules(ctx, "C02.D3", T)
    to_slot_range_rule(ctx, "C02.D3")
    _redirection(ctx)
    _cluster_not_found(ctx)
    _tasks_carried_over(ctx)
    from ..engine import AliasCtx
    from . import C09 as _c09
    _c09.run(AliasCtx(ctx, "C02.D6", only={"C09.D5", "C09.D6", "C09.D7"}))
    # who executes in which handshake state: the two proxies change state at different moments (the destination is still in
    # PreCheck while the source is already in PreSwitch), so the source's table is checked state by state against the
    # handshake, not only against the destination's entry for the same state; and a command routed to the local node
    # under a stale "not blocking" hint must be re-routed once the blocking term has moved on (C11's decision table)
    from . import C03 as _c03, C11 as _c11
    _c03._phases(AliasCtx(ctx, "C02.D4", only={"C03.D5"}))
    _c11._send(AliasCtx(ctx, "C02.D4", only={"C11.D4"}))


def _filter_closure_table(ctx, F, c, address_cap="address"):
    """truth table of a node filter closure over (role == Master, proxy address == address)"""
    du = DefUse(c)
    role_eq = []; addr_cmp = []
    for bb, t in c.calls():
        d = callee_decl(t)
        if d in ("std::cmp::PartialEq::eq", "std::cmp::PartialEq::ne"):
            s0 = du.slice_operand(t["args"][0]); s1 = du.slice_operand(t["args"][1])
            if s0.has_call("Node::get_role") or s1.has_call("Node::get_role"):
                role_eq.append(t)
            elif s0.has_call("Node::get_proxy_address") or s1.has_call("Node::get_proxy_address"):
                other = s1 if s0.has_call("Node::get_proxy_address") else s0
                addr_cmp.append((t, address_cap in other.captures or any(True for _ in other.params)))
    return role_eq, addr_cmp


def broker_view_lossless(ctx, rid):
    """the served node / peer lists are built from the cluster's node list without any element-dropping operation
    (shared by C01: a dropped master = slots without an owner in that view)"""
    from ..lib import lossy_ops
    F = ctx.F
    n = 0
    for b in F.all_bodies(bins=False):
        if not b.path.startswith("broker::query::") or b.is_mock() or "tests::" in b.path or b.kind == "Promoted":
            continue
        du = None
        for bb, t in b.calls():
            c = callee_of(t) or ""
            if c.endswith("common::cluster::Proxy::new"):
                args = (("nodes", 3), ("peers", 4))
            elif c.endswith("common::cluster::Cluster::new"):
                args = (("nodes", 2),)
            else:
                continue
            du = du or DefUse(b)
            for label, ai in args:
                sl_ = du.slice_operand(t["args"][ai])
                if not (sl_.has_call("get_nodes") or sl_.has_field("ClusterStore", "chunks") or sl_.calls or sl_.decls):
                    continue   # an empty list literal (free proxy)
                n += 1
                lo = lossy_ops(b, sl_)
                ctx.check(not lo, rid, "view-lossless:%s:%s" % (b.path.rsplit("::", 1)[-1], label), site(b, lo[0][1]) if lo and lo[0][1] is not None else site(b, bb),
                          ok="no element-dropping operation between the stored nodes and the served %s" % label,
                          bad="the served %s pass through %s, which can drop nodes (e.g. a second master behind the same proxy replaces the first): their slots have no owner in this view" % (label, [x[0] for x in lo]))
    ctx.floor(rid, "served node / peer lists examined", n, 3)


def _broker(ctx):
    F = ctx.F
    b = F.one("MetaStoreQuery::get_proxy_by_address")
    if b is None:
        ctx.lost("C02.D1", "broker:get_proxy_by_address", "not found")
        return
    ctx.analysed(b)
    du = DefUse(b)
    news = [(bb, t) for bb, t in calls_to(b, "Proxy::new") if du.slice_operand(t["args"][2]).has_call("Cluster::get_epoch")]
    if not ctx.floor("C02.D1", "broker: Proxy::new for a member proxy", len(news), 1):
        return
    bb, t = news[0]
    nodes = du.slice_operand(t["args"][3]); peers = du.slice_operand(t["args"][4])
    ctx.check(nodes.has_call("Cluster::get_nodes") and nodes.has_call("filter"), "C02.D1", "broker:nodes", site(b, bb), ok="nodes = cluster nodes filtered", bad="nodes argument is not the filtered node list")
    from ..lib import lossy_ops
    grouped = any(x[0].startswith("collect-into-") and "Map" in x[0] for x in lossy_ops(b, peers)) or peers.has_call("group_by") or peers.has_call("into_group_map") or (peers.has_call("entry") and (peers.has_call("extend") or peers.has_call("append") or peers.has_call("push")))
    ctx.check(peers.has_call("Cluster::get_nodes") and grouped, "C02.D1", "broker:peers-grouped-per-proxy", site(b, bb),
              ok="peers are grouped per proxy address (one entry per peer proxy)", bad="peer entries are not grouped per proxy address: the coordinator keys its peer map by proxy address and would overwrite entries")
    broker_view_lossless(ctx, "C02.D1")
    ctx.check(du.slice_operand(t["args"][1]).has_param(2), "C02.D1", "broker:address", site(b, bb), ok="served under the queried address", bad="address argument is not the queried address")
    # filter closures
    kids = F.children(b)
    node_f = None; peer_f = None
    for c in kids:
        if c.locals[0]["ty"] != "bool":
            continue
        role_eq, addr_cmp = _filter_closure_table(ctx, F, c)
        if addr_cmp and role_eq:
            peer_f = (c, role_eq, addr_cmp)
        elif addr_cmp:
            node_f = (c, role_eq, addr_cmp)
    if node_f is None or peer_f is None:
        ctx.lost("C02.D1", "broker:filters", "node filter found=%s peer filter found=%s" % (node_f is not None, peer_f is not None))
        return
    role = F.adt("common::cluster::Role")
    for (c, role_eq, addr_cmp), label, want in ((node_f, "nodes", lambda master, same: same), (peer_f, "peers", lambda master, same: master and not same)):
        ctx.analysed(c)
        for master in (0, 1):
            for same in (0, 1):
                def call(interp, bbx, term, argvals, master=master, same=same):
                    for rt in role_eq:
                        if rt is term:
                            # compared with the promoted constant: which variant?
                            from ..sccp import deref_val
                            vals = [deref_val(interp, interp._st, v) for v in argvals]
                            lit = [v for v in vals if v[0] == "agg"]
                            is_master_lit = bool(lit) and role.variants[lit[0][2]]["name"] == "Master"
                            eq = (bool(master) == is_master_lit)
                            return Bool(eq if callee_decl(term).endswith("::eq") else not eq)
                    for at, _ in addr_cmp:
                        if at is term:
                            return Bool(bool(same) if callee_decl(term).endswith("::eq") else not same)
                    return None
                rv = Interp(F, c, Oracle(call=call)).run().return_value()
                exp = want(bool(master), bool(same))
                if label == "nodes" and not role_eq:
                    pass
                ctx.check(rv == Int(1 if exp else 0), "C02.D1", "broker:%s:master=%d,same-proxy=%d" % (label, master, same), site(c),
                          ok="kept" if exp else "dropped", bad="a node with master=%d on %s proxy is %s in `%s`" % (master, "the queried" if same else "another", "kept" if rv == Int(1) else "dropped" if rv == Int(0) else rv, label))
        ctx.check(all(x[1] for x in addr_cmp), "C02.D1", "broker:%s:compared-with-queried-address" % label, site(c), ok="compared with the queried address", bad="the proxy address is compared with something else than the queried address")


def _coordinator(ctx):
    F = ctx.F
    b = F.one("coordinator::sync::generate_proxy_meta_cmd_args")
    if b is None:
        ctx.lost("C02.D1", "coordinator:generate_proxy_meta_cmd_args", "not found")
        return
    ctx.analysed(b)
    du = DefUse(b)
    news = calls_to(b, "ProxyClusterMeta::new")
    if not ctx.floor("C02.D1", "coordinator: ProxyClusterMeta::new", len(news), 1):
        return
    bb, t = news[0]
    a = [du.slice_operand(x) for x in t["args"]]
    ctx.check(a[0].has_call("Proxy::get_epoch") and not a[0].binops, "C02.D1", "coordinator:epoch", site(b, bb), ok="epoch = proxy.get_epoch()", bad="epoch is not proxy.get_epoch()")
    ctx.check(a[3].has_call("Proxy::into_nodes") and not a[3].has_call("Proxy::get_peers") and a[3].has_call("HashMap::insert"), "C02.D1", "coordinator:local-map", site(b, bb),
              ok="local map <- proxy.into_nodes()", bad="the local map argument does not come from proxy.into_nodes() only: %s" % sorted(c.rsplit("::", 1)[-1] for c in a[3].calls)[:10])
    ctx.check(a[4].has_call("Proxy::get_peers") and not a[4].has_call("Proxy::into_nodes") and a[4].has_call("HashMap::insert"), "C02.D1", "coordinator:peer-map", site(b, bb),
              ok="peer map <- proxy.get_peers()", bad="the peer map argument does not come from proxy.get_peers(): %s" % sorted(c.rsplit("::", 1)[-1] for c in a[4].calls)[:10])
    ctx.check(a[2].has_call("Proxy::get_cluster_name"), "C02.D1", "coordinator:cluster-name", site(b, bb), ok="cluster name from the proxy", bad="cluster name is not the proxy's")
    ctx.check(a[5].has_call("get_cluster_config_or_default") or a[5].has_call("get_cluster_config"), "C02.D1", "coordinator:config", site(b, bb), ok="config from the proxy", bad="config is not the proxy's")
    for ib, it in calls_to(b, "HashMap::insert"):
        k = du.slice_operand(it["args"][1]); v = du.slice_operand(it["args"][2]); recv = du.slice_operand(it["args"][0], deep=False)
        # which map is it: the one that flows into the peer argument (4) or into the local-node argument (3) of ProxyClusterMeta::new
        named = {l for l in recv.locals if b.local_name(l)}
        rn = set()
        if named & {l for l in a[4].locals}:
            rn.add("peer_node_map")
        if named & {l for l in a[3].locals}:
            rn.add("node_map")
        if "peer_node_map" in rn and "node_map" not in rn:
            ctx.check(k.has_field("PeerProxy", "proxy_address") and v.has_field("PeerProxy", "slots"), "C02.D1", "coordinator:peer-map-entry", site(b, ib), ok="peer map: proxy_address -> slots", bad="peer map entry is not proxy_address -> slots")
        elif "node_map" in rn and "peer_node_map" not in rn:
            ctx.check(k.has_call("Node::get_address") and v.has_call("Node::into_slots"), "C02.D1", "coordinator:local-map-entry", site(b, ib), ok="local map: node address -> slots", bad="local map entry is not node address -> slots")
    sk = loop_can_skip(b, [ib for ib, _ in calls_to(b, "HashMap::insert")])
    ctx.check(not sk, "C02.D1", "coordinator:no-entry-skipped", site(b), ok="every node / peer is inserted", bad="a node or peer can be skipped when building the maps (loop head bb%s)" % [h for h, _ in sk])
    fm = F.one("coordinator::sync::filter_proxy_masters")
    if fm is None:
        ctx.lost("C02.D1", "coordinator:filter_proxy_masters", "not found")
    else:
        ctx.analysed(fm)
        dm = DefUse(fm)
        pn = calls_to(fm, "Proxy::new")
        if ctx.floor("C02.D1", "filter_proxy_masters: Proxy::new", len(pn), 1):
            x = [dm.slice_operand(y) for y in pn[0][1]["args"]]
            ctx.check(x[3].has_call("Proxy::into_nodes") and x[3].has_call("filter") and x[4].has_call("Proxy::get_peers") and x[2].has_call("Proxy::get_epoch") and x[1].has_call("Proxy::get_address"),
                      "C02.D1", "coordinator:filter-keeps-peers-epoch-address", site(fm, pn[0][0]), ok="filter keeps address, epoch and peers; only nodes are filtered", bad="filter_proxy_masters does not preserve address/epoch/peers")


def _proxy(ctx):
    F = ctx.F
    b = F.one("ClusterBackendMap::from_cluster_map")
    if b is None:
        ctx.lost("C02.D1", "proxy:from_cluster_map", "not found")
        return
    ctx.analysed(b)
    du = DefUse(b)
    lc = calls_to(b, "LocalCluster::from_slot_map"); rc = calls_to(b, "RemoteCluster::from_slot_map")
    if ctx.floor("C02.D1", "proxy: LocalCluster::from_slot_map", len(lc), 1) and ctx.floor("C02.D1", "proxy: RemoteCluster::from_slot_map", len(rc), 1):
        ls = [du.slice_operand(a) for a in lc[0][1]["args"]]
        rs = [du.slice_operand(a) for a in rc[0][1]["args"]]
        ctx.check(any(s.has_call("ProxyClusterMeta::get_local") for s in ls) and not any(s.has_call("ProxyClusterMeta::get_peer") for s in ls), "C02.D1", "proxy:local-from-get_local", site(b, lc[0][0]), ok="LocalCluster <- get_local()", bad="LocalCluster is not built from get_local()")
        ctx.check(any(s.has_call("ProxyClusterMeta::get_peer") for s in rs) and not any(s.has_call("ProxyClusterMeta::get_local") for s in rs), "C02.D1", "proxy:remote-from-get_peer", site(b, rc[0][0]), ok="RemoteCluster <- get_peer()", bad="RemoteCluster is not built from get_peer()")
    sm = F.one("MetaManager::set_meta")
    if sm is not None:
        ctx.analysed(sm)
        ds = DefUse(sm)
        cm = calls_to(sm, "create_new_migration_map")
        if ctx.floor("C02.D1", "set_meta: create_new_migration_map", len(cm), 1):
            ss = [ds.slice_operand(a) for a in cm[0][1]["args"]]
            ctx.check(any(s.has_call("ProxyClusterMeta::get_local") for s in ss) and not any(s.has_call("ProxyClusterMeta::get_peer") for s in ss), "C02.D1", "proxy:migration-map-from-get_local", site(sm, cm[0][0]),
                      ok="migration tasks are created from the local nodes' ranges", bad="the migration map is not fed with get_local()")
    for fn, fld in (("LocalCluster::from_slot_map", "local_backend"), ("RemoteCluster::from_slot_map", "slot_map")):
        q = F.one(fn)
        if q is None:
            ctx.lost("C02.D1", "proxy:" + fn, "not found")
            continue
        ctx.analysed(q)
        dq = DefUse(q)
        uses = calls_to(q, "SlotMap::from_ranges", "SenderMap::from_slot_map")
        ctx.check(bool(uses) and all(any(dq.slice_operand(a).has_param(k) for k in range(1, q.argc + 1) if "HashMap<std::string::String, std::vec::Vec<common::cluster::SlotRange>>" in q.locals[k]["ty"]) for bb, t in uses for a in t["args"][-1:]),
                  "C02.D1", "proxy:%s-uses-its-map" % fn.split("::")[0], site(q), ok="slot map built from the given ranges", bad="%s does not build its slot map from the map it is given" % fn)


def _slot_map(ctx, R="C02.D1"):
    F = ctx.F
    b = F.one("proxy::slot::SlotMap::from_ranges")
    if b is None:
        ctx.lost(R, "slot-map:from_ranges", "not found")
        return
    ctx.analysed(b)
    sinks = [bb for bb, t in calls_to(b, "Vec::push", "HashMap::insert")]
    if ctx.floor(R, "slot-map: push/insert", len(sinks), 2):
        sk = loop_can_skip(b, sinks)
        ctx.check(not sk, R, "slot-map:every-range-inserted", site(b), ok="no node, slot range or range can be skipped (3 nested loops)",
                  bad="a slot range can be left out of the slot map (way round the loop with head bb%s): its slots are routed as `not covered` / elsewhere" % [h for h, _ in sk],
                  path=str(cfg.lines_of_path(b, sk[0][1])) if sk else None)
        n_loops = len({h for _, h in cfg.natural_loops(b)})
        # the loop count is a fact about the spelling (a flat_map would have fewer), not about the property: information only
        ctx.info(R, "slot-map:loop-nest", "%d loops over nodes / slot ranges / ranges" % n_loops)
    d = F.one("proxy::slot::SlotMapData::new")
    if d is not None:
        ctx.analysed(d)
        dd = DefUse(d)
        # the index stored for a slot is the index of the address pushed last (addrs.len() - 1)
        ok = False
        for bb, i, s in d.assigns():
            rv = s["rv"]
            if rv["k"] == "agg" and rv.get("variant") == "Some":
                sl = dd.slice_operand(rv["ops"][0])
                if sl.has_call("Vec::len") and (sl.binops & {"Sub", "SubWithOverflow"}) and 1 in sl.const_ints():
                    ok = True
        ctx.check(ok, R, "slot-map:index-of-own-address", site(d), ok="slot -> index of the address just pushed", bad="slot entries do not store addrs.len() - 1")


def _dispatch(ctx):
    F = ctx.F
    b = F.one("proxy::manager::send_cmd_ctx")
    if b is None:
        ctx.lost("C02.D2", "send_cmd_ctx", "not found")
    else:
        ctx.analysed(b)
        du = DefUse(b)
        dom = cfg.dominators(b)
        ms = calls_to(b, "MigrationMap::send"); cs = calls_to(b, "ClusterBackendMap::send")
        if ctx.floor("C02.D2", "migration_map.send", len(ms), 1) and ctx.floor("C02.D2", "cluster_map.send", len(cs), 1):
            ctx.check(ms[0][0] in dom.get(cs[0][0], ()), "C02.D2", "migration-map-first", site(b, cs[0][0]), ok="migration map is consulted before the cluster map", bad="cluster_map.send is not dominated by migration_map.send")
            # cluster map is reached only through the SlotNotFound arm
            err = F.adt("proxy::cluster::ClusterSendError")
            snf = err.variant_names().index("SlotNotFound") if err else None
            res_l = ms[0][1]["dest"]["l"]
            reached_by = set()
            if snf is not None:
                for vi, v in enumerate(err.variants):
                    for okv in ("Err",):
                        def call(interp, bbx, term, argvals, vi=vi):
                            if term is ms[0][1]:
                                from ..sccp import Err as E
                                return E(Agg(err.path, vi, tuple([TOP] * len(v["fields"]))))
                            return None
                        r = Interp(F, b, Oracle(call=call)).run()
                        if cs[0][0] in r.exec_blocks:
                            reached_by.add(v["name"])
                def call_ok(interp, bbx, term, argvals):
                    if term is ms[0][1]:
                        from ..sccp import Ok as O, UNIT
                        return O(UNIT)
                    return None
                r = Interp(F, b, Oracle(call=call_ok)).run()
                if cs[0][0] in r.exec_blocks:
                    reached_by.add("Ok")
                ctx.check(reached_by == {"SlotNotFound"}, "C02.D2", "cluster-map-only-on-SlotNotFound", site(b, cs[0][0]),
                          ok="cluster map is used iff the migration map answers SlotNotFound", bad="cluster_map.send is reached when the migration map answers %s" % sorted(reached_by))
            # same task flows on
            ctx.check(du.slice_operand(cs[0][1]["args"][1]).has_call("MigrationMap::send"), "C02.D2", "same-command-flows-on", site(b, cs[0][0]), ok="the command returned by the migration map goes to the cluster map", bad="a different command is sent to the cluster map")
    c = F.one("ClusterBackendMap::send")
    if c is None:
        ctx.lost("C02.D2", "ClusterBackendMap::send", "not found")
    else:
        ctx.analysed(c)
        dom = cfg.dominators(c)
        ls = calls_to(c, "LocalCluster::send"); rs = calls_to(c, "RemoteCluster::send_remote")
        if ctx.floor("C02.D2", "local send", len(ls), 1) and ctx.floor("C02.D2", "remote send", len(rs), 1):
            ctx.check(ls[0][0] in dom.get(rs[0][0], ()), "C02.D2", "local-before-remote", site(c, rs[0][0]), ok="local cluster first", bad="remote lookup is not dominated by the local one")
            err = F.adt("proxy::cluster::ClusterSendError")
            reached = set()
            for vi, v in enumerate(err.variants):
                def call(interp, bbx, term, argvals, vi=vi):
                    if term is ls[0][1]:
                        from ..sccp import Err as E
                        return E(Agg(err.path, vi, tuple([TOP] * len(v["fields"]))))
                    return None
                r = Interp(F, c, Oracle(call=call)).run()
                if rs[0][0] in r.exec_blocks:
                    reached.add(v["name"])
            ctx.check(reached == {"SlotNotFound"}, "C02.D2", "remote-only-on-SlotNotFound", site(c, rs[0][0]), ok="MOVED lookup only when the slot is not local", bad="remote lookup reached on %s" % sorted(reached))
    r = F.one("RemoteCluster::send_remote")
    if r is None:
        ctx.lost("C02.D2", "RemoteCluster::send_remote", "not found")
    else:
        ctx.analysed(r)
        du = DefUse(r)
        gets = calls_to(r, "SlotMap::get"); slots = calls_to(r, "get_slot")
        if ctx.floor("C02.D2", "send_remote: slot lookup", len(gets), 1):
            sl = du.slice_operand(gets[0][1]["args"][1])
            ctx.check(sl.has_call("get_slot") and not sl.binops, "C02.D2", "moved-lookup-same-slot", site(r, gets[0][0]), ok="owner looked up for the command's own slot", bad="the MOVED target is looked up for a different slot (%s)" % sorted(sl.binops))
            mv = calls_to(r, "gen_moved")
            for bb, t in mv:
                s0 = du.slice_operand(t["args"][0]); s1 = du.slice_operand(t["args"][1])
                ctx.check(s0.has_call("get_slot") and not s0.binops and s1.has_call("SlotMap::get"), "C02.D2", "moved-reply-consistent", site(r, bb), ok="MOVED <slot> <owner of that slot>", bad="MOVED reply does not pair the command's slot with the address found for it")
            ctx.floor("C02.D2", "gen_moved in send_remote", len(mv), 1)
    l = F.one("LocalCluster::send")
    if l is not None:
        ctx.analysed(l)
        du = DefUse(l)
        gets = calls_to(l, "SlotMap::get")
        if ctx.floor("C02.D2", "LocalCluster::send slot lookup", len(gets), 1):
            sl = du.slice_operand(gets[0][1]["args"][1])
            ctx.check(sl.has_call("get_slot") and not sl.binops, "C02.D2", "local-lookup-same-slot", site(l, gets[0][0]), ok="local owner looked up for the command's own slot", bad="local lookup uses another slot")
            ng = calls_to(l, "HashMap::get")
            ctx.check(any(du.slice_operand(t["args"][1]).has_call("SlotMap::get") for bb, t in ng), "C02.D2", "local-sender-of-owner", site(l), ok="sender chosen by the address found for the slot", bad="the backend sender is not chosen by the slot's address")


def _redirection(ctx):
    F = ctx.F
    it = Interp(F, next(iter(F.bodies.values())))
    v = it._const_item("migration::scan_task::MAX_REDIRECTIONS")
    ctx.check(v is not None and v[0] == "int" and v[1] >= 4, "C02.D4", "max-redirections", None, ok="MAX_REDIRECTIONS = %s >= 4" % (v[1] if v and v[0] == "int" else v), bad="MAX_REDIRECTIONS = %s is below the three redirections a migrating slot may need" % (v,))
    st = _migtables.send_tables(ctx, "C02.D4")
    if st is None:
        return
    for s in st["states"]:
        mg, im = st["migrating"][s], st["importing"][s]
        ctx.check(mg in ("local", "redirect-dst"), "C02.D4", "migrating:%s" % s, site(st["bodies"]["migrating"]), ok="source: %s" % mg, bad="source proxy routes `%s` in state %s" % (mg, s))
        ctx.check(im in ("serve", "redirect-src"), "C02.D4", "importing:%s" % s, site(st["bodies"]["importing"]), ok="destination: %s" % im, bad="destination proxy routes `%s` in state %s" % (im, s))
    # exactly one side executes: the destination serves only from the handshake step at which the source stops executing
    from .C03 import _switch_vs_send
    _switch_vs_send(ctx, st, "C02.D4")
    # no ping-pong: never (source redirects to dst) while (dst redirects to src) in the same state
    for s in st["states"]:
        ctx.check(not (st["migrating"][s] == "redirect-dst" and st["importing"][s] == "redirect-src"), "C02.D4", "no-ping-pong:%s" % s, None,
                  ok="no mutual redirection", bad="in state %s source and destination redirect to each other" % s)


def _cluster_not_found(ctx):
    """a proxy that hosts only replicas (or whose masters own no slots yet) has an empty local node table but a full peer table:
    it must still answer MOVED.  ClusterNotFound may only come from the `no cluster name` test"""
    from ..lib import branch_conditions
    F = ctx.F
    n = 0
    for b in F.all_bodies(bins=False):
        if b.is_mock() or b.kind == "Promoted" or "tests::" in b.path or not b.path.startswith(("proxy::cluster::", "<proxy::cluster::")):
            continue
        sites_ = [(bb, i, st) for bb, i, st in agg_sites(b, "ClusterSendError", "ClusterNotFound")]
        if not sites_ or b.path.endswith(("::map_task", "::fmt")) or "ClusterSendError" in (b.impl_adt or ""):
            continue
        du = DefUse(b)
        dom = cfg.dominators(b)
        for bb, i, st in sites_:
            n += 1
            ctx.analysed(b)
            ok = False
            for d, discr, val in branch_conditions(b, bb, dom):
                is_true = (val == 1) or (isinstance(val, tuple) and val[1] == [0])
                sl = du.slice_operand(discr)
                if is_true and sl.has_call("ClusterName::is_empty"):
                    ok = True
            ctx.check(ok, "C02.D5", "cluster-not-found-only-without-cluster:%s#%d" % (b.path.rsplit("::", 1)[-1], n), site(b, bb, i), ok="ClusterNotFound only on cluster_name.is_empty()",
                      bad="%s answers ClusterNotFound on a condition other than an empty cluster name: a proxy without local masters (replica-only after a failover) stops consulting its peer table and clients starting there never reach the owner" % b.path)
    ctx.floor("C02.D5", "ClusterNotFound constructions in proxy::cluster", n, 2)


def _tasks_carried_over(ctx):
    """MigrationMap::update_from_old_task_map: a tagged range that is present in the old and in the new metadata keeps its
    task object - for the Migrating and for the Importing tag alike.  A recreated importing task starts in PreCheck again and
    redirects to the source while the source already redirects to it (unbounded MOVED ping-pong)"""
    F = ctx.F
    b = F.one("MigrationMap::update_from_old_task_map")
    tag = F.adt("common::cluster::SlotRangeTag")
    if b is None or tag is None:
        ctx.lost("C02.D5", "update_from_old_task_map", "not found")
        return
    ctx.analysed(b)
    du = DefUse(b)
    gets = [(bb, t) for bb, t in calls_to(b, "HashMap::get") if any(("migration::manager::MigrationMap", "task_map") in {(norm(a), n_) for a, n_ in du.slice_operand(x, deep=False).fields} or du.slice_operand(x, deep=False).has_param(1) for x in t["args"][:1])]
    ins = [(bb, t) for bb, t in calls_to(b, "HashMap::insert") if len(t["args"]) > 2 and du.slice_operand(t["args"][2]).has_call("HashMap::get")]
    if not (ctx.floor("C02.D5", "lookups in the old task map", len(gets), 1) and ctx.floor("C02.D5", "carried-over task insertions", len(ins), 1)):
        return
    # the tag switch that selects the arm: the discriminant read of a SlotRangeTag value
    arms = {}
    dom = cfg.dominators(b)
    from ..lib import branch_conditions
    for bb, t in ins:
        for d, discr, val in branch_conditions(b, bb, dom):
            pl = discr.get("mv") or discr.get("cp")
            for df in du.defs.get(pl["l"], []) if pl else []:
                if df[0] == "assign" and df[3]["rv"]["k"] == "discr":
                    p_ = df[3]["rv"]["p"]
                    fs = [(norm(a), n_) for a, n_ in place_fields(p_)]
                    if (fs and fs[-1] == ("common::cluster::SlotRange", "tag")) or "SlotRangeTag" in b.locals[p_["l"]]["ty"]:
                        if isinstance(val, int):
                            arms[tag.variants[val]["name"]] = bb
    for v in ("Migrating", "Importing"):
        ctx.check(v in arms, "C02.D5", "task-carried-over:%s" % v, site(b, arms.get(v, ins[0][0])), ok="an existing %s task is kept" % v.lower(),
                  bad="update_from_old_task_map does not carry an existing %s task over to the new map: the task (and its handshake state) is recreated on every metadata update" % v.lower())
