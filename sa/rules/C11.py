"""C11 - the pre-switch barrier stops source-side execution and loses nothing (DESIGN §5 C11):
the orderings the interleaving argument depends on; interleavings themselves are not explored."""
from ..facts import norm, callee_of, callee_decl, place_fields
from ..defuse import DefUse
from ..sccp import Interp, Oracle, Int, Bool, Agg, TOP
from .. import cfg
from ..lib import m, calls_to, site, agg_sites, is_atomic_call, atomic_method, ordering_arg_consts, drops_of, binop_sites, ATOMIC_WRITES

EXPLANATION = (
    "Orderings that the barrier's correctness argument needs, decided on all paths: in TaskBlockingQueue::send the running-command counter is "
    "taken before the blocking state is read, it is handed over to the CounterTask before the first guard is released, and after a successful "
    "enqueue the state is re-read and the queue released when blocking has stopped; the counter is modified only by the RAII pairs (new = +1, "
    "Drop = -1), so it cannot drift; blocking_done compares the counter with zero; pre_block starts blocking before it polls blocking_done and "
    "moves to PreSwitch only when blocking_done answered true; BlockingHandle::drop releases the queue exactly when the previous count was 1; "
    "every atomic operation involved is SeqCst; the hint decision table is the expected one. All interleavings of the atomic operations are a "
    "concurrency property and are NOT decided."
)
ASSUMPTIONS = ["interleavings of atomic operations are not explored (no model checking in this family)"]
TRUSTED = ["SeqCst semantics of std atomics", "crossbeam channel FIFO"]

Q = "proxy::blocking::TaskBlockingQueue"

MUTANTS = [
    {"name": "release-stops-on-send-error", "file": "src/proxy/blocking.rs", "old": "                error!(\n                    \"failed to send task when releasing blocking queue: {:?}\",\n                    err\n                );\n", "new": "                error!(\n                    \"failed to send task when releasing blocking queue: {:?}\",\n                    err\n                );\n                return;\n", "expect": "C11.D6:drains-until-empty"},
    {"name": "state-read-before-counter", "file": "src/proxy/blocking.rs", "old": "        let counter = RefAutoCounter::new(&self.running_cmd);\n        let BlockingState { blocking, term } = self.get_blocking_state();", "new": "        let BlockingState { blocking, term } = self.get_blocking_state();\n        let counter = RefAutoCounter::new(&self.running_cmd);", "expect": "C11.D1:counter-before-state"},
    {"name": "no-recheck-after-enqueue", "file": "src/proxy/blocking.rs", "old": "        let BlockingState { blocking, .. } = self.get_blocking_state();\n        if !blocking {\n            self.blocking_handle_inner.release_all();\n        }\n        Ok(())", "new": "        Ok(())", "expect": "C11.D1"},
    {"name": "relaxed-counter", "file": "src/proxy/blocking.rs", "after": "impl AutoCounter {", "old": "        counter.fetch_add(1, Ordering::SeqCst);\n        Self(counter)", "new": "        counter.fetch_add(1, Ordering::Relaxed);\n        Self(counter)", "expect": "C11.D3"},
    {"name": "release-unconditional-in-drop", "file": "src/proxy/blocking.rs", "old": "        if prev_blocking_count == 1 {\n            info!(\"migraition stop blocking\");", "new": "        if prev_blocking_count >= 1 {\n            info!(\"migraition stop blocking\");", "expect": "C11.D2:drop"},
    {"name": "preswitch-without-waiting", "file": "src/migration/scan_task.rs", "old": "        while !ctrl.blocking_done() {\n            tokio::time::sleep(Duration::from_millis(1)).await;\n        }\n        state.set_state(MigrationState::PreSwitch);", "new": "        if !ctrl.blocking_done() {\n            tokio::time::sleep(Duration::from_millis(1)).await;\n        }\n        state.set_state(MigrationState::PreSwitch);", "expect": "C11.D2:pre_block"},
    {"name": "extra-decrement", "file": "src/proxy/blocking.rs", "old": "                return self.inner_sender.send(counter_task).map_err(|err| {", "new": "                return self.inner_sender.send(counter_task).map_err(|err| {\n                    self.running_cmd.fetch_sub(1, Ordering::SeqCst);", "expect": "C11.D1:counter-raii-only"},
]


def run(ctx):
    F = ctx.F
    ctx.rule("C11.D1", "sender side: counter before state read; handed to CounterTask before release; re-check + release after enqueue; counter changed only by RAII pairs")
    ctx.rule("C11.D2", "writer side: start_blocking before polling; PreSwitch only after blocking_done; drop releases iff previous count == 1; blocking_done = (counter == 0)")
    ctx.rule("C11.D3", "all atomic operations of the barrier use SeqCst")
    ctx.rule("C11.D6", "release_all hands every queued command back: it loops until try_recv fails and re-sends each received task before the next receive")
    ctx.rule("C11.D5", "one barrier per backend: a queue handed out by BlockingMap::get_or_create is always the one registered in the map (a newly created queue replaces the stale entry unconditionally); the packed (count, term) word is updated by a compare-exchange loop that recomputes the new value from the value it read in the same iteration")
    ctx.rule("C11.D4", "hint decision table: state x hint x term ordering", exhaustive=True)
    _send(ctx)
    _raii(ctx)
    _writer(ctx)
    _orderings(ctx)
    _registry(ctx)
    _release_all(ctx)
    _handle_released_on_timeout(ctx)
    _cas_loops(ctx)


def _send_body(F):
    return F.body("proxy::blocking::TaskBlockingQueue::send")


def _send(ctx):
    F = ctx.F
    b = _send_body(F)
    if b is None:
        ctx.lost("C11.D1", "TaskBlockingQueue::send", "not found")
        return
    ctx.analysed(b)
    du = DefUse(b)
    dom = cfg.dominators(b)
    rc = calls_to(b, "RefAutoCounter::new")
    gs = [(bb, t) for bb, t in b.calls() if (callee_of(t) or "").endswith("get_blocking_state")]
    ct = calls_to(b, "CounterTask::new")
    inner = [(bb, t) for bb, t in b.calls() if t["args"] and (callee_decl(t) or "").endswith("CmdTaskSender::send") and any(n == "inner_sender" for a, n in du.slice_operand(t["args"][0], deep=False).fields)]
    enq = [(bb, t) for bb, t in b.calls() if t["args"] and (callee_of(t) or "").endswith("send") and any(n == "queue_sender" for a, n in du.slice_operand(t["args"][0], deep=False).fields)]
    rel = calls_to(b, "release_all")
    ok = ctx.floor("C11.D1", "RefAutoCounter::new", len(rc), 1) & ctx.floor("C11.D1", "get_blocking_state (two reads)", len(gs), 2) & ctx.floor("C11.D1", "CounterTask::new", len(ct), 1)
    ok &= ctx.floor("C11.D1", "inner_sender.send", len(inner), 1) & ctx.floor("C11.D1", "queue_sender.send", len(enq), 1) & ctx.floor("C11.D1", "release_all", len(rel), 1)
    if not ok:
        return
    first_gs = [g for g in gs if not any(e[0] in dom.get(g[0], ()) for e in enq)]
    second_gs = [g for g in gs if any(e[0] in dom.get(g[0], ()) for e in enq)]
    ctx.check(bool(first_gs) and all(rc[0][0] in dom.get(g[0], ()) and rc[0][0] != g[0] for g in first_gs), "C11.D1", "counter-before-state", site(b, rc[0][0]),
              ok="running_cmd is incremented before the blocking state is read", bad="the blocking state is read before the running-command counter is taken: a command can slip past a barrier that just observed zero")
    ctx.check(du.slice_operand(rc[0][1]["args"][0]).has_field("TaskBlockingQueue", "running_cmd"), "C11.D1", "counter-subject", site(b, rc[0][0]), ok="counts on self.running_cmd", bad="the guard does not count on running_cmd")
    ctx.check(du.slice_operand(ct[0][1]["args"][1]).has_field("TaskBlockingQueue", "running_cmd"), "C11.D1", "countertask-subject", site(b, ct[0][0]), ok="CounterTask counts on the same counter", bad="CounterTask does not hold running_cmd")
    # hand-over: the CounterTask is created while the first guard is still alive
    guard = rc[0][1]["dest"]["l"]
    drops = [d for d in drops_of(b, guard) if d != rc[0][0]]
    early = [d for d in drops if cfg.reaches(b, rc[0][0], d) and cfg.reaches(b, d, ct[0][0]) and d != ct[0][0]]
    ctx.check(not early, "C11.D1", "counter-handover", site(b, ct[0][0]), ok="the count never drops to zero between the state read and the hand-over to the CounterTask", bad="the first guard is released (bb%s) before CounterTask::new: the counter can reach zero while the command is still on its way" % early)
    ctx.check(ct[0][0] in dom.get(inner[0][0], ()), "C11.D1", "inner-send-carries-counter", site(b, inner[0][0]), ok="the backend send carries a CounterTask", bad="inner_sender.send is not dominated by CounterTask::new")
    ctx.check(du.slice_operand(inner[0][1]["args"][1]).has_call("CounterTask::new"), "C11.D1", "inner-send-argument", site(b, inner[0][0]), ok="sends the counted task", bad="inner_sender.send does not send the CounterTask")
    # re-check after a successful enqueue
    from .C04 import _exits
    ok_exits, err_exits = _exits(b)
    ok_exits = [x for x in ok_exits if b.blocks[x].term["k"] != "call"]
    p = None
    for x in ok_exits:
        if cfg.reaches(b, enq[0][0], x):
            p = p or cfg.path_between(b, enq[0][0], x, avoid={g[0] for g in second_gs})
    ctx.check(bool(second_gs) and p is None, "C11.D1", "recheck-after-enqueue", site(b, enq[0][0]), ok="after enqueueing the state is read again on every Ok path", bad="a command can be enqueued and acknowledged without re-reading the blocking state: it stays queued forever if blocking stopped in between")
    if second_gs:
        for blocking in (0, 1):
            def read(interp, bbx, place, val, blocking=blocking):
                return None

            def call(interp, bbx, term, argvals, blocking=blocking):
                for g in second_gs:
                    if g[1] is term:
                        return Agg("proxy::blocking::BlockingState", 0, (Int(blocking), TOP))
                for g in first_gs:
                    if g[1] is term:
                        return Agg("proxy::blocking::BlockingState", 0, (Int(1), TOP))
                return None
            res = Interp(F, b, Oracle(call=call)).run()
            r = any(x[0] in res.exec_blocks for x in rel)
            ctx.check(r == (blocking == 0), "C11.D1", "recheck:release-when-not-blocking:blocking=%d" % blocking, site(b, rel[0][0]), ok="release_all %s" % ("called" if r else "skipped"),
                      bad="after the enqueue, with blocking=%d, release_all is %s" % (blocking, "called" if r else "not called"))
    _hint_table(ctx, b, first_gs, inner, enq)


def _hint_table(ctx, b, first_gs, inner, enq):
    F = ctx.F
    hint = F.adt("proxy::blocking::BlockingHint")
    if hint is None:
        ctx.lost("C11.D4", "BlockingHint", "enum not found")
        return
    du = DefUse(b)
    gh = [(bb, t) for bb, t in b.calls() if (callee_of(t) or "").endswith("get_blocking_hint")]
    retry = [bb for bb, i, s in agg_sites(b, "SenderBackendError", "Retry")]
    cmps = []
    for bb, i, s in binop_sites(b, ("Le", "Lt", "Ge", "Gt")):
        cmps.append(s)
    if not (ctx.floor("C11.D4", "get_blocking_hint", len(gh), 1) and ctx.floor("C11.D4", "Retry construction", len(retry), 1)):
        return
    names = hint.variant_names()
    for blocking in (0, 1):
        for hv in names:
            orders = ("lt", "eq", "gt") if hv == "NotBlockingInMigration" else ("-",)
            for order in orders:   # current term ? command term
                vi = names.index(hv)
                nf = len(hint.variants[vi]["fields"])

                def call(interp, bbx, term, argvals, blocking=blocking, vi=vi, nf=nf):
                    for g in first_gs:
                        if g[1] is term:
                            return Agg("proxy::blocking::BlockingState", 0, (Int(blocking), ("sym", "term")))
                    for g in gh:
                        if g[1] is term:
                            return Agg(hint.path, vi, tuple([("sym", "cmd_term")] * nf))
                    return None

                def binop(interp, bbx, stmt, op, a, bv, order=order):
                    if a == ("sym", "term") and bv == ("sym", "cmd_term") or a == ("sym", "cmd_term") and bv == ("sym", "term"):
                        c = {"lt": -1, "eq": 0, "gt": 1, "-": 0}[order]
                        if a == ("sym", "cmd_term"):
                            c = -c
                        return Bool({"Lt": c < 0, "Le": c <= 0, "Gt": c > 0, "Ge": c >= 0, "Eq": c == 0, "Ne": c != 0}[op])
                    return None
                res = Interp(F, b, Oracle(call=call, binop=binop)).run()
                out = set()
                if any(x[0] in res.exec_blocks for x in inner):
                    out.add("pass")
                if any(x in res.exec_blocks for x in retry):
                    out.add("retry")
                if any(x[0] in res.exec_blocks for x in enq):
                    out.add("queue")
                if blocking:
                    want = {"queue"}
                elif hv == "NotBlocking":
                    want = {"pass"}
                elif hv == "Blocking":
                    want = {"retry"}
                else:
                    want = {"pass"} if order in ("lt", "eq") else {"retry"}
                ctx.check(out == want, "C11.D4", "blocking=%d,hint=%s,term-%s-cmd_term" % (blocking, hv, order), site(b), ok="%s" % sorted(want),
                          bad="state blocking=%d, hint %s, term %s cmd_term: outcome %s (expected %s)" % (blocking, hv, order, sorted(out), sorted(want)))


def _raii(ctx):
    F = ctx.F
    allowed = {"proxy::blocking::AutoCounter::new", "<proxy::blocking::AutoCounter as std::ops::Drop>::drop",
               "proxy::blocking::RefAutoCounter::new", "<proxy::blocking::RefAutoCounter as std::ops::Drop>::drop"}
    sites = []
    for b in F.all_bodies(bins=True):
        if b.kind == "Promoted" or b.is_mock():
            continue
        for bb, t in b.calls():
            if is_atomic_call(t) and atomic_method(t) in ATOMIC_WRITES and "i64" in (t.get("inst") or "") and b.path.startswith(("proxy::blocking", "<proxy::blocking")):
                sites.append((b, bb, t))
    if not ctx.floor("C11.D1", "counter modifications in proxy::blocking", len(sites), 4):
        return
    for b, bb, t in sites:
        root = b.path.split("::{")[0]
        ctx.analysed(b)
        ctx.check(root in allowed, "C11.D1", "counter-raii-only:%s:%s" % (root.replace("proxy::blocking::", ""), atomic_method(t)), site(b, bb),
                  ok="RAII pair", bad="running_cmd is modified by `%s` in %s, outside the +1/-1 RAII pairs: the counter can drift and blocking_done reports a wrong moment" % (atomic_method(t), root))
    # +1 in new, -1 in drop, by 1
    for fn, meth in (("proxy::blocking::AutoCounter::new", "fetch_add"), ("proxy::blocking::RefAutoCounter::new", "fetch_add"),
                     ("<proxy::blocking::AutoCounter as std::ops::Drop>::drop", "fetch_sub"), ("<proxy::blocking::RefAutoCounter as std::ops::Drop>::drop", "fetch_sub")):
        b = F.body(fn)
        if b is None:
            ctx.lost("C11.D1", fn, "not found")
            continue
        ops = [(bb, t) for bb, t in b.calls() if is_atomic_call(t)]
        good = len(ops) == 1 and atomic_method(ops[0][1]) == meth and ops[0][1]["args"][1].get("c", {}).get("int") == 1
        ctx.check(good, "C11.D1", "raii-step:%s" % fn.replace("proxy::blocking::", ""), site(b), ok="%s(1)" % meth, bad="%s does not perform exactly one %s(1)" % (fn, meth))
    # blocking_done == (counter == 0)
    for b in F.all_bodies(bins=False):
        if b.kind == "AssocFn" and b.path.endswith("TaskBlockingController>::blocking_done") and "TaskBlockingQueue" in b.path:
            ctx.analysed(b)
            du = DefUse(b)
            sl = du.slice_local(0)
            eqs = [s for bb, i, s in binop_sites(b, ("Eq",))]
            good = len(eqs) == 1 and any(s["rv"]["b"].get("c", {}).get("int") == 0 or s["rv"]["a"].get("c", {}).get("int") == 0 for s in eqs) and sl.has_field("TaskBlockingQueue", "running_cmd")
            ctx.check(good, "C11.D2", "blocking_done:counter-is-zero", site(b), ok="blocking_done = (running_cmd == 0)", bad="blocking_done is not `running_cmd == 0`")


def _writer(ctx):
    F = ctx.F
    bs = [b for b in F.all_bodies(bins=False) if b.path.endswith("::pre_block::{closure#0}") and b.path.startswith("migration::scan_task")]
    if not ctx.floor("C11.D2", "pre_block async body", len(bs), 1):
        return
    b = bs[0]
    ctx.analysed(b)
    dom = cfg.dominators(b)
    sb = [(bb, t) for bb, t in b.calls() if (callee_decl(t) or "").endswith("TaskBlockingController::start_blocking")]
    bd = [(bb, t) for bb, t in b.calls() if (callee_decl(t) or "").endswith("TaskBlockingController::blocking_done")]
    ss = [(bb, t) for bb, t in b.calls() if (callee_of(t) or "").endswith("AtomicMigrationState::set_state")]
    if not (ctx.floor("C11.D2", "start_blocking", len(sb), 1) and ctx.floor("C11.D2", "blocking_done poll", len(bd), 1) and ctx.floor("C11.D2", "set_state", len(ss), 1)):
        return
    ctx.check(all(sb[0][0] in dom.get(x[0], ()) for x in bd), "C11.D2", "pre_block:start-before-poll", site(b, bd[0][0]), ok="start_blocking dominates the blocking_done poll", bad="blocking_done is polled before blocking was started")
    for done in (0, 1):
        def call(interp, bbx, term, argvals, done=done):
            for x in bd:
                if x[1] is term:
                    return Bool(done)
            return None
        res = Interp(F, b, Oracle(call=call)).run()
        r = any(x[0] in res.exec_blocks for x in ss)
        ctx.check(r == bool(done), "C11.D2", "pre_block:preswitch-only-when-done:done=%d" % done, site(b, ss[0][0]), ok="PreSwitch %s" % ("set" if r else "not reachable"),
                  bad="with blocking_done() == %s the task %s to PreSwitch: commands handed to the source Redis may still be running" % (bool(done), "moves on" if r else "never moves"))
    du = DefUse(b)
    from ..lib import agg_variant_of
    av = agg_variant_of(du, ss[0][1]["args"][1])
    ctx.check(av is not None and av[1] == "PreSwitch", "C11.D2", "pre_block:state-value", site(b, ss[0][0]), ok="set_state(PreSwitch)", bad="pre_block sets %s" % (av,))
    # the handle is returned (kept alive by the caller)
    ctx.check(DefUse(b).slice_local(0).has_call("start_blocking"), "C11.D2", "pre_block:returns-handle", site(b), ok="the blocking handle is returned to the caller", bad="the blocking handle is dropped inside pre_block")
    # BlockingHandle::drop
    d = None
    for x in F.all_bodies(bins=False):
        if x.path.startswith("<proxy::blocking::BlockingHandle") and x.path.endswith("std::ops::Drop>::drop"):
            d = x
    if d is None:
        ctx.lost("C11.D2", "drop:BlockingHandle", "Drop impl not found")
        return
    ctx.analysed(d)
    dd = DefUse(d)
    rel = calls_to(d, "release_all")
    eqs = [(bb, i, s) for bb, i, s in binop_sites(d, ("Eq", "Ne", "Le", "Lt", "Ge", "Gt")) if dd.slice_operand(s["rv"]["a"]).has_call("compare_and_apply") or dd.slice_operand(s["rv"]["b"]).has_call("compare_and_apply")]
    if ctx.floor("C11.D2", "drop: release_all", len(rel), 1) and ctx.floor("C11.D2", "drop: comparison of the previous count", len(eqs), 1):
        s = eqs[0][2]
        for prev in (0, 1, 2, 3):
            def binop(interp, bbx, stmt, op, a, bv, prev=prev):
                if stmt is s:
                    other = bv if is_const(s["rv"]["b"]) else a
                    k = s["rv"]["b"]["c"].get("int") if is_const(s["rv"]["b"]) else s["rv"]["a"]["c"].get("int")
                    x, y = (prev, k) if is_const(s["rv"]["b"]) else (k, prev)
                    return Bool({"Eq": x == y, "Ne": x != y, "Lt": x < y, "Le": x <= y, "Gt": x > y, "Ge": x >= y}[op])
                return None
            res = Interp(F, d, Oracle(binop=binop)).run()
            r = any(x[0] in res.exec_blocks for x in rel)
            ctx.check(r == (prev == 1), "C11.D2", "drop:release-iff-last:prev=%d" % prev, site(d, rel[0][0]), ok="release_all %s" % ("called" if r else "skipped"),
                      bad="dropping a handle when the previous blocking count was %d %s the queue" % (prev, "releases" if r else "does not release"))


def is_const(op):
    return "c" in op


def _orderings(ctx):
    F = ctx.F
    n = 0
    for b in F.all_bodies(bins=False):
        if b.kind == "Promoted" or b.is_mock():
            continue
        if not b.path.startswith(("proxy::blocking", "<proxy::blocking", "common::biatomic", "<common::biatomic", "common::slot_lock", "<common::slot_lock")):
            continue
        for bb, t in b.calls():
            if is_atomic_call(t) and atomic_method(t) not in ("new", "default", "into_inner", "get_mut", "from"):
                ords = ordering_arg_consts(b, t)
                n += 1
                flat = [x for o in ords for x in o]
                ctx.analysed(b)
                ctx.check(bool(flat) and all(x == "SeqCst" for x in flat), "C11.D3", "seqcst:%s:%s#%d" % (b.path.split("::{")[0].replace("proxy::blocking::", "").replace("common::", ""), atomic_method(t), n), site(b, bb),
                          ok="SeqCst", bad="atomic %s uses ordering %s: the store-buffering pattern between sender and barrier is only correct under SeqCst" % (atomic_method(t), flat))
    ctx.floor("C11.D3", "atomic operations of the barrier", n, 8)


def _registry(ctx):
    """the sender of the command path and the migration task's controller must share one TaskBlockingQueue per backend
    address, otherwise blocking_done() is true while commands still run on the other queue.  Structural condition: in
    get_or_create every queue returned from create_ctrl was stored in the map by an unconditional insert before the
    return (or_insert* keeps a dead Weak and hands out an unregistered queue)"""
    F = ctx.F
    b = F.one("proxy::blocking::BlockingMap::get_or_create")
    if b is None:
        ctx.lost("C11.D5", "get_or_create", "BlockingMap::get_or_create not found")
        return
    ctx.analysed(b)
    du = DefUse(b)
    cr = calls_to(b, "BlockingMap::create_ctrl")
    if not ctx.floor("C11.D5", "create_ctrl calls in get_or_create", len(cr), 1):
        return
    ins = []
    for bb, t in b.calls():
        c = callee_of(t) or ""
        last = c.rsplit("::", 1)[-1]
        if last == "insert" and ("dashmap" in c or "DashMap" in c or "Entry" in c or "HashMap" in c):
            if any(du.slice_operand(a).has_call("create_ctrl") for a in t["args"][1:]):
                ins.append(bb)
    rets = set(b.return_blocks())
    for n, (bb, t) in enumerate(cr):
        esc = cfg.path_between(b, bb, next(iter(rets)), avoid=set(ins)) if rets else None
        esc_any = None
        for r in rets:
            pth = cfg.path_between(b, bb, r, avoid=set(ins))
            if pth is not None:
                esc_any = pth
        ctx.check(bool(ins) and esc_any is None, "C11.D5", "created-queue-is-registered#%d" % n, site(b, bb), ok="every path from create_ctrl to the return stores the new queue's Weak with insert()",
                  bad="a queue created by create_ctrl can be returned without being stored by an unconditional insert (or_insert keeps a dead entry): the caller gets an unregistered queue, the next caller another one, and the blocking barrier no longer sees the commands running on the first")
    ups = calls_to(b, "Weak::upgrade")
    ctx.check(bool(ups), "C11.D5", "live-entry-reused", site(b), ok="an entry that is still alive is reused (upgrade)", bad="existing queues are never reused: every caller gets its own queue")


def _cas_loops(ctx):
    """compare-exchange retry loops: the value installed must be computed, in the same iteration, from the value the
    loop read in that iteration (a load inside the loop or the Err(current) of the failed compare-exchange).  A new value
    computed once before the loop is installed over a concurrent update on the retry: an update of (count, term) is lost"""
    F = ctx.F
    n = 0
    for b in F.all_bodies(bins=False):
        if b.is_mock() or b.kind == "Promoted" or "tests::" in b.path or not b.path.startswith(("common::biatomic", "proxy::blocking", "<proxy::blocking")):
            continue
        cas = [(bb, t) for bb, t in b.calls() if (callee_of(t) or "").rsplit("::", 1)[-1] in ("compare_exchange", "compare_exchange_weak", "compare_and_swap")]
        if not cas:
            continue
        du = DefUse(b)
        loops = cfg.natural_loops(b)
        for bb, t in cas:
            inl = [cfg.loop_blocks(b, t_, h) for t_, h in loops if bb in cfg.loop_blocks(b, t_, h)]
            if not inl:
                continue
            n += 1
            ctx.analysed(b)
            lb = min(inl, key=len)
            new_op = t["args"][2]
            pl = new_op.get("mv") or new_op.get("cp")
            fresh = False
            if pl is not None:
                # every definition chain of the new value inside the loop, fed by a read made inside the loop
                # follow plain copies back to the statement / call that computes the value: it must sit inside the loop
                cur = pl["l"]
                seen = set()
                producers = []
                work = [cur]
                while work:
                    l = work.pop()
                    if l in seen:
                        continue
                    seen.add(l)
                    for d in du.defs.get(l, []):
                        if d[0] == "assign" and d[3]["rv"]["k"] == "use" and (d[3]["rv"]["a"].get("cp") or d[3]["rv"]["a"].get("mv")) and not (d[3]["rv"]["a"].get("cp") or d[3]["rv"]["a"].get("mv"))["p"]:
                            work.append((d[3]["rv"]["a"].get("cp") or d[3]["rv"]["a"].get("mv"))["l"])
                        elif d[0] in ("assign", "call"):
                            producers.append(d[1])
                fresh = bool(producers) and all(x in lb for x in producers)
            ctx.check(fresh, "C11.D5", "cas-new-value-recomputed:%s" % b.path.split("::{")[0], site(b, bb), ok="the new value is recomputed in every iteration from a value read in that iteration",
                      bad="the value installed by compare_exchange is not recomputed inside the retry loop from a fresh read: after a lost race the stale new value overwrites the concurrent update (one start_blocking / release is lost)")
    ctx.floor("C11.D5", "compare-exchange retry loops in the barrier code", n, 1)


def _release_all(ctx):
    """`loses nothing`: the commands parked in the blocking queue are all re-dispatched when blocking ends"""
    from .C02 import loop_can_skip
    F = ctx.F
    b = F.one("BlockingHandleInner::release_all")
    if b is None:
        ctx.lost("C11.D6", "release_all", "BlockingHandleInner::release_all not found")
        return
    ctx.analysed(b)
    du = DefUse(b)
    recv = [(bb, t) for bb, t in b.calls() if (callee_of(t) or "").rsplit("::", 1)[-1] in ("try_recv", "recv", "try_iter", "recv_timeout", "try_next")]
    sends = [(bb, t) for bb, t in b.calls() if (callee_decl(t) or callee_of(t) or "").rsplit("::", 1)[-1] == "send" and not (callee_of(t) or "").startswith("crossbeam")]
    loops = cfg.natural_loops(b)
    if not (ctx.floor("C11.D6", "receive from the blocking queue", len(recv), 1) and ctx.floor("C11.D6", "re-send of a released task", len(sends), 1) and ctx.floor("C11.D6", "drain loop", len(loops), 1)):
        return
    # the re-sent task is the received one
    ctx.check(any(du.slice_operand(t["args"][1]).has_call((callee_of(recv[0][1]) or "").rsplit("::", 1)[-1]) for bb, t in sends if len(t["args"]) > 1), "C11.D6", "resends-the-received-task", site(b, sends[0][0]),
              ok="the task taken from the queue is the one handed to the sender", bad="the re-sent task does not come from the queue")
    sk = loop_can_skip(b, [bb for bb, _ in sends])
    ctx.check(not sk, "C11.D6", "every-received-task-resent", site(b, sk[0][0]) if sk else site(b), ok="no iteration receives a task without re-sending it", bad="an iteration of the drain loop can take a task from the queue and go on without re-sending it: that command is lost (its client gets no reply)")
    # the loop ends only when the receive fails
    lb = set()
    for t_, h in loops:
        lb |= cfg.loop_blocks(b, t_, h)
    exits = [(x, y) for x in lb for y in b.succs()[x] if y not in lb and b.blocks[y].term["k"] != "unreachable"]
    dom = cfg.dominators(b)
    from ..lib import branch_conditions, producer_calls
    bad = []
    for x, y in exits:
        okx = False
        for d, discr, val in branch_conditions(b, y, dom) + branch_conditions(b, x, dom):
            pl = discr.get("mv") or discr.get("cp")
            for df in du.defs.get(pl["l"], []) if pl else []:
                if df[0] == "assign" and df[3]["rv"]["k"] == "discr" and b.locals[df[3]["rv"]["p"]["l"]]["ty"].startswith("std::result::Result<") and val == 1 and not df[3]["rv"]["p"]["p"] and any(c_.rsplit("::", 1)[-1] == (callee_of(recv[0][1]) or "").rsplit("::", 1)[-1] for c_, _b in producer_calls(b, du, {"cp": df[3]["rv"]["p"]})):
                    okx = True
        if not okx:
            bad.append((x, y))
    ctx.check(not bad, "C11.D6", "drains-until-empty", site(b, bad[0][0]) if bad else site(b), ok="the drain loop ends only on a failed receive (queue empty)", bad="the drain loop can end although the queue still has commands (exit edge bb%s->bb%s is not on the receive-failed branch): they stay parked for ever" % (bad[0] if bad else ("", "")))


def _handle_released_on_timeout(ctx):
    """`none stays queued forever`: run_migration bounds the blocking phase with max_blocking_time.  When the timeout wins
    the select, the future that owns the BlockingHandle must be dropped *before* the scan is awaited - dropping the
    handle is what lifts the barrier.  If that future lives on (a pinned / named future that is only dropped at the end of
    the function), the backend stays blocked for the whole scan."""
    F = ctx.F
    bs = [x for x in F.all_bodies(bins=False) if x.path.endswith("RedisScanMigratingTask::run_migration::{closure#0}") and not x.is_mock()]
    if not bs:
        ctx.lost("C11.D6", "run_migration", "async body not found")
        return
    b = bs[0]
    ctx.analysed(b)
    dom = cfg.dominators(b)
    inner = [x for x in F.all_bodies(bins=False) if x.path == b.path + "::{closure#0}"]
    owns = bool(inner) and any((callee_decl(t) or callee_of(t) or "").endswith("stop") or "BlockingHandle" in " ".join(t.get("atys") or []) for bb, t in inner[0].calls())
    V = [l for l in range(len(b.locals)) if "{async block@" in b.locals[l]["ty"] and not b.locals[l]["ty"].lstrip().startswith(("&", "std::pin::Pin<&", "std::task::Poll"))]
    into = [bb for bb, t in b.calls() if (callee_decl(t) or "").endswith("IntoFuture::into_future")]
    if not (ctx.floor("C11.D6", "future owning the blocking handle in run_migration", len(V), 1) and ctx.floor("C11.D6", "awaits in run_migration", len(into), 2)):
        return
    last = max(into, key=lambda x: len(dom.get(x, ())))
    drops = [(bb, t["place"]["l"]) for bb, t in b.iter_terms() if t["k"] == "drop" and t["place"]["l"] in V and not t["place"]["p"]]
    early = [bb for bb, l in drops if bb in dom.get(last, ())]
    late = [bb for bb, l in drops if cfg.reaches(b, last, bb) and bb not in dom.get(last, ())]
    ctx.check(bool(early) and owns, "C11.D6", "blocking-future-dropped-before-scan", site(b, (late or [last])[0]), ok="the future that holds the BlockingHandle is dropped before scan_migrate is awaited",
              bad="the future that holds the BlockingHandle is still alive while the scan is awaited (its only drops come after the last await): when max_blocking_time expires the barrier is not lifted and the parked commands stay queued for the whole scan")
