"""C13 - broker state loss is recoverable by epoch recovery (DESIGN §5 C13)."""
from ..facts import norm, callee_of, callee_decl, place_fields
from ..defuse import DefUse
from .. import cfg
from ..lib import m, calls_to, site, lin_offset, agg_variant_of
from .C04 import _restore_guard, MS, CS

EXPLANATION = (
    "Linear-offset dataflow (value = origin + k through copies and additions of constants) along the recovery chain "
    "MemBrokerService::recover_epoch -> every MetaStorage::recover_epoch impl -> MetaStore::recover_epoch: the value handed to the store "
    "is (largest epoch reported by any proxy) + k with total k >= 1; the store assigns max(that, global+1) to the global epoch and, in a "
    "loop without filter or early exit, to the epoch of every cluster; fetch_max_epoch folds all proxies' GETEPOCH answers with max "
    "starting from 0 over the unpaginated proxy list. Hence every epoch served afterwards (C04.D3: views carry cluster/global epoch) "
    "is strictly greater than every reachable proxy's epoch. MetaStore::restore's clock guard is decided as in C04."
)
ASSUMPTIONS = ["proxies unreachable during recovery are reported as failed_addresses (operator concern)", "re-convergence afterwards is property C07"]
TRUSTED = ["std::cmp::max"]

MUTANTS = [
    {"name": "both-plus-one-removed", "edits": [
        {"file": "src/broker/service.rs", "old": "self.storage.recover_epoch(max_epoch + 1).await?;", "new": "self.storage.recover_epoch(max_epoch).await?;"},
        {"file": "src/broker/storage.rs", "old": "self.store.write().recover_epoch(exsting_largest_epoch + 1);", "new": "self.store.write().recover_epoch(exsting_largest_epoch);"}],
     "expect": "C13.D1:strictly-greater"},
    {"name": "store-skips-clusters", "file": "src/broker/store.rs", "old": "        self.global_epoch = new_epoch;\n\n        for cluster in self.clusters.values_mut() {\n            cluster.epoch = new_epoch;\n        }\n    }", "new": "        self.global_epoch = new_epoch;\n    }", "expect": "C13.D1:store"},
    {"name": "store-max-without-plus-one", "file": "src/broker/store.rs", "old": "let new_epoch = max(exsting_largest_epoch, self.global_epoch + 1);", "new": "let new_epoch = max(exsting_largest_epoch, self.global_epoch);", "expect": "C13.D1:store"},
    {"name": "fetch-min-instead-of-max", "file": "src/broker/epoch.rs", "old": "                max_epoch = max(max_epoch, epoch);", "new": "                max_epoch = std::cmp::min(max(max_epoch, 1), epoch);", "expect": "C13.D1:fetch"},
    {"name": "paginated-proxy-list", "file": "src/broker/service.rs", "old": "let proxy_addresses = self.storage.get_proxy_addresses(None, None).await?;\n        let EpochFetchResult {", "new": "let proxy_addresses = self.storage.get_proxy_addresses(None, Some(100)).await?;\n        let EpochFetchResult {", "expect": "C13.D1:all-proxies"},
    {"name": "listing-skips-failed-proxies", "file": "src/broker/query.rs", "old": "        let it = self.store.all_proxies.keys().skip(offset);", "new": "        let failed = &self.store.failed_proxies;\n        let it = self\n            .store\n            .all_proxies\n            .keys()\n            .filter(move |a| !failed.contains(*a))\n            .skip(offset);", "expect": "C13.D3:store:lists-every-proxy"},
    {"name": "storage-default-page-size", "file": "src/broker/storage.rs", "old": "        let addresses = self.store.read().get_proxies_with_pagination(offset, limit);", "new": "        let addresses = self\n            .store\n            .read()\n            .get_proxies_with_pagination(offset, limit.or(Some(100)));", "expect": "C13.D3:storage:memory:pagination-verbatim"},
]


def run(ctx):
    F = ctx.F
    ctx.rule("C13.D1", "strictness chain: recovered epoch = max(m + k, g + 1), k >= 1 through service and every storage impl, assigned to global and every cluster; m = max over all proxies")
    ctx.rule("C13.D2", "MetaStore::restore clock guard (never installs a snapshot with a lower global epoch)")
    ctx.rule("C13.D3", "the recovery polls every recorded proxy: the storage back-ends pass offset / limit through unchanged and the store's listing drops no address (only skip(offset) / take(limit) driven by its parameters)")
    _polls_everyone(ctx)
    # ------------------------------------------------------------- service -> storage
    svc = [b for b in F.all_bodies(bins=False) if b.kind == "Closure" and b.path.startswith("broker::service::MemBrokerService::recover_epoch::")]
    k1s = []
    for b in svc:
        du = DefUse(b)
        for bb, t in b.calls():
            if callee_decl(t) == "broker::storage::MetaStorage::recover_epoch":
                ctx.analysed(b)
                o, k = lin_offset(b, du, t["args"][1])
                good = o[0] == "field" and o[1] == "max_epoch" and o[2][0] == "call" and (o[2][1] or "").startswith("broker::epoch::fetch_max_epoch")
                # the awaited result of fetch_max_epoch: origin may be a local produced by the await machinery
                if not good:
                    sl = du.slice_operand(t["args"][1])
                    good = sl.has_call("fetch_max_epoch") and sl.has_field("EpochFetchResult", "max_epoch") and o[0] != "const"
                ctx.check(good, "C13.D1", "service:argument-origin", site(b, bb), ok="storage.recover_epoch(max_epoch + %d), max_epoch from fetch_max_epoch" % k,
                          bad="the epoch handed to the storage does not derive from fetch_max_epoch().max_epoch: %s" % (o,))
                k1s.append(k)
        for bb, t in b.calls():
            if callee_decl(t) == "broker::storage::MetaStorage::get_proxy_addresses":
                a1 = agg_variant_of(du, t["args"][1]); a2 = agg_variant_of(du, t["args"][2])
                ctx.check(bool(a1 and a2 and a1[1] == "None" and a2[1] == "None"), "C13.D1", "all-proxies", site(b, bb),
                          ok="epochs are fetched from the complete (unpaginated) proxy list", bad="recover_epoch asks only a page of the proxies (offset/limit %s %s)" % (a1, a2))
            if m(callee_of(t), "broker::epoch::fetch_max_epoch"):
                sl = du.slice_operand(t["args"][0])
                ctx.check(sl.has_call("get_proxy_addresses"), "C13.D1", "fetch-subject", site(b, bb), ok="fetch_max_epoch(get_proxy_addresses())", bad="fetch_max_epoch is not given the storage's proxy list")
    if not ctx.floor("C13.D1", "call of MetaStorage::recover_epoch in MemBrokerService::recover_epoch", len(k1s), 1):
        return
    k1 = min(k1s)
    # ------------------------------------------------------------- every storage impl -> store
    impls = []
    for im in F.impls:
        if im["trait_n"] == "broker::storage::MetaStorage" and im.get("mac") not in ("automock", "mock") and im["crate"] == "undermoon":
            for it in im["items"]:
                if it["name"] == "recover_epoch":
                    impls.append(norm(it["def"]))
    if not ctx.floor("C13.D1", "MetaStorage::recover_epoch implementations", len(impls), 2):
        return
    for ip in sorted(impls):
        fam = [b for b in F.all_bodies(bins=False) if b.path == ip or b.path.startswith(ip + "::{")]
        found = False
        for b in fam:
            du = DefUse(b)
            for bb, t in calls_to(b, "broker::store::MetaStore::recover_epoch"):
                found = True
                ctx.analysed(b)
                o, k2 = lin_offset(b, du, t["args"][1])
                from_param = (o[0] == "capture" and "epoch" in o[1]) or o[0] == "param"
                ctx.check(from_param, "C13.D1", "storage:%s:argument-origin" % ip.split("::")[-2 if not ip.startswith("<") else -1], site(b, bb),
                          ok="store.recover_epoch(param + %d)" % k2, bad="the storage does not pass its epoch argument (+k) to the store: %s" % (o,))
                tot = k1 + k2
                ctx.check(from_param and tot >= 1, "C13.D1", "strictly-greater:%s" % ip, site(b, bb),
                          ok="recovered epoch >= max proxy epoch + %d" % tot, bad="recovered epoch = max(max proxy epoch + %d, g+1): not strictly greater than the proxies' epochs when the snapshot is older" % tot)
        if not found:
            # delegating implementation (e.g. replica storage) must forward to another impl
            b0 = [b for b in fam]
            fwd = any(callee_decl(t) == "broker::storage::MetaStorage::recover_epoch" for b in fam for bb, t in b.calls())
            ctx.check(fwd, "C13.D1", "storage:%s:forwards" % ip, site(fam[0]) if fam else None, ok="forwards to another storage", bad="%s neither calls MetaStore::recover_epoch nor forwards" % ip)
    # ------------------------------------------------------------- the store
    b = F.body(MS + "::recover_epoch")
    if b is None:
        ctx.lost("C13.D1", "store", "MetaStore::recover_epoch not found")
    else:
        ctx.analysed(b)
        du = DefUse(b)
        targets = {}
        for bb, i, s in b.assigns():
            fs = [(norm(a), n) for a, n in place_fields(s["place"])]
            if fs and fs[-1] in ((MS, "global_epoch"), (CS, "epoch")) and s["rv"]["k"] == "use":
                sl = du.slice_operand(s["rv"]["a"])
                mx = calls_to(b, "std::cmp::max")
                good = False
                for mb, mt in mx:
                    offs = [lin_offset(b, du, a) for a in mt["args"]]
                    has_param = any(o[0] == "param" and o[1] == 2 and k == 0 for o, k in offs)
                    has_g1 = any(o[0] == "field" and o[1] == "global_epoch" and k >= 1 for o, k in offs)
                    if has_param and has_g1 and mb in sl.calls.get("std::cmp::max", set()):
                        good = True
                targets[fs[-1]] = (bb, i, good)
                ctx.check(good, "C13.D1", "store:value:%s" % fs[-1][1], site(b, bb, i), ok="= max(argument, global_epoch + k), k >= 1", bad="recover_epoch assigns a value that is not max(argument, global_epoch + 1)")
        ctx.check((MS, "global_epoch") in targets and (CS, "epoch") in targets, "C13.D1", "store:assigns-global-and-clusters", site(b),
                  ok="global epoch and cluster epochs are both assigned", bad="recover_epoch assigns only %s" % sorted(n for _, n in targets))
        if (CS, "epoch") in targets:
            # the cluster loop iterates clusters.values_mut() without filter / early exit: the only way out of the loop is iterator exhaustion
            vm = [(bb, t) for bb, t in calls_to(b, "HashMap::values_mut") if (MS, "clusters") in du.slice_operand(t["args"][0], deep=False).fields]
            ctx.check(bool(vm), "C13.D1", "store:all-clusters", site(b), ok="iterates clusters.values_mut()", bad="cluster epochs are not assigned by iterating all clusters")
            wbb = targets[(CS, "epoch")][0]
            loops = [(t_, h) for t_, h in cfg.natural_loops(b) if wbb in cfg.loop_blocks(b, t_, h)]
            okl = bool(loops)
            for t_, h in loops:
                lb = cfg.loop_blocks(b, t_, h)
                exits = {(x, s) for x in lb for s in b.succs()[x] if s not in lb and b.blocks[s].term["k"] != "unreachable"}
                sw = [x for x in lb if b.blocks[x].term["k"] == "switch"]
                # exactly one conditional in the loop (the Option discriminant of next()), one exit edge
                if len(sw) != 1 or len(exits) != 1:
                    okl = False
            ctx.check(okl, "C13.D1", "store:no-filter-no-early-exit", site(b, wbb), ok="the cluster loop has a single conditional (iterator exhaustion) and a single exit",
                      bad="the loop assigning cluster epochs contains a filter or an early exit")
    # ------------------------------------------------------------- fetch_max_epoch
    fm = [x for x in F.all_bodies(bins=False) if x.path.startswith("broker::epoch::fetch_max_epoch::{")]
    ok = False
    for x in fm:
        du = DefUse(x)
        for bb, i, s in x.assigns():
            rv = s["rv"]
            if rv["k"] == "agg" and rv["ak"] == "adt" and norm(rv["adt"]) == "broker::epoch::EpochFetchResult":
                ctx.analysed(x)
                sl = du.slice_operand(rv["ops"][rv["fields"].index("max_epoch")])
                zero = 0 in sl.const_ints()
                other_fold = [c for c in sl.calls if c.rsplit("::", 1)[-1] in ("min", "sum", "last", "first")]
                good = sl.has_call("std::cmp::max") and zero and not other_fold and (sl.has_call("join_all") or sl.has_call("fetch_proxy_epoch"))
                ctx.check(good, "C13.D1", "fetch:fold-with-max", site(x, bb, i), ok="max_epoch = fold(max, 0, all results)", bad="fetch_max_epoch does not fold the proxies' epochs with max starting at 0 (calls %s)" % sorted(c.rsplit("::", 1)[-1] for c in sl.calls)[:12])
                ok = True
    if not ok:
        ctx.lost("C13.D1", "fetch:EpochFetchResult", "construction of EpochFetchResult not found in fetch_max_epoch")
    # ------------------------------------------------------------- D2
    rb = F.body(MS + "::restore")
    if rb is None:
        ctx.lost("C13.D2", "restore", "not found")
    else:
        ctx.analysed(rb)
        sub = _Sub(ctx, "C13.D2")
        _restore_guard(sub, rb)
        # nothing but the whole-store assignment may touch the epoch fields in restore
        for bb, i, s in rb.assigns():
            fs = [(norm(a), n) for a, n in place_fields(s["place"])]
            if fs and fs[-1] in ((MS, "global_epoch"), (CS, "epoch")):
                ctx.violation("C13.D2", "restore:partial-epoch-write", site(rb, bb, i), "restore rewrites %s.%s separately from the snapshot: cluster epochs and global epoch may disagree" % fs[-1])


class _Sub:
    """re-labels C04's restore-guard instances under C13.D2"""

    def __init__(self, ctx, rule):
        self.ctx = ctx
        self.rule = rule
        self.F = ctx.F

    def _k(self, key):
        return key

    def check(self, cond, rule, key, site_=None, ok="", bad="", path=None, extra=None):
        return self.ctx.check(cond, self.rule, key, site_, ok, bad, path, extra)

    def floor(self, rule, what, found, minimum):
        return self.ctx.floor(self.rule, what, found, minimum)

    def lost(self, rule, key, detail=""):
        return self.ctx.lost(self.rule, key, detail)

    def holds(self, rule, key, site_=None, detail="", extra=None):
        return self.ctx.holds(self.rule, key, site_, detail, extra)

    def violation(self, rule, key, site_=None, detail="", path=None, extra=None):
        return self.ctx.violation(self.rule, key, site_, detail, path, extra)

    def analysed(self, *b):
        return self.ctx.analysed(*b)


def _polls_everyone(ctx):
    """m = max over ALL recorded proxies: a proxy that is left out of the poll may hold the largest epoch, and every view
    served after the recovery is then not newer than what that proxy holds"""
    from ..lib import lossy_ops, producers
    F = ctx.F
    R = "C13.D3"
    n = 0
    for b in F.all_bodies(bins=False):
        if b.is_mock() or "tests::" in b.path or not b.path.endswith("::get_proxy_addresses::{closure#0}") or "MetaStorage>" not in b.path:
            continue
        n += 1
        ctx.analysed(b)
        du = DefUse(b)
        cs = [(bb, t) for bb, t in b.calls() if (callee_of(t) or "").endswith("get_proxies_with_pagination")]
        which = "memory" if "MemoryStorage" in b.path else "external"
        if not cs:
            ctx.violation(R, "storage:%s:delegates" % which, site(b), "%s does not call get_proxies_with_pagination" % b.path)
            continue
        bad = []
        for a in cs[0][1]["args"][1:3]:
            pr = producers(b, du, a)
            if any(k_ in ("const", "call", "via") for k_, c in pr):
                bad.append(pr)
        ctx.check(not bad, R, "storage:%s:pagination-verbatim" % which, site(b, cs[0][0]), ok="offset / limit handed to the store as received",
                  bad="offset / limit are altered before they reach the store (a default page size?): with None the caller means `all`, the recovery would poll only the first page")
    ctx.floor(R, "storage back-ends with get_proxy_addresses", n, 2)
    q = F.one("MetaStoreQuery::get_proxies_with_pagination")
    if q is None:
        ctx.lost(R, "get_proxies_with_pagination", "not found")
        return
    ctx.analysed(q)
    du = DefUse(q)
    ret = du.slice_local(0)
    lo = [x for x in lossy_ops(q, ret) if x[0] not in ("skip", "take")]
    filt = [c.rsplit("::", 1)[-1] for c in list(ret.calls) + list(ret.decls) if c.rsplit("::", 1)[-1] in ("filter", "filter_map", "retain", "dedup", "skip_while", "take_while")]
    ctx.check(ret.has_field("MetaStore", "all_proxies") and not lo and not filt, R, "store:lists-every-proxy", site(q), ok="all_proxies.keys() with skip(offset) / take(limit) only",
              bad="the proxy listing drops addresses (%s): a recorded proxy that is not listed is never asked for its epoch during recovery" % sorted(set(filt + [x[0] for x in lo])))
    for nm in ("skip", "take"):
        for c, bbs in ret.calls.items():
            if c.rsplit("::", 1)[-1] == nm:
                for bb in bbs:
                    t = q.blocks[bb].term
                    sl = du.slice_operand(t["args"][1])
                    ctx.check(bool(sl.params) and not [k for k in sl.const_ints() if k not in (0,)], R, "store:%s-from-parameter" % nm, site(q, bb), ok="%s(..) is driven by the caller's parameter" % nm, bad="%s(..) uses a built-in bound" % nm)
