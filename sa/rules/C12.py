"""C12 - proxy resources are accounted consistently; chunks span two hosts (DESIGN §5 C12)."""
from ..facts import norm, callee_of, callee_decl, place_fields
from ..defuse import DefUse
from ..effects import Effects
from ..feasible import feasible_views
from ..sccp import Interp, Oracle, Int, Bool, Agg, TOP
from .. import cfg
from ..lib import m, calls_to, site, agg_sites, binop_sites
from .C04 import classify, classify_type, _exits, _pre, _definite_write, _events

EXPLANATION = (
    "Accounting rules decided on all paths of the broker mutators: a registered proxy record is never overwritten (all_proxies is only extended by "
    "insert-if-absent and shrunk by remove); whenever cluster membership changes (chunks appended / retained away / cluster inserted or removed / an "
    "address replaced) the membership tags of the proxies are written on every Ok path; a refused request leaves no partial state (no Err exit after "
    "a definite write to chunks, clusters or tags; the completed takeover inside replace_failed_proxy is its own unit); the allocator's expect() calls "
    "are dominated by its own resource checks (NoAvailableResource / ResourceNotBalance) and by the check after trimming in remove_redundant_chunks; "
    "the second half of a new chunk is chosen among hosts different from the first; the replacement of a failed proxy must depend on the surviving "
    "partner's host (information-flow necessity). The allocator's result for all host layouts is numeric/combinatorial and NOT decided."
)
ASSUMPTIONS = ["allocator optimality and expect-freedom for all layouts are not decided beyond the dominance of the resource checks"]
TRUSTED = []

UPD = "broker::update::MetaStoreUpdate"
MS = "broker::store::MetaStore"
ERR = "broker::store::MetaStoreError"

MUTANTS = [
    {"name": "partner-host-only-a-tiebreak", "edits": [{"file": "src/broker/update.rs", "old": "        let link_count_table = link_table\n            .get(&failed_proxy_host)\n            .expect(\"consume_new_proxy: cannot find failed proxy\");\n        let select_host = |excluded_host: Option<&String>| {\n            link_count_table\n                .iter()\n                .filter(|(peer_host, _)| free_host_proxies.contains_key(*peer_host))\n                .filter(|(peer_host, _)| Some(*peer_host) != excluded_host)\n                .min_by(|(host1, count1), (host2, count2)| {\n                    Self::second_host_cmp(\n                        host1.as_str(),\n                        **count1,\n                        host2.as_str(),\n                        **count2,\n                        &free_host_proxies,\n                    )\n                })\n                .map(|(peer_host, _)| peer_host)\n        };\n        let peer_host = select_host(partner_host.as_ref())\n            .or_else(|| select_host(None))\n            .ok_or(MetaStoreError::NoAvailableResource)?;\n\n        let peer_proxy = MetaStoreQuery::new(self.store)\n", "new": "        let link_count_table = link_table\n            .get(&failed_proxy_host)\n            .expect(\"consume_new_proxy: cannot find failed proxy\");\n        // Select the host in a single pass:\n        // least linked first, then the one with most free proxies,\n        // and keep away from the partner host as long as another host is as good.\n        let is_partner = |host: &String| Some(host) == partner_host.as_ref();\n        let peer_host = link_count_table\n            .iter()\n            .filter(|(peer_host, _)| free_host_proxies.contains_key(*peer_host))\n            .min_by(|(host1, count1), (host2, count2)| {\n                Self::second_host_cmp(\n                    host1.as_str(),\n                    **count1,\n                    host2.as_str(),\n                    **count2,\n                    &free_host_proxies,\n                )\n                .then_with(|| is_partner(host1).cmp(&is_partner(host2)))\n            })\n            .map(|(peer_host, _)| peer_host)\n            .ok_or(MetaStoreError::NoAvailableResource)?;\n\n        let peer_proxy = MetaStoreQuery::new(self.store)\n"}], "expect": "C12.D3:partner-hard-excluded"},
    {"name": "add_proxy-overwrites-record", "file": "src/broker/update.rs", "old": "        self.store\n            .all_proxies\n            .entry(proxy_address.clone())\n            .or_insert_with(|| ProxyResource {", "new": "        self.store\n            .all_proxies\n            .remove(&proxy_address);\n        self.store\n            .all_proxies\n            .entry(proxy_address.clone())\n            .or_insert_with(|| ProxyResource {", "expect": "C12.D1"},
    {"name": "allocate-without-sum-check", "file": "src/broker/update.rs", "old": "        if sum_proxy_num < expected_num.get() {\n            return Err(MetaStoreError::NoAvailableResource);\n        }\n\n        if max_proxy_num * 2 > sum_proxy_num {", "new": "        if max_proxy_num * 2 > sum_proxy_num {", "expect": "C12.D2:allocator"},
    {"name": "second-host-may-equal-first", "file": "src/broker/update.rs", "old": "                        **host != first_host && free_count.is_some() && free_count != Some(0)", "new": "                        free_count.is_some() && free_count != Some(0)", "expect": "C12.D3:two-hosts"},
    {"name": "auto_add_nodes-no-tagging", "file": "src/broker/update.rs", "old": "                .expect(\"add_cluster: failed to get back proxy\");\n            proxy.cluster = Some(cluster_name.clone());\n        }\n\n        let nodes = cluster.get_nodes();\n        let new_nodes", "new": "                .expect(\"add_cluster: failed to get back proxy\");\n            let _ = proxy;\n        }\n\n        let nodes = cluster.get_nodes();\n        let new_nodes", "expect": "C12.D1:tags"},
    {"name": "add_cluster-err-after-tagging", "file": "src/broker/update.rs", "old": "        self.store.clusters.insert(cluster_name, cluster_store);\n        Ok(())\n    }\n\n    // This function should preserve the order", "new": "        if self.store.clusters.len() > 1_000_000 {\n            return Err(MetaStoreError::InvalidNodeNum);\n        }\n        self.store.clusters.insert(cluster_name, cluster_store);\n        Ok(())\n    }\n\n    // This function should preserve the order", "expect": "C12.D2:refusal-atomic:add_cluster"},
    {"name": "failover-skipped-when-already-marked", "file": "src/broker/update.rs", "old": "        self.takeover_master(&cluster_name, failed_proxy_address.clone())?;\n\n        // If enable_ordered_proxy", "new": "        if self.store.failed_proxies.contains(&failed_proxy_address) {\n            return Ok(None);\n        }\n        self.takeover_master(&cluster_name, failed_proxy_address.clone())?;\n\n        // If enable_ordered_proxy", "expect": "C12.D4:replacement-always-attempted"},
    {"name": "link-table-skips-single-host-chunks", "file": "src/broker/update.rs", "old": "                let second_host = chunk.hosts[1].clone();\n                let linked_num = link_table", "new": "                let second_host = chunk.hosts[1].clone();\n                if first_host == second_host {\n                    continue;\n                }\n                let linked_num = link_table", "expect": "C12.D4:link-table-row"},
]

MEMBER_TAGS = {"cluster-content", "clusters-map"}


def run(ctx):
    F = ctx.F
    ctx.rule("C12.D1", "accounting: registered records never overwritten; membership writes are followed by tag writes on every Ok path")
    ctx.rule("C12.D2", "refusal leaves no partial state; allocator expect() calls dominated by the resource checks")
    ctx.rule("C12.D4", "a failover for a cluster member always reaches the allocation (early Ok only outside a cluster / in ordered mode); the link table gets a row for both hosts of every existing chunk")
    ctx.rule("C12.D3", "two hosts: second half chosen among other hosts; replacement choice depends on the surviving partner's host")
    eff = Effects(F, classify, classify_type)
    _records(ctx)
    _tags(ctx, eff)
    _refusal(ctx, eff)
    _allocator(ctx)
    _two_hosts(ctx)
    _replacement(ctx)


def _records(ctx):
    F = ctx.F
    writers = {}
    for b in F.all_bodies(bins=True):
        if b.kind == "Promoted" or b.is_mock():
            continue
        du = None
        for bb, t in b.calls():
            c = callee_of(t) or ""
            last = c.rsplit("::", 1)[-1]
            if "HashMap" in c and last in ("insert", "remove", "entry", "clear", "retain", "drain", "extend", "get_mut", "values_mut", "iter_mut", "remove_entry") and t["args"]:
                du = du or DefUse(b)
                if (MS, "all_proxies") in du.slice_operand(t["args"][0], deep=False).fields:
                    writers.setdefault(last, set()).add(b.path.split("::{")[0])
    ctx.check("insert" not in writers and "clear" not in writers and "extend" not in writers and "retain" not in writers, "C12.D1", "records-never-overwritten", None,
              ok="all_proxies is modified only through %s" % {k: sorted(x.rsplit("::", 1)[-1] for x in v) for k, v in writers.items()},
              bad="all_proxies is modified with %s: an existing record (and its cluster tag) can be overwritten" % {k: sorted(v) for k, v in writers.items() if k in ("insert", "clear", "extend", "retain")})
    ctx.floor("C12.D1", "all_proxies entry()", len(writers.get("entry", ())), 1)
    rem = writers.get("remove", set())
    ctx.check(rem <= {UPD + "::remove_proxy"}, "C12.D1", "records-removed-only-by-remove_proxy", None, ok="records removed only by remove_proxy", bad="all_proxies.remove is called from %s" % sorted(rem))
    # remove_proxy refuses a proxy that is in use
    b = F.one(UPD + "::remove_proxy")
    if b is not None:
        ctx.analysed(b)
        du = DefUse(b)
        guards = [(bb, t) for bb, t in calls_to(b, "Option::is_some", "Option::is_none") if du.slice_operand(t["args"][0]).has_field("ProxyResource", "cluster")]
        rms = [bb for bb, t in calls_to(b, "HashMap::remove") if (MS, "all_proxies") in du.slice_operand(t["args"][0], deep=False).fields]
        if ctx.floor("C12.D1", "remove_proxy in-use test", len(guards), 1) and ctx.floor("C12.D1", "remove_proxy removal", len(rms), 1):
            for inuse in (0, 1):
                def call(interp, bbx, term, argvals, inuse=inuse):
                    for gb, gt in guards:
                        if gt is term:
                            return Bool(bool(inuse) == callee_of(term).endswith("is_some"))
                    return None
                res = Interp(F, b, Oracle(call=call)).run()
                r = any(x in res.exec_blocks for x in rms)
                ctx.check(r == (not inuse), "C12.D1", "remove_proxy:in-use=%d" % inuse, site(b), ok="removed" if r else "refused (InUse)", bad="a proxy with in-use=%d is %s" % (inuse, "removed" if r else "kept"))
    # a new record is born free
    ap = F.one(UPD + "::add_proxy")
    if ap is not None:
        fam = F.family(ap)
        ok = False
        for x in fam:
            for bb, i, s in agg_sites(x, "broker::store::ProxyResource"):
                rv = s["rv"]
                dx = DefUse(x)
                from ..lib import agg_variant_of
                av = agg_variant_of(dx, rv["ops"][rv["fields"].index("cluster")])
                ok = av is not None and av[1] == "None"
                where = x
        ctx.check(ok, "C12.D1", "new-record-is-free", site(ap), ok="ProxyResource is created with cluster: None", bad="a new ProxyResource is not created free")
        ctx.check(any(x is not ap for x in fam if agg_sites(x, "broker::store::ProxyResource")), "C12.D1", "new-record-only-if-absent", site(ap), ok="the record is built inside or_insert_with (only when absent)", bad="add_proxy builds the ProxyResource outside the insert-if-absent closure")


def _units(F, eff, names):
    out = []
    for n in names:
        b = F.body(UPD + "::" + n) or F.body("broker::migrate::MetaStoreMigrate::" + n)
        if b is not None:
            out.append(b)
    return out


def _tags(ctx, eff):
    F = ctx.F
    for b in _units(F, eff, ["add_cluster", "auto_add_nodes", "remove_cluster", "auto_delete_free_nodes", "replace_failed_proxy"]):
        ctx.analysed(b)
        name = b.path.rsplit("::", 1)[-1]
        evs = _events(ctx, eff, b)
        W = [e for e in evs if (e.tags & MEMBER_TAGS) and not (e.callee or "").endswith("takeover_master") and _membership_write(e)]
        T = {e.bb for e in evs if "proxy-tag" in e.tags}
        # the tagging happens inside loops / `if let Some(proxy) = all_proxies.get_mut(..)`: entering them counts
        for t_, hd in cfg.natural_loops(b):
            if T & cfg.loop_blocks(b, t_, hd):
                T = T | {hd}
        dub = DefUse(b)
        for gb, gt in calls_to(b, "HashMap::get_mut"):
            if (MS, "all_proxies") in dub.slice_operand(gt["args"][0], deep=False).fields:
                T = T | {gb}
        ok_exits, err_exits = _exits(b)
        views = feasible_views(F, b)
        if not ctx.floor("C12.D1", "%s membership writes" % name, len(W), 1):
            continue
        for e in W:
            bad = None
            if e.bb not in T:
                for desc, succs, res in views:
                    if res is not None and e.bb not in res.exec_blocks:
                        continue
                    pre = _pre(b, e.bb, T, succs)
                    if pre is None:
                        continue
                    for x in ok_exits:
                        post = cfg.path_between(b, e.bb, x, avoid=T, succs=succs) if x != e.bb else [x]
                        if post is not None:
                            bad = (desc, pre, post)
                            break
                    if bad:
                        break
            ctx.check(bad is None, "C12.D1", "tags:%s:%s" % (name, e.desc.replace(" ", "_")[:50]), site(b, e.bb, e.idx), ok="membership change is accompanied by a tag write on every Ok path",
                      bad="%s changes cluster membership but an Ok return is reachable without writing ProxyResource.cluster: free pool and membership stop being complements" % e.desc,
                      path=str(cfg.lines_of_path(b, bad[1] + bad[2][1:])) if bad else None)


def _membership_write(e):
    """writes that change which proxies are members (not role / slot / epoch edits)"""
    d = e.desc
    if "assign" in d:
        return any(n in ("proxy_addresses", "chunks") for _, n in e.fields)
    last = (e.callee or "").rsplit("::", 1)[-1]
    if last in ("append", "push", "insert", "remove", "retain", "extend", "truncate", "clear", "drain"):
        names = {n for _, n in e.fields}
        return bool(names & {"chunks", "clusters"}) or "clusters-map" in e.tags
    return False


def _refusal(ctx, eff):
    F = ctx.F
    for b in _units(F, eff, ["add_cluster", "auto_add_nodes", "replace_failed_proxy", "migrate_slots", "migrate_slots_to_scale_down", "remove_cluster", "auto_delete_free_nodes"]):
        name = b.path.rsplit("::", 1)[-1]
        evs = _events(ctx, eff, b)
        W = [e for e in evs if (e.tags & (MEMBER_TAGS | {"proxy-tag"})) and _definite_write(e) and not (e.callee or "").endswith("takeover_master")]
        ok_exits, err_exits = _exits(b)
        views = feasible_views(F, b)
        n = 0
        for e in W:
            bad = None
            for desc, succs, res in views:
                if res is not None and e.bb not in res.exec_blocks:
                    continue
                for x in err_exits:
                    if x == e.bb:
                        continue
                    post = cfg.path_between(b, e.bb, x, succs=succs)
                    if post is not None:
                        bad = (desc, post)
                        break
                if bad:
                    break
            n += 1
            ctx.check(bad is None, "C12.D2", "refusal-atomic:%s:%s" % (name, e.desc.replace(" ", "_")[:50]), site(b, e.bb, e.idx), ok="no Err return after this write",
                      bad="%s can be followed by an Err return: the request is refused but part of its effect stays" % e.desc, path=str(cfg.lines_of_path(b, bad[1])) if bad else None)
        ctx.floor("C12.D2", "%s definite writes" % name, n, 1)


def _allocator(ctx):
    F = ctx.F
    b = F.one(UPD + "::allocate_chunk")
    r = F.one(UPD + "::remove_redundant_chunks")
    if b is None or r is None:
        ctx.lost("C12.D2", "allocator", "allocate_chunk / remove_redundant_chunks not found")
        return
    ctx.analysed(b, r)
    dom = cfg.dominators(b)
    du = DefUse(b)
    exps = [bb for bb, t in calls_to(b, "Option::expect")]
    checks = {}
    for name in ("NoAvailableResource", "ResourceNotBalance"):
        checks[name] = [bb for bb, i, s in agg_sites(b, ERR, name)]
    cmps = []
    for bb, i, s in binop_sites(b, ("Lt", "Le", "Gt", "Ge")):
        sa = du.slice_operand(s["rv"]["a"], deep=False); sb = du.slice_operand(s["rv"]["b"], deep=False)
        a_sum, b_sum = sa.has_call("Iterator::sum"), sb.has_call("Iterator::sum")
        a_max, b_max = sa.has_call("unwrap_or") or sa.has_call("Iterator::max"), sb.has_call("unwrap_or") or sb.has_call("Iterator::max")
        a_get, b_get = sa.has_call("NonZero::get"), sb.has_call("NonZero::get")
        if (a_sum and b_get and not a_max) or (b_sum and a_get and not b_max):
            cmps.append(("sum-vs-expected", bb))
        elif (a_max and b_sum) or (b_max and a_sum):
            cmps.append(("max-vs-sum", bb))
    kinds = {k for k, _ in cmps}
    if ctx.floor("C12.D2", "expect() calls in allocate_chunk", len(exps), 4):
        ctx.check("sum-vs-expected" in kinds and bool(checks["NoAvailableResource"]), "C12.D2", "allocator:enough-proxies-check", site(b), ok="sum of free proxies is compared with the request (NoAvailableResource)", bad="allocate_chunk pairs proxies without checking that enough free proxies exist: its expect() calls can panic on a skewed pool")
        ctx.check("max-vs-sum" in kinds and bool(checks["ResourceNotBalance"]), "C12.D2", "allocator:balance-check", site(b), ok="largest host is compared with the total (ResourceNotBalance)", bad="allocate_chunk does not check host balance before pairing")
        for k, cb in cmps:
            ctx.check(all(cb in dom.get(e, ()) for e in exps), "C12.D2", "allocator:check-dominates-expects:%s" % k, site(b, cb), ok="check precedes every expect()", bad="an expect() in allocate_chunk is not dominated by the %s check" % k)
    # remove_redundant_chunks: the NoAvailableResource check comes after the trimming loop
    dr = DefUse(r)
    domr = cfg.dominators(r)
    pops = [bb for bb, t in calls_to(r, "Vec::pop")]
    na = [bb for bb, i, s in agg_sites(r, ERR, "NoAvailableResource")]
    cm = [bb for bb, i, s in binop_sites(r, ("Lt", "Le", "Gt", "Ge")) if (dr.slice_operand(s["rv"]["b"]).has_call("get") and (dr.slice_operand(s["rv"]["a"]).has_call("sum") or dr.slice_operand(s["rv"]["a"]).has_call("len")) and bool(agg_sites(r, ERR, "NoAvailableResource")) and any(cfg.reaches(r, bb, x) for x, _i, _s in agg_sites(r, ERR, "NoAvailableResource")))]
    if ctx.floor("C12.D2", "remove_redundant_chunks trimming", len(pops), 1) and ctx.floor("C12.D2", "remove_redundant_chunks resource check", len(cm), 1):
        ctx.check(bool(na) and all(not cfg.reaches(r, c, p) for c in cm for p in pops), "C12.D2", "allocator:check-after-trimming", site(r, cm[0]), ok="the free-proxy count is checked after the largest host was trimmed", bad="remove_redundant_chunks checks the free-proxy count before trimming the largest host: the trimmed pool can be smaller than the request")


def _cmp_capture_with_param(F, c, cd, t):
    """a comparison between a captured String of the enclosing function (the host chosen first) and the closure's own
    argument (a candidate host)"""
    from ..lib import capture_types
    s0 = cd.slice_operand(t["args"][0]); s1 = cd.slice_operand(t["args"][1])
    for a_, b_ in ((s0, s1), (s1, s0)):
        caps = capture_types(F, c, a_.captures)
        if any("String" in ty or "str" in ty for ty in caps.values()) and any(l >= 2 for l, _ in b_.params) and not b_.captures:
            return True
    return False


def _two_hosts(ctx):
    F = ctx.F
    b = F.one(UPD + "::allocate_chunk")
    if b is None:
        return
    cands = []
    for c in F.children(b):
        if c.locals[0]["ty"] != "bool":
            continue
        cd = DefUse(c)
        nes = [(bb, t) for bb, t in c.calls() if callee_decl(t) in ("std::cmp::PartialEq::ne", "std::cmp::PartialEq::eq") and _cmp_capture_with_param(F, c, cd, t)]
        if nes:
            cands.append((c, nes))
    if not cands:
        ctx.violation("C12.D3", "two-hosts:filter", site(b), "the candidates for the second half of a chunk are not compared with the first host: both halves can land on one host")
        return
    c, nes = cands[0]
    ctx.analysed(c)
    for same in (0, 1):
        def call(interp, bbx, term, argvals, same=same):
            for nb, nt in nes:
                if nt is term:
                    return Bool(bool(same) == callee_decl(term).endswith("::eq"))
            d = callee_decl(term)
            if d in ("std::cmp::PartialEq::ne", "std::cmp::PartialEq::eq"):
                return Bool(d.endswith("::ne"))     # free_count != Some(0) etc: favourable
            if (callee_of(term) or "").endswith("Option::is_some"):
                return Bool(True)
            return None
        rv = Interp(F, c, Oracle(call=call)).run().return_value()
        ctx.check(rv == Int(0 if same else 1), "C12.D3", "two-hosts:candidate-same-host=%d" % same, site(c), ok="rejected" if same else "accepted", bad="a candidate on %s host is %s" % ("the first" if same else "another", "accepted" if rv == Int(1) else "rejected" if rv == Int(0) else rv))
    # the filter result feeds the choice of the second address
    du = DefUse(b)
    pushes = calls_to(b, "Vec::push")
    ctx.check(any(du.slice_operand(t["args"][1]).has_call("Iterator::filter") for bb, t in pushes), "C12.D3", "two-hosts:second-from-filtered", site(b), ok="second address comes from the filtered hosts", bad="the pair is not built from the filtered candidates")


def _replacement(ctx):
    F = ctx.F
    b = F.one(UPD + "::generate_new_free_proxy")
    if b is None:
        ctx.lost("C12.D3", "generate_new_free_proxy", "not found")
        return
    ctx.analysed(b)
    du = DefUse(b)
    ret = du.slice_local(0)
    # information-flow necessity: to avoid the surviving partner's host the choice must depend on the chunk's hosts / partner record
    depends = ret.has_field("ChunkStore", "hosts") or ret.has_field("ChunkStore", "proxy_addresses") or ret.has_call("get_partner_host") or any("partner" in (b.local_name(l) or "") for l in ret.locals)
    ctx.check(depends, "C12.D3", "replacement-ignores-partner-host", site(b), ok="the replacement choice depends on the surviving partner's host",
              bad="generate_new_free_proxy chooses the replacement from the failed proxy's own host links only; the surviving partner's host never flows into the choice, so the new proxy can land on the partner's host although another host has a free proxy")
    _partner_hard_excluded(ctx, b)
    _partner_index(ctx)
    _failover_attempted(ctx)
    _link_table_rows(ctx)


def _idx_const(b, du, e):
    if isinstance(e, dict) and "idx" in e:
        for d in du.defs.get(e["idx"], []):
            if d[0] == "assign" and d[3]["rv"]["k"] == "use" and "c" in d[3]["rv"]["a"]:
                return d[3]["rv"]["a"]["c"].get("int")
    if isinstance(e, dict) and "ci" in e:
        return e["ci"]
    return None


def _field_index_reads(b, du, field):
    """[(bb, dest local, index)] of `&chunk.<field>[const]` reads"""
    out = []
    for bb, i, st in b.assigns():
        rv = st["rv"]
        pl = rv.get("p") if rv["k"] in ("ref", "use") else None
        if rv["k"] == "use":
            pl = rv["a"].get("cp") or rv["a"].get("mv")
        if not pl:
            continue
        pr = pl["p"]
        for k, e in enumerate(pr):
            if isinstance(e, dict) and e.get("name") == field and k + 1 < len(pr):
                ix = _idx_const(b, du, pr[k + 1])
                if ix is not None:
                    out.append((bb, st["place"]["l"], ix))
    return out


def _idx_local(e):
    return e["idx"] if isinstance(e, dict) and "idx" in e else None


def _partner_hard_excluded(ctx, b):
    """`a host different from the partner's whenever one has a free proxy`: the partner's host is removed from the candidates
    before the best one is picked (and only an empty result falls back to all hosts).  As a mere tie-breaker of the
    ranking it loses against a less linked partner host."""
    F = ctx.F
    fam = [x for x in F.all_bodies(bins=False) if x.path == b.path or x.path.startswith(b.path + "::{closure")]
    picks = []
    for x in fam:
        dx = DefUse(x)
        for bb, t in x.calls():
            d = callee_decl(t) or ""
            if d.rsplit("::", 1)[-1] in ("min_by", "min_by_key", "max_by", "max_by_key", "min", "max") and d.startswith("std::iter::Iterator::"):
                picks.append((x, dx, bb, t))
    if not picks:
        ctx.info("C12.D3", "partner-hard-excluded", "no iterator min/max selection in generate_new_free_proxy: exclusion not decided")
        return
    ok = False
    for x, dx, bb, t in picks:
        sl = dx.slice_operand(t["args"][0])
        fbbs = sl.decls.get("std::iter::Iterator::filter", set()) | sl.calls.get("std::iter::Iterator::filter", set())
        for fb in fbbs:
            ft = x.blocks[fb].term
            # the closure given to this filter
            csl = dx.slice_operand(ft["args"][1], deep=False) if len(ft["args"]) > 1 else None
            cl_paths = [norm(st["rv"]["def"]) for bb2, i, st in x.assigns() if st["rv"]["k"] == "agg" and st["rv"].get("ak") == "closure" and csl is not None and st["place"]["l"] in csl.locals]
            for cp in cl_paths:
                cb = F.bodies.get(cp)
                if cb is None:
                    continue
                cdu = DefUse(cb)
                for b3, t3 in cb.calls():
                    if (callee_decl(t3) or "") in ("std::cmp::PartialEq::ne", "std::cmp::PartialEq::eq"):
                        if any(cdu.slice_operand(a).captures or cdu.slice_operand(a).has_param(1) for a in t3["args"]):
                            ok = True
    ctx.check(ok, "C12.D3", "partner-hard-excluded", site(b), ok="the candidates are filtered by an equality test against a captured host before the best one is picked",
              bad="no equality filter in front of the min/max pick: the partner's host is at best a tie-breaker, so a less linked partner host wins although another host has a free proxy and both halves of the chunk land on one host")


def _symbolic_partner(b, du):
    """True / False when both arrays are indexed by locals and the relation can be read off; None otherwise"""
    pa_l = hs_l = None
    for bb, i, st in b.assigns():
        rv = st["rv"]
        pl = rv.get("p") if rv["k"] == "ref" else None
        if not pl:
            continue
        pr = pl["p"]
        for k, e in enumerate(pr):
            if isinstance(e, dict) and e.get("name") == "proxy_addresses" and k + 1 < len(pr) and _idx_local(pr[k + 1]) is not None:
                pa_l = _idx_local(pr[k + 1])
            if isinstance(e, dict) and e.get("name") == "hosts" and k + 1 < len(pr) and _idx_local(pr[k + 1]) is not None:
                hs_l = _idx_local(pr[k + 1])
    if pa_l is None or hs_l is None:
        return None
    from ..lib import producers
    pp = producers(b, du, {"cp": {"l": pa_l, "p": []}})
    hp = producers(b, du, {"cp": {"l": hs_l, "p": []}})
    # hosts index = 1 - (the proxy_addresses index): a Sub whose constant is 1 and whose other operand shares a producer
    sl = du.slice_operand({"cp": {"l": hs_l, "p": []}})
    is_sub = bool(sl.binops & {"Sub", "SubWithOverflow"}) and 1 in sl.const_ints()
    same_var = bool({l for l in sl.locals if b.local_name(l)} & {l for l in du.slice_operand({"cp": {"l": pa_l, "p": []}}).locals if b.local_name(l)})
    if is_sub and same_var:
        return True
    if same_var and not is_sub:
        return False
    return None


def _partner_index(ctx):
    """the partner of the proxy at position i of a chunk is the proxy at position 1 - i: in every helper that looks a proxy
    up by proxy_addresses[i] and answers with hosts[j], i != j"""
    from ..lib import branch_conditions
    F = ctx.F
    b = F.one(UPD + "::get_partner_host")
    if b is None:
        ctx.info("C12.D3", "partner-index", "no get_partner_host helper (partner lookup is inline)")
        return
    ctx.analysed(b)
    du = DefUse(b)
    dom = cfg.dominators(b)
    pa = _field_index_reads(b, du, "proxy_addresses")
    hs = _field_index_reads(b, du, "hosts")
    if len(pa) < 2 or len(hs) < 2:
        # the loop spelling: proxy_addresses[i] paired with hosts[1 - i]
        sym = _symbolic_partner(b, du)
        if sym is None:
            ctx.info("C12.D3", "partner-index", "get_partner_host does not use the constant-index or the `1 - i` spelling: pairing not decided")
        else:
            ctx.check(sym, "C12.D3", "partner-index:symbolic", site(b), ok="proxy_addresses[i] is answered with hosts[1 - i]", bad="the host index is not `1 - i` of the proxy_addresses index: the proxy's own host is returned as its partner's")
        return
    seen = set()
    for hb, hl, j in hs:
        conds = branch_conditions(b, hb, dom)
        idxs = set()
        for d, discr, val in conds:
            is_true = (val == 1) or (isinstance(val, tuple) and val[1] == [0])
            if not is_true:
                continue
            sl = du.slice_operand(discr)
            for pb, plc, i_ in pa:
                if plc in sl.locals:
                    idxs.add(i_)
        seen |= idxs
        ctx.check(len(idxs) == 1 and j == 1 - next(iter(idxs)), "C12.D3", "partner-index:hosts[%d]" % j, site(b, hb), ok="found at proxy_addresses[%s] -> partner host hosts[%d]" % (sorted(idxs), j),
                  bad="the proxy found at proxy_addresses%s gets hosts[%d] as its partner's host: that is its own host, so the partner's host is not excluded and both halves of the chunk can end up on one host" % (sorted(idxs), j))
    ctx.check(seen == {0, 1}, "C12.D3", "partner-index:both-positions", site(b), ok="both chunk positions are looked up", bad="only positions %s are looked up" % sorted(seen))


def _failover_attempted(ctx):
    """`a failed proxy is replaced ... whenever such a host has a free healthy proxy`: replace_failed_proxy must reach the
    allocation on every call for a cluster member - a request may end early with Ok only for a proxy that is in no cluster
    or in ordered-proxy mode (which never replaces).  An early Ok for `already marked failed` would make a refused
    replacement final: the retry after new capacity arrived does nothing."""
    from ..lib import branch_conditions
    F = ctx.F
    b = F.one(UPD + "::replace_failed_proxy")
    if b is None:
        ctx.lost("C12.D4", "replace_failed_proxy", "not found")
        return
    ctx.analysed(b)
    du = DefUse(b)
    dom = cfg.dominators(b)
    alloc = [bb for bb, t in calls_to(b, "generate_new_free_proxy")]
    if not ctx.floor("C12.D4", "allocation call in replace_failed_proxy", len(alloc), 1):
        return
    ok_exits, err_exits = _exits(b)
    bad = None
    n = 0
    for x in ok_exits:
        if cfg.path_between(b, 0, x, avoid=set(alloc)) is None:
            continue
        n += 1
        allowed = False
        for d, discr, val in branch_conditions(b, x, dom):
            pl = discr.get("mv") or discr.get("cp")
            for df in du.defs.get(pl["l"], []) if pl else []:
                if df[0] == "assign" and df[3]["rv"]["k"] == "discr" and b.locals[df[3]["rv"]["p"]["l"]]["ty"].startswith("std::option::Option<common::cluster::ClusterName") and val == 0:
                    allowed = True
            is_true = (val == 1) or (isinstance(val, tuple) and val[1] == [0])
            if is_true and du.slice_operand(discr, deep=False).has_field("MetaStore", "enable_ordered_proxy"):
                allowed = True
        if not allowed:
            bad = x
    ctx.check(bad is None, "C12.D4", "replacement-always-attempted", site(b, bad) if bad is not None else site(b), ok="%d early Ok exits, all for a proxy outside any cluster or ordered-proxy mode" % n,
              bad="replace_failed_proxy can return Ok for a cluster member without reaching generate_new_free_proxy (and not because of ordered-proxy mode): a replacement that was refused once is never retried although a host with a free healthy proxy exists")


def _link_table_rows(ctx):
    """generate_new_free_proxy looks the failed proxy's host up in the link table with expect(): the loop over the existing
    chunks must create the rows of both hosts of every chunk unconditionally (a chunk on a single host included)"""
    from .C02 import loop_can_skip
    F = ctx.F
    b = F.one(UPD + "::build_link_table")
    if b is None:
        ctx.lost("C12.D4", "build_link_table", "not found")
        return
    ctx.analysed(b)
    loops = {}
    for t_, h in cfg.natural_loops(b):
        loops.setdefault(h, set()).update(cfg.loop_blocks(b, t_, h))
    hosts_blocks = set()
    for bb, i, st in b.assigns():
        pl = st["rv"].get("p") or (st["rv"].get("a") or {}).get("cp") or (st["rv"].get("a") or {}).get("mv") if isinstance(st["rv"].get("a", {}), dict) else None
        if pl and any(isinstance(e, dict) and e.get("name") == "hosts" for e in pl["p"]):
            hosts_blocks.add(bb)
    inner = [(h, bl) for h, bl in loops.items() if hosts_blocks & bl]
    if not ctx.floor("C12.D4", "loop over the existing chunks in build_link_table", len(inner), 1):
        return
    h, bl = min(inner, key=lambda x: len(x[1]))
    sinks = [bb for bb, t in b.calls() if bb in bl and (callee_of(t) or "").rsplit("::", 1)[-1] in ("or_insert_with", "or_insert", "or_default", "insert")]
    p_ = cfg.path_between(b, h, h, avoid=set(sinks) - {h}, succs={**b.succs(), **{x: [y for y in b.succs()[x] if y in bl] for x in bl}}) if sinks else [h]
    ctx.check(bool(sinks) and p_ is None, "C12.D4", "link-table-row-for-every-used-host", site(b, h), ok="every existing chunk adds the rows of its two hosts",
              bad="an iteration over the existing chunks can skip the row creation: a host that is in use can be missing from the link table and generate_new_free_proxy's expect() panics in the middle of a failover (after the takeover changed the store)")
