"""C18 - failover needs a quorum of fresh, distinct reports (DESIGN §5 C18)."""
from ..facts import norm, callee_of, callee_decl, place_fields
from ..defuse import DefUse
from ..sccp import Interp, Oracle, Int, Bool, Some, NONE, TOP
from .. import cfg
from ..lib import m, calls_to, site, binop_sites, agg_variant_of

EXPLANATION = (
    "add_failure: storage keyed by address then by reporter; a present reporter returns before any insert (truth table over the lookup). "
    "get_failures: every reporter map (values_mut of store.failures) is purged per report with `now - report_time < ttl` (operator and "
    "operand sides checked), empty maps are dropped, then addresses are kept iff `reports.len() >= quorum` (three orderings) and the "
    "address is still registered; both purges dominate the count. add_proxy / remove_proxy clear failed_proxies and failures on every "
    "path after registration (post-dominance). The service passes the configured ttl (seconds) and quorum down unchanged."
)
ASSUMPTIONS = ["wall-clock behaviour of chrono::Utc::now is not modelled"]
TRUSTED = ["HashMap keyed insertion counts one entry per key"]

UPD = "broker::update::MetaStoreUpdate"
MS = "broker::store::MetaStore"

MUTANTS = [
    {"name": "report-time-in-milliseconds", "file": "src/broker/update.rs", "old": "            .insert(reporter_id, now.timestamp());", "new": "            .insert(reporter_id, now.timestamp_millis());", "expect": "C18.D1:report-time-unit"},
    {"name": "quorum-ge-to-gt", "file": "src/broker/update.rs", "old": ".filter(|(_, v)| v.len() >= failure_quorum as usize)", "new": ".filter(|(_, v)| v.len() > failure_quorum as usize)", "expect": "C18.D2:quorum"},
    {"name": "ttl-lt-to-le-swapped", "file": "src/broker/update.rs", "old": "now - report_datetime < failure_ttl", "new": "failure_ttl >= now - report_datetime", "expect": "C18.D2:fresh"},
    {"name": "ttl-inverted", "file": "src/broker/update.rs", "old": "now - report_datetime < failure_ttl", "new": "now - report_datetime > failure_ttl", "expect": "C18.D2:fresh"},
    {"name": "add_proxy-keeps-failures", "file": "src/broker/update.rs", "old": "        cleared = self.store.failures.remove(&proxy_address).is_some() || cleared;\n", "new": "", "expect": "C18.D3"},
    {"name": "add_failure-no-early-return", "file": "src/broker/update.rs", "old": "            .map(|failures| failures.contains_key(&reporter_id))\n        {\n            return false;\n        }", "new": "            .map(|failures| failures.contains_key(&reporter_id))\n        {\n            info!(\"dup\");\n        }", "expect": "C18.D1"},
    {"name": "unknown-proxy-not-filtered", "file": "src/broker/update.rs", "old": "                if all_proxies.contains_key(address) {\n                    Some(address.clone())\n                } else {\n                    None\n                }", "new": "                let _ = all_proxies;\n                Some(address.clone())", "expect": "C18.D2"},
    {"name": "service-quorum-constant", "file": "src/broker/service.rs", "old": "let failure_quorum = self.config.failure_quorum;", "new": "let failure_quorum = 1;", "expect": "C18.D4"},
]


def _ret_origin_calls(du, body):
    """declared callees the closure's return value derives from"""
    sl = du.slice_local(0)
    return sl


def run(ctx):
    F = ctx.F
    ctx.rule("C18.D1", "add_failure: keyed by (address, reporter); a present reporter returns before any insert")
    ctx.rule("C18.D2", "get_failures: per-report purge with (now - t) < ttl on every reporter map, empty maps dropped, len >= quorum, registered proxies only; purges dominate the count")
    ctx.rule("C18.D3", "add_proxy / remove_proxy clear failed_proxies and failures on every path")
    ctx.rule("C18.D5", "a failed mark is set only for a registered proxy (insert into failed_proxies is control-dependent on the proxy being found); storage back-ends never answer a registration by themselves: every result comes from the store's add_proxy / remove_proxy / add_failure or from a propagated infrastructure error")
    ctx.rule("C18.D4", "configured failure_ttl (seconds) and failure_quorum reach get_failures unchanged")
    _add_failure(ctx)
    _get_failures(ctx)
    _clears(ctx)
    _config(ctx)
    _failed_mark_registered(ctx)
    _wrappers_delegate(ctx)


def _add_failure(ctx):
    F = ctx.F
    b = F.one(UPD + "::add_failure")
    if b is None:
        ctx.lost("C18.D1", "add_failure", "function not found")
        return
    ctx.analysed(b)
    du = DefUse(b)
    inserts = [(bb, t) for bb, t in calls_to(b, "HashMap::insert") if "i64" in (t.get("atys") or ["", "", ""])[2]]
    entries = [(bb, t) for bb, t in calls_to(b, "HashMap::entry") if (MS, "failures") in du.slice_operand(t["args"][0], deep=False).fields]
    if not ctx.floor("C18.D1", "insert of a report", len(inserts), 1) or not ctx.floor("C18.D1", "failures.entry(address)", len(entries), 1):
        return
    ibb, it_ = inserts[0]
    k = du.slice_operand(it_["args"][1]); v = du.slice_operand(it_["args"][2]); recv = du.slice_operand(it_["args"][0])
    ctx.check(k.has_param(3) and not k.has_param(2), "C18.D1", "inner-key-is-reporter", site(b, ibb), ok="report stored under the reporter id", bad="the inner map is not keyed by the reporter id: %s" % k.summary())
    ctx.check(v.has_call("timestamp") or v.has_call("Utc::now"), "C18.D1", "value-is-report-time", site(b, ibb), ok="value = now.timestamp()", bad="stored value is not the report time")
    # unit agreement between the writer (add_failure) and the reader (get_failures): seconds with seconds
    UNITS = {"timestamp": "s", "timestamp_millis": "ms", "timestamp_micros": "us", "timestamp_nanos": "ns", "timestamp_subsec_millis": "?",
             "from_timestamp": "s", "from_timestamp_opt": "s", "from_timestamp_millis": "ms", "from_timestamp_micros": "us", "timestamp_opt": "s", "timestamp_millis_opt": "ms"}
    w_units = sorted({UNITS[c.rsplit("::", 1)[-1]] for c in list(v.calls) + list(v.decls) if c.rsplit("::", 1)[-1] in UNITS and "chrono" in c})
    gf = F.one(UPD + "::get_failures")
    r_units = []
    if gf is not None:
        for fb in F.family(gf):
            for bb_, t_ in fb.calls():
                c_ = callee_of(t_) or callee_decl(t_) or ""
                if c_.rsplit("::", 1)[-1] in UNITS and "chrono" in c_ and c_.rsplit("::", 1)[-1].startswith(("from_timestamp", "timestamp_opt", "timestamp_millis_opt")):
                    r_units.append(UNITS[c_.rsplit("::", 1)[-1]])
    r_units = sorted(set(r_units))
    ctx.check(len(w_units) == 1 and w_units == r_units, "C18.D1", "report-time-unit", site(b, ibb), ok="report time written and read in the same unit (%s)" % w_units,
              bad="add_failure stores the report time in %s but get_failures decodes it as %s: the age of a report is computed wrongly and reports %s" % (w_units, r_units, "never expire" if w_units and r_units and w_units != r_units else "are mis-aged"))
    ek = du.slice_operand(entries[0][1]["args"][1])
    ctx.check(ek.has_param(2) and not ek.has_param(3) and recv.has_call("HashMap::entry"), "C18.D1", "outer-key-is-address", site(b, entries[0][0]), ok="reports grouped by reported address", bad="the outer map is not keyed by the address")
    # idempotence: lookup closure result decides an early return
    # the duplicate test, in either spelling: `failures.get(&address).map(|m| m.contains_key(&reporter))` (lookup in a
    # closure) or a match / if-let around a direct contains_key call
    from ..lib import captures_with as _cw
    maps = [(bb, t) for bb, t in calls_to(b, "Option::map") if du.slice_operand(t["args"][0]).has_field("MetaStore", "failures")]
    look = [c for c in F.children(b) if calls_to(c, "HashMap::contains_key")]
    direct = [(bb, t) for bb, t in calls_to(b, "HashMap::contains_key") if du.slice_operand(t["args"][1]).has_param(3) and not du.slice_operand(t["args"][1]).has_param(2)]
    gets = [(bb, t) for bb, t in calls_to(b, "HashMap::get") if du.slice_operand(t["args"][0], deep=False).has_field("MetaStore", "failures") or (MS, "failures") in du.slice_operand(t["args"][0], deep=False).fields]
    by_rep = bool(direct) or any(_cw(F, c, DefUse(c).slice_operand(t["args"][1]), lambda v: v.has_param(3) and not v.has_param(2)) for c in look for bb, t in calls_to(c, "HashMap::contains_key"))
    if not ctx.floor("C18.D1", "lookup of an existing report", len(maps) + len(direct), 1):
        return
    ctx.check(by_rep, "C18.D1", "lookup-by-reporter", site(b), ok="existing report looked up by reporter id", bad="the duplicate test does not look the reporter id up")
    bumps = [bb for bb, t in calls_to(b, "bump_global_epoch")]
    for name, val, found in (("present", Some(Bool(True)), True), ("absent-reporter", Some(Bool(False)), True), ("absent-address", NONE, False)):
        def call(interp, bb, term, argvals, val=val, found=found, name=name):
            for mb, mt in maps:
                if mt is term:
                    return val
            if not maps:
                for db, dt in direct:
                    if dt is term:
                        return Bool(name == "present")
                for gb, gt in gets:
                    if gt is term:
                        return Some(TOP) if found else NONE
            return None
        res = Interp(F, b, Oracle(call=call)).run()
        reach = ibb in res.exec_blocks
        rv = res.return_value()
        want = name != "present"
        ctx.check(reach == want and (rv == Int(1 if want else 0)), "C18.D1", "idempotent:%s" % name, site(b),
                  ok="report %s, returns %s" % ("stored" if want else "ignored", want), bad="with the reporter %s the insert is %s and the result is %s" % (name, "reachable" if reach else "unreachable", rv))


def _get_failures(ctx):
    F = ctx.F
    b = F.one(UPD + "::get_failures")
    if b is None:
        ctx.lost("C18.D2", "get_failures", "function not found")
        return
    ctx.analysed(b)
    du = DefUse(b)
    kids = F.children(b)
    # --- per-report purge
    inner_ret = [(bb, t) for bb, t in calls_to(b, "HashMap::retain") if (t.get("atys") or [""])[0].endswith("HashMap<std::string::String, i64>")]
    outer_ret = [(bb, t) for bb, t in calls_to(b, "HashMap::retain") if "HashMap<std::string::String, std::collections::HashMap<" in (t.get("atys") or [""])[0]]
    ok = ctx.floor("C18.D2", "per-report retain on a reporter map", len(inner_ret), 1)
    ok &= ctx.floor("C18.D2", "retain dropping empty reporter maps", len(outer_ret), 1)
    if not ok:
        return
    ibb, it_ = inner_ret[0]
    recv = du.slice_operand(it_["args"][0])
    ctx.check(recv.has_call("HashMap::values_mut") and recv.has_field("MetaStore", "failures"), "C18.D2", "purge-every-reporter-map", site(b, ibb),
              ok="applied to each of failures.values_mut()", bad="the per-report purge is not applied to every reporter map of store.failures")
    loops = [(t_, h) for t_, h in cfg.natural_loops(b) if ibb in cfg.loop_blocks(b, t_, h)]
    good_loop = bool(loops)
    for t_, h in loops:
        lb = cfg.loop_blocks(b, t_, h)
        sw = [x for x in lb if b.blocks[x].term["k"] == "switch"]
        if len(sw) != 1:
            good_loop = False
    ctx.check(good_loop, "C18.D2", "purge-loop-unfiltered", site(b, ibb), ok="loop over all reporter maps without filter", bad="the purge loop skips some reporter maps")
    # freshness closure
    fresh = None
    for c in kids:
        lts = [(bb, t) for bb, t in c.calls() if callee_decl(t) in ("std::cmp::PartialOrd::lt", "std::cmp::PartialOrd::le", "std::cmp::PartialOrd::gt", "std::cmp::PartialOrd::ge")]
        if lts and c.locals[0]["ty"] == "bool":
            fresh = (c, lts)
    if fresh is None:
        ctx.lost("C18.D2", "fresh:closure", "no ordering comparison closure found in get_failures")
    else:
        c, lts = fresh
        ctx.analysed(c)
        cdu = DefUse(c)
        bb, t = lts[0]
        op = callee_decl(t).rsplit("::", 1)[1]
        a0 = cdu.slice_operand(t["args"][0]); a1 = cdu.slice_operand(t["args"][1])
        from ..lib import capture_sources, capture_types
        # `now` = a captured value that the parent obtained from Utc::now(); the ttl = a captured chrono::Duration that is a
        # parameter of the parent (identified by data flow / type, not by name)
        src0 = capture_sources(F, c, a0.captures)
        lhs_age = a0.has_call("std::ops::Sub::sub") and any(v.has_call("now") for v in src0.values()) and a0.has_param(3)
        ty1 = capture_types(F, c, a1.captures)
        rhs_ttl = any("Duration" in ty for ty in ty1.values()) and not a1.has_call("std::ops::Sub::sub")
        ret = cdu.slice_local(0)
        returns_cmp = bb in set().union(*[v for k, v in ret.decls.items() if k.startswith("std::cmp::PartialOrd")]) and "Not" not in {x for x in ret.binops}
        # a negation would show as unop Not on the path to _0: check assignments to _0
        negated = any(s["rv"]["k"] == "unop" and s["rv"]["op"] == "Not" for _, _, s in c.assigns())
        ctx.check(len(lts) == 1 and op == "lt" and lhs_age and rhs_ttl and returns_cmp and not negated, "C18.D2", "fresh:now-minus-report-lt-ttl", site(c, bb),
                  ok="keeps a report iff (now - report_time) < failure_ttl", bad="freshness predicate is `%s%s(%s, %s)`: expected lt(now - report_time, failure_ttl)" % ("!" if negated else "", op, "age" if lhs_age else a0.summary(), "ttl" if rhs_ttl else a1.summary()))
        # report time is the stored timestamp
        ctx.check(a0.has_call("from_timestamp") or a0.has_call("from_utc") or a0.has_call("from_timestamp_opt"), "C18.D2", "fresh:report-time-source", site(c, bb), ok="age computed from the stored timestamp", bad="age is not computed from the stored report timestamp")
    # empty maps dropped
    emp = [c for c in kids if calls_to(c, "HashMap::is_empty") and c.locals[0]["ty"] == "bool"]
    if ctx.floor("C18.D2", "is_empty predicate", len(emp), 1):
        c = emp[0]
        for e in (0, 1):
            def call(interp, bbx, term, argvals, e=e):
                if m(callee_of(term), "HashMap::is_empty"):
                    return Bool(e)
                return None
            rv = Interp(F, c, Oracle(call=call)).run().return_value()
            ctx.check(rv == Int(0 if e else 1), "C18.D2", "drop-empty:is_empty=%d" % e, site(c), ok="kept" if not e else "dropped", bad="reporter map with is_empty=%d is %s" % (e, rv))
    # quorum
    qc = None
    for c in kids:
        for bb, i, s in binop_sites(c, ("Ge", "Gt", "Le", "Lt", "Eq", "Ne")):
            cdu = DefUse(c)
            sa = cdu.slice_operand(s["rv"]["a"]); sb = cdu.slice_operand(s["rv"]["b"])
            from ..lib import captures_with as _cw2
            qa = _cw2(F, c, sa, lambda v: v.has_param(3)); qb = _cw2(F, c, sb, lambda v: v.has_param(3))
            if (sa.has_call("HashMap::len") and qb) or (sb.has_call("HashMap::len") and qa):
                qc = (c, bb, i, s, "a" if sa.has_call("HashMap::len") else "b")
    if qc is None:
        ctx.lost("C18.D2", "quorum:comparison", "no comparison of reports.len() with failure_quorum found")
    else:
        c, bb, i, s, lenside = qc
        ctx.analysed(c)
        for order in ("lt", "eq", "gt"):   # len ? quorum
            def binop(interp, bbx, stmt, op, a, bv, order=order):
                if stmt is s:
                    cc = {"lt": -1, "eq": 0, "gt": 1}[order]
                    if lenside == "b":
                        cc = -cc
                    return Bool({"Lt": cc < 0, "Le": cc <= 0, "Gt": cc > 0, "Ge": cc >= 0, "Eq": cc == 0, "Ne": cc != 0}[op])
                return None
            rv = Interp(F, c, Oracle(binop=binop)).run().return_value()
            want = order in ("eq", "gt")
            ctx.check(rv == Int(1 if want else 0), "C18.D2", "quorum:len-%s-quorum" % order, site(c, bb, i), ok="listed" if want else "not listed",
                      bad="an address with len %s quorum is %s" % (order, "listed" if rv == Int(1) else "not listed" if rv == Int(0) else rv))
    # registered
    from ..lib import captures_with
    rg = [c for c in kids if any(captures_with(F, c, DefUse(c).slice_operand(t["args"][0]), lambda v: (MS, "all_proxies") in v.fields) for bb, t in calls_to(c, "HashMap::contains_key"))]
    if ctx.floor("C18.D2", "registered-proxy test", len(rg), 1):
        c = rg[0]
        ctx.analysed(c)
        somes = [bb for bb, i, s in c.assigns() if s["rv"]["k"] == "agg" and s["rv"].get("variant") == "Some" and s["place"]["l"] == 0]
        for r in (0, 1):
            def call(interp, bbx, term, argvals, r=r):
                if m(callee_of(term), "HashMap::contains_key"):
                    return Bool(r)
                return None
            res = Interp(F, c, Oracle(call=call)).run()
            reach = any(x in res.exec_blocks for x in somes)
            ctx.check(reach == bool(r) and bool(somes), "C18.D2", "registered:contains=%d" % r, site(c), ok="listed" if r else "dropped", bad="an address with registered=%d is %s" % (r, "listed" if reach else "dropped"))
        ctx.holds("C18.D2", "registered:source", site(b), "the tested map is store.all_proxies (resolved through the capture)")
    # order: both purges dominate the counting chain
    dom = cfg.dominators(b)
    cnt = [bb for bb, t in b.calls() if callee_decl(t) in ("std::iter::Iterator::collect", "std::iter::Iterator::filter")]
    for cb in cnt:
        ctx.check(all(any(rb in dom.get(cb, ()) for rb, _ in rs) for rs in (inner_ret, outer_ret)) if False else (outer_ret[0][0] in dom.get(cb, ())), "C18.D2", "purge-before-count:bb", site(b, cb),
                  ok="expired reports are purged before counting", bad="counting is not dominated by the purge of expired reports")
    # the outer retain comes after the loop with the inner retain
    ctx.check(cfg.reaches(b, ibb, outer_ret[0][0]) and not cfg.reaches(b, outer_ret[0][0], ibb), "C18.D2", "purge-order", site(b, outer_ret[0][0]),
              ok="empty maps are dropped after the per-report purge", bad="empty reporter maps are dropped before reports are purged")


def _clears(ctx):
    F = ctx.F
    for fn, anchor in (("add_proxy", "or_insert_with"), ("remove_proxy", "HashMap::remove")):
        b = F.one(UPD + "::" + fn)
        if b is None:
            ctx.lost("C18.D3", fn, "function not found")
            continue
        ctx.analysed(b)
        du = DefUse(b)
        rf = [bb for bb, t in calls_to(b, "HashSet::remove") if (MS, "failed_proxies") in du.slice_operand(t["args"][0], deep=False).fields]
        rr = [bb for bb, t in calls_to(b, "HashMap::remove") if (MS, "failures") in du.slice_operand(t["args"][0], deep=False).fields]
        reg = [bb for bb, t in b.calls() if (callee_of(t) or "").endswith(anchor) and ((MS, "all_proxies") in du.slice_operand(t["args"][0]).fields)]
        ok = ctx.floor("C18.D3", "%s: failed_proxies.remove" % fn, len(rf), 1) & ctx.floor("C18.D3", "%s: failures.remove" % fn, len(rr), 1) & ctx.floor("C18.D3", "%s: registration anchor" % fn, len(reg), 1)
        if not ok:
            continue
        for name, blocks in (("failed_proxies", rf), ("failures", rr)):
            # every path from the registration to a return passes the removal
            p = cfg.path_avoiding(b, (reg[0], len(b.blocks[reg[0]].stmts)), b.return_blocks(), {(x, len(b.blocks[x].stmts)) for x in blocks})
            ctx.check(p is None, "C18.D3", "%s:clears:%s" % (fn, name), site(b, reg[0]), ok="%s.remove(address) on every path" % name,
                      bad="a path from the registration to the return skips %s.remove (blocks %s)" % (name, p), path=str(cfg.lines_of_path(b, p)) if p else None)
            for x in blocks:
                t = b.blocks[x].term
                ctx.check(du.slice_operand(t["args"][1]).has_param(2), "C18.D3", "%s:clears-key:%s" % (fn, name), site(b, x), ok="keyed by the proxy address", bad="removal is not keyed by the proxy address argument")


def _config(ctx):
    F = ctx.F
    bodies = [b for b in F.all_bodies(bins=False) if b.path.startswith("broker::service::MemBrokerService::get_failures")]
    n = 0
    for b in bodies:
        du = DefUse(b)
        for bb, t in b.calls():
            if callee_decl(t) == "broker::storage::MetaStorage::get_failures":
                n += 1
                ctx.analysed(b)
                s1 = du.slice_operand(t["args"][1]); s2 = du.slice_operand(t["args"][2])
                ctx.check(s1.has_field("MemBrokerConfig", "failure_ttl") and s1.has_call("seconds"), "C18.D4", "ttl", site(b, bb), ok="ttl = Duration::seconds(config.failure_ttl)", bad="ttl passed down is not Duration::seconds(config.failure_ttl): %s" % s1.summary())
                ctx.check(s2.has_field("MemBrokerConfig", "failure_quorum") and not s2.binops, "C18.D4", "quorum", site(b, bb), ok="quorum = config.failure_quorum", bad="quorum passed down is not config.failure_quorum: %s" % s2.summary())
    ctx.floor("C18.D4", "MemBrokerService::get_failures call of the storage", n, 1)
    # storages pass their arguments through unchanged
    for b in F.all_bodies(bins=False):
        if b.kind == "Promoted" or b.is_mock():
            continue
        for bb, t in calls_to(b, "broker::store::MetaStore::get_failures"):
            if not (b.path.startswith("<broker::") or b.path.startswith("broker::external") or b.path.startswith("broker::storage")):
                continue
            du = DefUse(b)
            s1 = du.slice_operand(t["args"][1]); s2 = du.slice_operand(t["args"][2])
            good = ("failure_ttl" in s1.captures or any(True for _ in s1.params)) and ("failure_quorum" in s2.captures or any(True for _ in s2.params)) and not s2.binops and not s2.consts
            ctx.analysed(b)
            ctx.check(good, "C18.D4", "storage-passthrough:%s" % b.path.split("::{")[0], site(b, bb), ok="arguments passed through", bad="storage alters ttl/quorum before calling the store")


def _failed_mark_registered(ctx):
    from ..lib import branch_conditions
    F = ctx.F
    n = 0
    for b in F.all_bodies(bins=False):
        if b.is_mock() or b.kind == "Promoted" or "tests::" in b.path or not b.path.startswith("broker::"):
            continue
        ins = []
        du = None
        for bb, t in b.calls():
            c = callee_of(t) or ""
            if c.endswith("HashSet::insert") and t["args"]:
                du = du or DefUse(b)
                if ("broker::store::MetaStore", "failed_proxies") in {(norm(a), nm) for a, nm in du.slice_operand(t["args"][0], deep=False).fields}:
                    ins.append((bb, t))
        if not ins:
            continue
        dom = cfg.dominators(b)
        ctx.analysed(b)
        for bb, t in ins:
            n += 1
            found = False
            for d, discr, val in branch_conditions(b, bb, dom):
                pl = discr.get("mv") or discr.get("cp")
                for df in du.defs.get(pl["l"], []) if pl else []:
                    if df[0] == "assign" and df[3]["rv"]["k"] == "discr":
                        ty = b.locals[df[3]["rv"]["p"]["l"]]["ty"]
                        if ty.startswith("std::option::Option<&broker::store::ProxyResource") and val == 1 and not df[3]["rv"]["p"]["p"]:
                            found = True
                sl = du.slice_operand(discr)
                is_true = (val == 1) or (isinstance(val, tuple) and val[1] == [0])
                if is_true and sl.has_call("contains_key") and sl.has_field("MetaStore", "all_proxies"):
                    found = True
            ctx.check(found, "C18.D5", "failed-mark-only-if-registered:%s" % b.path.rsplit("::", 1)[-1], site(b, bb), ok="the insert is on the `proxy found` branch of all_proxies.get(..)",
                      bad="%s inserts into failed_proxies on a path where the address was not found in all_proxies: an unregistered (removed / never added) proxy is listed as failed until something registers under that address" % b.path)
    ctx.floor("C18.D5", "failed_proxies.insert sites", n, 1)


WRAPPED = ("add_proxy", "remove_proxy", "add_failure", "replace_failed_proxy")


def _wrappers_delegate(ctx):
    """MemoryStorage / ExternalHttpStorage methods are thin wrappers: a wrapper that answers by itself (an Ok / Err it
    constructs before calling the store) skips the store's bookkeeping - e.g. add_proxy's clearing of pending reports"""
    F = ctx.F
    n = 0
    for b in F.all_bodies(bins=False):
        if b.is_mock() or b.kind == "Promoted" or "tests::" in b.path:
            continue
        if not (b.path.startswith(("<broker::storage::MemoryStorage as broker::storage::MetaStorage>::", "<broker::external::ExternalHttpStorage as broker::storage::MetaStorage>::")) and b.path.endswith("::{closure#0}")):
            continue
        meth = b.path.split("MetaStorage>::", 1)[1].split("::", 1)[0]
        if meth not in WRAPPED:
            continue
        calls = [bb for bb, t in b.calls() if (callee_of(t) or "") == "broker::store::MetaStore::%s" % meth]
        if not calls:
            ctx.violation("C18.D5", "wrapper-delegates:%s:%s" % ("memory" if "MemoryStorage" in b.path else "external", meth), site(b), "%s never calls MetaStore::%s" % (b.path, meth))
            continue
        n += 1
        ctx.analysed(b)
        du = DefUse(b)
        bad = None
        rets = b.return_blocks()
        for bb_, i_, st in b.assigns():
            if st["place"]["l"] != 0 or st["place"]["p"]:
                continue
            rv = st["rv"]
            if rv["k"] != "agg" or rv.get("variant") not in ("Ok", "Err", "Ready"):
                continue
            inner_sl = du.slice_operand(rv["ops"][0]) if rv.get("ops") else None
            if inner_sl is not None and (inner_sl.has_call("from_residual") or inner_sl.has_call("MetaStore::%s" % meth)):
                continue
            if bb_ in calls:
                continue
            pre = cfg.path_between(b, 0, bb_, avoid=set(calls)) if bb_ != 0 else [0]
            post = any((cfg.path_between(b, bb_, r, avoid=set(calls)) is not None) or bb_ == r for r in rets)
            if pre is not None and post:
                bad = (bb_, "%s(..) built at line %s" % (rv.get("variant"), st.get("line")))
        ctx.check(bad is None, "C18.D5", "wrapper-delegates:%s:%s" % ("memory" if "MemoryStorage" in b.path else "external", meth), site(b, bad[0]) if bad else site(b), ok="every result comes from MetaStore::%s or from a propagated error" % meth,
                  bad="%s can finish with a result it constructs itself (%s) without calling MetaStore::%s: the store's bookkeeping for this request (clearing failed marks and pending reports on re-registration) is skipped" % (b.path, bad[1] if bad else "", meth))
    ctx.floor("C18.D5", "storage wrappers examined", n, 6)
