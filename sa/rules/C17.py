"""C17 - control-plane messages survive their wire encodings (DESIGN §5 C17): writer/reader
field order and constant agreement; decode(encode(x)) = x over generated values is not decided."""
from ..facts import norm, callee_of, callee_decl, place_fields, const_bytes, const_int
from ..defuse import DefUse
from ..sccp import Interp, Oracle, Int, Bool, Agg, TOP
from .. import cfg
from ..lib import m, calls_to, site, agg_sites, const_str_set
from .C19 import _const_items

EXPLANATION = (
    "Agreement between sibling encoders and decoders, decided from the code: the sequence of fields written by MigrationMeta::into_strings equals the "
    "sequence in which from_strings reads them (order of the iterator reads by dominance); SlotRange / MigrationTaskMeta / SwitchArg write and read "
    "their parts in the same order (tag, ranges, meta; version then task); the tag written for each SlotRangeTag variant is the constant the reader "
    "compares with to build the same variant; the flag / prefix constants of the SETCLUSTER message are shared by writer and reader; the task list "
    "separator used by UMCTL INFOMGR (join \" \") is the one the coordinator splits on and ClusterName cannot contain it; the compressed form is read "
    "to the end without a size limit the encoder does not have; the broker accepts a finished-migration descriptor with either tag. Round-trip equality "
    "over generated values and rejection of all corruptions are NOT decided."
)
ASSUMPTIONS = ["gzip / base64 / json layers are library code", "round trip over generated metadata values is behavioural and not decided"]
TRUSTED = []

MUTANTS = [
    {"name": "config-cross-field-check", "file": "src/common/config.rs", "old": "                    .map_err(|_| ConfigError::InvalidValue)?;\n                self.max_blocking_time = v;", "new": "                    .map_err(|_| ConfigError::InvalidValue)?;\n                if v > self.max_migration_time.saturating_mul(1000) {\n                    return Err(ConfigError::InvalidValue);\n                }\n                self.max_blocking_time = v;", "expect": "C17.D6:field-refusal-by-own-value"},
    {"name": "empty-cluster-name-rejected", "file": "src/common/cluster.rs", "after": "impl TryFrom<&str> for ClusterName {", "old": "    fn try_from(s: &str) -> Result<Self, Self::Error> {\n        for c in s.chars() {", "new": "    fn try_from(s: &str) -> Result<Self, Self::Error> {\n        if s.is_empty() {\n            return Err(InvalidClusterName);\n        }\n        for c in s.chars() {", "expect": "C17.D6:empty-name-decodes"},
    {"name": "single-slot-range-without-dash", "file": "src/common/cluster.rs", "old": "            strs.push(format!(\"{}-{}\", *start, *end));", "new": "            if start == end {\n                strs.push(format!(\"{}\", *start));\n            } else {\n                strs.push(format!(\"{}-{}\", *start, *end));\n            }", "expect": "C17.D2:range-encoding"},
    {"name": "flags-one-token-only", "file": "src/common/proto.rs", "old": "        if self.compress {\n            flags.push(\"COMPRESS\");\n        }", "new": "        if self.compress && !self.force {\n            flags.push(\"COMPRESS\");\n        }", "expect": "C17.D2:flag-token-independent"},
    {"name": "setcluster-header-epoch-after-flags", "file": "src/common/proto.rs", "after": "    pub fn to_args(&self) -> Vec<String> {\n        let mut args = vec![\n            self.version.clone(),", "old": "            self.epoch.to_string(),\n            self.flags.to_arg(),\n            self.cluster_name.to_string(),", "new": "            self.flags.to_arg(),\n            self.epoch.to_string(),\n            self.cluster_name.to_string(),", "expect": "C17.D1:ProxyClusterMeta:to_args:header-order"},
    {"name": "repl-peers-read-with-take", "file": "src/replication/replicator.rs", "old": "        for _ in 0..peer_num {\n            let node_address = it.next().ok_or(CmdParseError::InvalidArgs)?;\n            let proxy_address = it.next().ok_or(CmdParseError::InvalidArgs)?;\n            peers.push(ReplPeer {\n                node_address,\n                proxy_address,\n            })\n        }", "new": "        let toks: Vec<String> = it.by_ref().take(peer_num * 2).collect();\n        for pair in toks.chunks(2) {\n            if let [node_address, proxy_address] = pair {\n                peers.push(ReplPeer {\n                    node_address: node_address.clone(),\n                    proxy_address: proxy_address.clone(),\n                })\n            }\n        }", "expect": "C17.D5:decoder-reads-every-token"},
    {"name": "masters-without-replicas-not-encoded", "file": "src/replication/replicator.rs", "old": "    for master in masters.iter() {\n        args.push(\"master\".to_string());", "new": "    for master in masters.iter() {\n        if master.replicas.is_empty() {\n            continue;\n        }\n        args.push(\"master\".to_string());", "expect": "C17.D5:encoder-emits-every-element"},
    {"name": "migration-meta-read-order", "file": "src/common/cluster.rs", "old": "            src_proxy_address: it.next()?,\n            src_node_address: it.next()?,\n            dst_proxy_address: it.next()?,", "new": "            src_proxy_address: it.next()?,\n            dst_proxy_address: it.next()?,\n            src_node_address: it.next()?,", "expect": "C17.D1:MigrationMeta"},
    {"name": "importing-tag-written-as-migrating", "file": "src/common/cluster.rs", "old": "                strs.push(IMPORTING_TAG.to_string());", "new": "                strs.push(MIGRATING_TAG.to_string());", "expect": "C17.D2:tag"},
    {"name": "infomgr-join-comma", "file": "src/proxy/executor.rs", "old": ".map(|task| task.into_strings().join(\" \"))", "new": ".map(|task| task.into_strings().join(\",\"))", "expect": "C17.D2:infomgr"},
    {"name": "commit-rejects-importing-descriptor", "file": "src/broker/migrate.rs", "old": "                SlotRangeTag::None => return Err(MetaStoreError::InvalidMigrationTask),\n                SlotRangeTag::Migrating(meta) => meta.epoch,\n                SlotRangeTag::Importing(meta) => meta.epoch,", "new": "                SlotRangeTag::None | SlotRangeTag::Importing(_) => {\n                    return Err(MetaStoreError::InvalidMigrationTask)\n                }\n                SlotRangeTag::Migrating(meta) => meta.epoch,", "expect": "C17.D4"},
    {"name": "slot-range-meta-before-ranges", "file": "src/common/cluster.rs", "old": "                strs.push(MIGRATING_TAG.to_string());\n                strs.extend(range_list.to_strings());\n                strs.extend(meta.into_strings());", "new": "                strs.push(MIGRATING_TAG.to_string());\n                strs.extend(meta.into_strings());\n                strs.extend(range_list.to_strings());", "expect": "C17.D1:SlotRange"},
]


def _nearest_next(body, op):
    """the block of the iterator read that directly produces this operand (alias-shallow slice), else the
    dominance-earliest read it depends on"""
    du = DefUse(body)
    du.follow_accessors = True
    du.alias_mode = True
    sl = du.slice_operand(op, deep=False)
    nb = set()
    for k, v in sl.decls.items():
        if k == "std::iter::Iterator::next":
            nb |= v
    if len(nb) == 1:
        return next(iter(nb))
    du2 = DefUse(body)
    sl = du2.slice_operand(op)
    nb = set()
    for k, v in sl.decls.items():
        if k == "std::iter::Iterator::next":
            nb |= v
    if not nb:
        return None
    dom = cfg.dominators(body)
    return min(nb, key=lambda x: len(dom.get(x, ())))


def _order_by_dom(body, bbs):
    dom = cfg.dominators(body)
    out = sorted(bbs, key=lambda x: len(dom.get(x, ())))
    for a, b in zip(out, out[1:]):
        if a not in dom.get(b, ()):
            return None
    return out


def run(ctx):
    F = ctx.F
    ctx.rule("C17.D1", "field / part order agreement of writer and reader: MigrationMeta (5 fields), SlotRange (tag, ranges, meta), MigrationTaskMeta, SwitchArg")
    ctx.rule("C17.D2", "constant agreement: tags per variant, SETCLUSTER flags / prefixes, INFOMGR separator, ClusterName alphabet")
    ctx.rule("C17.D3", "the compressed decoder reads to the end without a size limit")
    ctx.rule("C17.D4", "the broker accepts a finished-migration descriptor with either tag")
    _migration_meta(ctx)
    _cluster_meta_header(ctx)
    _slot_range(ctx)
    _task_meta(ctx)
    _tags(ctx)
    _constants(ctx)
    _compressed(ctx)
    _commit_tag(ctx)
    ctx.rule("C17.D5", "decoders read count-prefixed and token lists element by element (next / peek) and fail on exhaustion: no truncating adaptor (take, zip, tuples, chunks, step_by, take_while ...) over the token stream; encoders emit every element of every list (no way round an encoder loop that skips the pushes)")
    _decoder_adaptors(ctx)
    _encoder_loops(ctx)
    _range_encoding(ctx)
    _flags_codec(ctx)
    ctx.rule("C17.D6", "token decoders are total over what the encoders emit independently of token order: a config field is accepted or refused by its own value alone (the decoder applies `field value` pairs to a default config in hash-map order, so a test against another field sees a half-updated config), and the cluster-name decoder accepts the empty token, which the encoders write for `no cluster`")
    _config_fields_independent(ctx)
    _empty_name_decodes(ctx)


def _migration_meta(ctx):
    F = ctx.F
    w = F.one("common::cluster::MigrationMeta::into_strings")
    r = F.one("common::cluster::MigrationMeta::from_strings")
    if w is None or r is None:
        ctx.lost("C17.D1", "MigrationMeta codecs", "not found")
        return
    ctx.analysed(w, r)
    dw = DefUse(w); dr = DefUse(r)
    wseq = None
    for bb, i, s in w.assigns():
        rv = s["rv"]
        if rv["k"] == "agg" and rv["ak"] == "array" and len(rv["ops"]) >= 3:
            seq = []
            for o in rv["ops"]:
                fl = [n for a, n in dw.slice_operand(o).fields if (a or "").endswith("MigrationMeta")]
                seq.append(fl[0] if len(set(fl)) == 1 else "?")
            wseq = seq
    rseq = None
    for bb, i, s in agg_sites(r, "common::cluster::MigrationMeta"):
        rv = s["rv"]
        reads = {}
        for fn, o in zip(rv["fields"], rv["ops"]):
            nbb = _nearest_next(r, o)
            if nbb is None or nbb in reads.values():
                reads = None
                break
            reads[fn] = nbb
        if reads:
            order = _order_by_dom(r, list(reads.values()))
            if order:
                inv = {v: k for k, v in reads.items()}
                rseq = [inv[x] for x in order]
    if wseq is None or rseq is None:
        ctx.lost("C17.D1", "MigrationMeta:sequences", "writer sequence %s reader sequence %s" % (wseq, rseq))
        return
    ctx.check(wseq == rseq and len(wseq) == 5, "C17.D1", "MigrationMeta:field-order", site(r), ok="written and read as %s" % wseq, bad="into_strings writes %s but from_strings reads %s" % (wseq, rseq))
    # epoch is parsed as u64 / written with to_string
    ctx.check(any("u64" in (t.get("inst") or "") for bb, t in r.calls() if (callee_of(t) or "").endswith("parse")), "C17.D1", "MigrationMeta:epoch-type", site(r), ok="epoch parsed as u64", bad="epoch is not parsed as u64")


def _call_order(ctx, body, names, rule, key, what):
    """the given callee suffixes occur (in some arm) in this dominance order"""
    sites = []
    for n in names:
        cs = [bb for bb, t in body.calls() if m(callee_of(t), n) or m(callee_decl(t), n)]
        if not cs:
            ctx.lost(rule, key, "%s: no call of %s" % (what, n))
            return False
        sites.append(cs)
    dom = cfg.dominators(body)
    ok = True
    for later in sites[-1]:
        chain = [later]
        good = True
        for cs in reversed(sites[:-1]):
            prev = [c for c in cs if c in dom.get(chain[0], ()) and c != chain[0]]
            if not prev:
                good = False
                break
            chain.insert(0, max(prev, key=lambda x: len(dom.get(x, ()))))
        ok &= good
    return ok


def _slot_range(ctx):
    F = ctx.F
    w = F.one("common::cluster::SlotRange::into_strings")
    r = F.one("common::cluster::SlotRange::from_strings")
    if w is None or r is None:
        ctx.lost("C17.D1", "SlotRange codecs", "not found")
        return
    ctx.analysed(w, r)
    okw = _call_order(ctx, w, ["RangeList::to_strings", "MigrationMeta::into_strings"], "C17.D1", "SlotRange:write-order", "SlotRange::into_strings")
    okr = _call_order(ctx, r, ["RangeList::parse", "MigrationMeta::from_strings"], "C17.D1", "SlotRange:read-order", "SlotRange::from_strings")
    # tag pushed before the ranges in every tagged arm
    dw = DefUse(w)
    dom = cfg.dominators(w)
    pushes = [bb for bb, t in calls_to(w, "Vec::push")]
    rl = [bb for bb, t in calls_to(w, "RangeList::to_strings")]
    metas = [bb for bb, t in calls_to(w, "MigrationMeta::into_strings")]
    tag_first = all(any(p in dom.get(mb, ()) for p in pushes) and any(x in dom.get(mb, ()) for x in rl) for mb in metas) and len(metas) >= 2
    ctx.check(bool(okw) and tag_first, "C17.D1", "SlotRange:write-order", site(w), ok="tag, ranges, meta", bad="SlotRange::into_strings does not write tag, ranges, meta in this order")
    ctx.check(bool(okr), "C17.D1", "SlotRange:read-order", site(r), ok="(tag), ranges, meta", bad="SlotRange::from_strings does not read ranges before meta")


def _task_meta(ctx):
    F = ctx.F
    for ty, mod, wparts, rparts in (("MigrationTaskMeta", "common::cluster", ["SlotRange::into_strings"], ["SlotRange::from_strings"]),
                                     ("SwitchArg", "migration::task", ["MigrationTaskMeta::into_strings"], ["MigrationTaskMeta::from_strings"])):
        w = F.one("%s::%s::into_strings" % (mod, ty)); r = F.one("%s::%s::from_strings" % (mod, ty))
        if w is None or r is None:
            ctx.lost("C17.D1", ty, "codecs not found")
            continue
        ctx.analysed(w, r)
        dw = DefUse(w); dr = DefUse(r)
        # first element written / read is the leading scalar (cluster name / version), then the nested part
        lead = "cluster_name" if ty == "MigrationTaskMeta" else "version"
        wn = calls_to(w, wparts[0]); rn = calls_to(r, rparts[0])
        first_w = None
        for bb, i, s in w.assigns():
            rv = s["rv"]
            if rv["k"] == "agg" and rv["ak"] == "array" and rv["ops"]:
                fl = [n for a, n in dw.slice_operand(rv["ops"][0]).fields if (a or "").endswith(ty)]
                first_w = fl[0] if fl else "?"
        nexts = [bb for bb, t in r.calls() if callee_decl(t) == "std::iter::Iterator::next"]
        domr = cfg.dominators(r)
        lead_read_first = bool(nexts) and bool(rn) and all(any(n in domr.get(x[0], ()) for n in nexts) for x in rn)
        lead_field_ok = False
        for bb, i, s in agg_sites(r, "%s::%s" % (mod, ty)):
            rv = s["rv"]
            nbb = _nearest_next(r, rv["ops"][rv["fields"].index(lead)])
            lead_field_ok = nbb is not None and all(nbb in domr.get(x[0], ()) for x in rn)
        ctx.check(first_w == lead and bool(wn), "C17.D1", "%s:write-order" % ty, site(w), ok="%s first, then the nested part" % lead, bad="%s::into_strings does not start with %s (starts with %s)" % (ty, lead, first_w))
        ctx.check(lead_read_first and lead_field_ok, "C17.D1", "%s:read-order" % ty, site(r), ok="%s read first" % lead, bad="%s::from_strings does not read %s before the nested part" % (ty, lead))


def _tags(ctx):
    F = ctx.F
    w = F.one("common::cluster::SlotRange::into_strings")
    r = F.one("common::cluster::SlotRange::from_strings")
    tag = F.adt("common::cluster::SlotRangeTag")
    if w is None or r is None or tag is None:
        return
    dw = DefUse(w)
    # writer: per variant, which tag constant is pushed
    wtab = {}
    pushes = calls_to(w, "Vec::push")
    for vi, v in enumerate(tag.variants):
        def read(interp, bbx, place, val, vi=vi):
            if [n for a, n in place_fields(place)][-1:] == ["tag"] or (interp.body.local_name(place["l"]) == "tag" and not place["p"]):
                return Agg(tag.path, vi, tuple([TOP] * len(v["fields"])))
            return None
        res = Interp(F, w, Oracle(read=read)).run()
        items = set()
        for bb, t in pushes:
            if bb in res.exec_blocks:
                sl = dw.slice_operand(t["args"][1])
                for c in sl.consts:
                    if c.get("item"):
                        items.add(norm(c["item"]).rsplit("::", 1)[-1])
        wtab[v["name"]] = items
    # reader: per comparison outcome, which variant is built
    dr = DefUse(r)
    eqs = {}
    for bb, t in r.calls():
        if callee_decl(t) in ("std::cmp::PartialEq::eq", "std::cmp::PartialEq::ne"):
            its = set()
            for a in t["args"][:2]:
                its |= {x.rsplit("::", 1)[-1] for x in _const_items(r, a, dr)}
                for c in dr.slice_operand(a).consts:
                    if c.get("item"):
                        its.add(norm(c["item"]).rsplit("::", 1)[-1])
            for it in its:
                if it.endswith("_TAG"):
                    eqs[it] = t
    rtab = {}
    for which in list(eqs) + [None]:
        def call(interp, bbx, term, argvals, which=which):
            for k, t in eqs.items():
                if t is term:
                    v = (k == which)
                    return Bool(v if callee_decl(term).endswith("::eq") else not v)
            return None
        res = Interp(F, r, Oracle(call=call)).run()
        built = set()
        for bb, i, s in agg_sites(r, "common::cluster::SlotRangeTag"):
            if bb in res.exec_blocks:
                built.add(s["rv"]["variant"])
        rtab[which] = built
    ctx.analysed(w, r)
    for vn, items in wtab.items():
        if vn == "None":
            ctx.check(not items, "C17.D2", "tag:None", site(w), ok="untagged ranges carry no tag", bad="an untagged range is written with %s" % sorted(items))
            ctx.check(rtab.get(None) == {"None"}, "C17.D2", "tag:None:read", site(r), ok="no tag -> SlotRangeTag::None", bad="without a tag the reader builds %s" % sorted(rtab.get(None) or []))
            continue
        ctx.check(len(items) == 1, "C17.D2", "tag:%s:written" % vn, site(w), ok="%s written as %s" % (vn, sorted(items)), bad="%s is written with tag constants %s" % (vn, sorted(items)))
        for it in items:
            ctx.check(rtab.get(it) == {vn}, "C17.D2", "tag:%s:read-back" % vn, site(r), ok="%s -> %s" % (it, vn), bad="the reader turns %s into %s, the writer uses it for %s" % (it, sorted(rtab.get(it) or []), vn))


def _constants(ctx):
    F = ctx.F
    # INFOMGR: join(" ") on the proxy, split(' ') in the coordinator
    joins = []
    for b in F.all_bodies(bins=False):
        if b.kind == "Promoted" or b.is_mock() or not b.path.startswith("proxy::executor"):
            continue
        for bb, t in b.calls():
            if (callee_of(t) or "").endswith("join") and "into_strings" in " ".join(DefUse(b).slice_operand(t["args"][0]).calls):
                joins.append((b, bb, [const_bytes(c) for c in DefUse(b).slice_operand(t["args"][1]).consts if const_bytes(c) is not None]))
    splits = []
    for b in F.all_bodies(bins=False):
        if b.kind == "Promoted" or b.is_mock() or not b.path.startswith("coordinator::migration"):
            continue
        for bb, t in b.calls():
            if (callee_of(t) or "").endswith("str::split") or (callee_of(t) or "").endswith("::split"):
                cs = [const_int(a["c"]) for a in t["args"][1:] if "c" in a and const_int(a["c"]) is not None]
                splits.append((b, bb, cs))
    if ctx.floor("C17.D2", "INFOMGR join", len(joins), 1) and ctx.floor("C17.D2", "coordinator split of the task descriptor", len(splits), 1):
        js = {x for _, _, c in joins for x in c}
        ss = {bytes([x]) for _, _, c in splits for x in c if x is not None and x < 256}
        ctx.analysed(joins[0][0], splits[0][0])
        ctx.check(js == ss and len(js) == 1, "C17.D2", "infomgr-separator", site(joins[0][0], joins[0][1]), ok="joined and split with %s" % sorted(js), bad="the proxy joins the task descriptor with %s, the coordinator splits on %s" % (sorted(js), sorted(ss)))
        sep = next(iter(js)) if js else b" "
        # ClusterName cannot contain the separator
        cn = [b for b in F.all_bodies(bins=False) if "ClusterName" in b.path and "try_from" in b.path and b.kind in ("AssocFn", "Closure")]
        allowed = set()
        for b in cn:
            for c in const_str_set(b):
                allowed |= set(c)
            for bb, i, s in b.assigns():
                for o in [s["rv"].get("a"), s["rv"].get("b")]:
                    if o and "c" in o and o["c"].get("ty") == "char" and const_int(o["c"]) is not None:
                        allowed.add(const_int(o["c"]))
        ctx.check(bool(cn) and sep[0] not in allowed, "C17.D2", "cluster-name-excludes-separator", site(cn[0]) if cn else None, ok="the ClusterName validator never admits the separator", bad="the ClusterName validator mentions the separator character")
    # SETCLUSTER constants shared by writer and reader
    pm = [b for b in F.all_bodies(bins=False) if b.path.startswith("common::proto::ProxyClusterMeta::") and b.kind in ("AssocFn", "Closure")]
    allp = [b for b in F.all_bodies(bins=False) if b.path.startswith(("common::proto::", "<common::proto::")) and b.kind in ("AssocFn", "Closure", "Fn") and "tests::" not in b.path]
    wr = [b for b in allp if any(x in b.path for x in ("to_args", "to_compressed_args", "to_map", "gen_", "into_"))]
    rd = [b for b in allp if any(x in b.path for x in ("parse", "from_", "try_from"))]
    fl = [b for b in F.all_bodies(bins=False) if b.path.startswith("common::proto::ClusterMapFlags::")]
    def items_of(bs):
        out = set()
        for b in bs:
            for blk in b.blocks:
                for s in blk.stmts:
                    if s["k"] == "assign":
                        for o in [s["rv"].get("a"), s["rv"].get("b")] + s["rv"].get("ops", []):
                            if o and "c" in o and o["c"].get("item"):
                                out.add(norm(o["c"]["item"]).rsplit("::", 1)[-1])
                t = blk.term
                for a in t.get("args", []):
                    if "c" in a and a["c"].get("item"):
                        out.add(norm(a["c"]["item"]).rsplit("::", 1)[-1])
            for p in b.promoted:
                for blk in p.blocks:
                    for s in blk.stmts:
                        if s["k"] == "assign" and "c" in (s["rv"].get("a") or {}) and s["rv"]["a"]["c"].get("item"):
                            out.add(norm(s["rv"]["a"]["c"]["item"]).rsplit("::", 1)[-1])
        return out
    wi = items_of(wr); ri = items_of(rd)
    shared = {"PEER_PREFIX", "CONFIG_PREFIX"}
    if ctx.floor("C17.D2", "SETCLUSTER writers", len(wr), 1) and ctx.floor("C17.D2", "SETCLUSTER readers", len(rd), 1):
        for it in sorted(shared):
            if it in wi or it in ri:
                ctx.check(it in wi and it in ri, "C17.D2", "setcluster-constant:%s" % it, site(wr[0]), ok="%s used by writer and reader" % it, bad="%s is used by %s only" % (it, "the writer" if it in wi else "the reader"))
    fw = [b for b in fl if "to_arg" in b.path]; fr = [b for b in fl if "from_arg" in b.path]
    if fw and fr:
        a, b_ = items_of(fw) | {c.decode() for x in fw for c in const_str_set(x)}, items_of(fr) | {c.decode() for x in fr for c in const_str_set(x)}
        common = {x for x in a & b_ if x.isupper() or "_" in x}
        ctx.check({"FORCE", "COMPRESS"} <= {x.replace("_FLAG", "") for x in common} or len(common) >= 2, "C17.D2", "flags-constants", site(fw[0]), ok="flag names shared: %s" % sorted(common), bad="flag writer uses %s, reader %s" % (sorted(a), sorted(b_)))


def _compressed(ctx):
    F = ctx.F
    b = F.one("common::proto::ProxyClusterMetaData::from_compressed_data")
    if b is None:
        ctx.lost("C17.D3", "from_compressed_data", "not found")
        return
    ctx.analysed(b)
    limited = [callee_of(t) for bb, t in b.calls() if (callee_decl(t) or callee_of(t) or "").endswith("Read::take") or (callee_of(t) or "").endswith("::take")]
    reads = [bb for bb, t in b.calls() if (callee_decl(t) or "").endswith("Read::read_to_string") or (callee_decl(t) or "").endswith("Read::read_to_end")]
    ctx.check(bool(reads) and not limited, "C17.D3", "compressed-read-to-end", site(b), ok="decompressed to the end", bad="the compressed decoder caps what it reads (%s) while the encoder has no such limit: large metadata decodes differently from its plain form" % limited)
    w = F.one("common::proto::ProxyClusterMetaData::gen_compressed_data")
    if w is not None:
        ws = {c.rsplit("::", 1)[-1] for bb, t in w.calls() for c in [callee_of(t) or ""]}
        rs = {c.rsplit("::", 1)[-1] for bb, t in b.calls() for c in [callee_of(t) or ""]}
        ctx.check(("encode" in ws) and ("decode" in rs), "C17.D3", "compressed-layers", site(w), ok="base64(gzip(json)) written, base64 -> gzip -> json read", bad="compressed writer layers %s vs reader layers %s" % (sorted(ws)[:8], sorted(rs)[:8]))


def _commit_tag(ctx):
    F = ctx.F
    b = F.one("broker::migrate::MetaStoreMigrate::commit_migration")
    tag = F.adt("common::cluster::SlotRangeTag")
    if b is None or tag is None:
        ctx.lost("C17.D4", "commit_migration", "not found")
        return
    ctx.analysed(b)
    inval = [bb for bb, i, s in agg_sites(b, "MetaStoreError", "InvalidMigrationTask")]
    if not ctx.floor("C17.D4", "InvalidMigrationTask", len(inval), 1):
        return
    for vi, v in enumerate(tag.variants):
        def read(interp, bbx, place, val, vi=vi):
            if [n for a, n in place_fields(place)][-1:] == ["tag"]:
                return Agg(tag.path, vi, tuple([TOP] * len(v["fields"])))
            return None
        res = Interp(F, b, Oracle(read=read)).run()
        rej = any(x in res.exec_blocks for x in inval)
        want = (v["name"] == "None")
        ctx.check(rej == want, "C17.D4", "commit-accepts:%s" % v["name"], site(b), ok="rejected" if rej else "accepted", bad="a descriptor tagged %s is %s by commit_migration" % (v["name"], "rejected (InvalidMigrationTask)" if rej else "accepted"))


DECODERS = ("replication::replicator::parse_repl_meta", "common::proto::ProxyClusterMeta::parse", "common::proto::ProxyClusterMeta::from_resp", "common::proto::NodeMap::parse",
            "common::proto::NodeMap::parse_node", "common::proto::NodeMap::parse_tagged_slot_range", "common::proto::ClusterConfigData::parse", "common::cluster::SlotRange::from_strings",
            "common::cluster::RangeList::parse", "common::cluster::RangeList::parse_slot_range", "common::cluster::MigrationMeta::from_strings", "common::cluster::MigrationTaskMeta::from_strings",
            "migration::task::SwitchArg::from_strings", "migration::task::parse_switch_command", "coordinator::migration::MigrationStateRespChecker::parse_migration_task_meta")
BANNED_ADAPTORS = ("take", "take_while", "map_while", "zip", "tuples", "tuple_windows", "chunks", "chunks_exact", "step_by", "nth", "last", "fuse", "scan", "dedup", "unique", "skip_while", "tuple_combinations", "next_tuple", "collect_tuple")
# leading command words are skipped on purpose: one reason per site
VETTED_SKIP = {"common::proto::ProxyClusterMeta::from_resp": "skips the command words `UMCTL SETCLUSTER`", "replication::replicator::parse_repl_meta": "skips the command words `UMCTL SETREPL`"}


def _decoder_adaptors(ctx):
    F = ctx.F
    n = 0
    for name in DECODERS:
        b = F.bodies.get(name)
        if b is None:
            ctx.lost("C17.D5", "decoder:%s" % name.rsplit("::", 2)[-2] + "::" + name.rsplit("::", 1)[-1], "decoder %s not found" % name)
            continue
        n += 1
        fam = F.family(b)
        ctx.analysed(*fam)
        bad = []
        skips = 0
        for x in fam:
            for bb, t in x.calls():
                d = callee_decl(t) or callee_of(t) or ""
                last = d.rsplit("::", 1)[-1]
                if not (d.startswith(("std::iter::Iterator::", "core::iter::", "itertools::", "std::iter::Peekable")) or "Itertools" in d):
                    continue
                if last in BANNED_ADAPTORS:
                    bad.append((last, x, bb))
                if last == "skip":
                    skips += 1
                    if name not in VETTED_SKIP or skips > 1:
                        bad.append((last, x, bb))
        ctx.check(not bad, "C17.D5", "decoder-reads-every-token:%s" % "::".join(name.rsplit("::", 2)[-2:]), site(bad[0][1], bad[0][2]) if bad else site(b), ok="tokens are read with next() / peek() only",
                  bad="%s uses the adaptor(s) %s on its token stream: they stop quietly at the end of the input, so a truncated message parses into different valid metadata instead of being rejected" % (name, sorted({x[0] for x in bad})))
    ctx.floor("C17.D5", "decoders examined", n, 12)


ENCODERS = ("replication::replicator::encode_repl_meta", "common::proto::ProxyClusterMeta::to_args", "common::proto::NodeMap::to_args", "common::proto::ClusterConfigData::to_args",
            "common::cluster::SlotRange::into_strings", "common::cluster::RangeList::to_strings", "common::cluster::MigrationMeta::into_strings", "common::cluster::MigrationTaskMeta::into_strings",
            "migration::task::SwitchArg::into_strings", "coordinator::sync::generate_repl_meta_cmd_args")


def _encoder_loops(ctx):
    from .C02 import loop_can_skip
    F = ctx.F
    n = 0
    nl = 0
    for name in ENCODERS:
        b = F.bodies.get(name)
        if b is None:
            continue
        n += 1
        ctx.analysed(b)
        sinks = [bb for bb, t in b.calls() if (callee_of(t) or "").rsplit("::", 1)[-1] in ("push", "extend", "append", "push_str", "insert", "extend_from_slice")]
        loops = {h for _, h in cfg.natural_loops(b)}
        if not loops:
            continue
        nl += len(loops)
        sk = loop_can_skip(b, sinks)
        ctx.check(not sk, "C17.D5", "encoder-emits-every-element:%s" % "::".join(name.rsplit("::", 2)[-2:]), site(b, sk[0][0]) if sk else site(b), ok="no iteration of an encoder loop can leave without emitting",
                  bad="%s can go round a loop (head bb%s) without emitting anything for that element: the element is missing from the message and the decoded value differs" % (name, [h for h, _ in sk]))
    ctx.floor("C17.D5", "encoders examined", n, 6)
    ctx.floor("C17.D5", "encoder loops examined", nl, 3)


def _cluster_meta_header(ctx):
    """SETCLUSTER header: the writer's leading [version, epoch, flags, cluster name] (plain) and [version, epoch, flags, data]
    (compressed) against the order in which parse() reads them"""
    F = ctx.F
    r = F.one("common::proto::ProxyClusterMeta::parse")
    if r is None:
        ctx.lost("C17.D1", "ProxyClusterMeta:header", "parse not found")
        return
    HEAD = ("version", "epoch", "flags", "cluster_name")
    dr_ = DefUse(r)
    rseqs = []
    for bb, i, st in agg_sites(r, "common::proto::ProxyClusterMeta"):
        rv = st["rv"]
        reads = {}
        for fn, o in zip(rv["fields"], rv["ops"]):
            if fn not in HEAD:
                continue
            from ..lib import producer_calls
            nxt = sorted({bb_ for c_, bb_ in producer_calls(r, dr_, o) if c_.rsplit("::", 1)[-1] == "next"})
            if len(nxt) == 1:
                reads[fn] = nxt[0]
        if len(set(reads.values())) == len(reads) and len(reads) >= 3:
            order = _order_by_dom(r, list(reads.values()))
            if order:
                inv = {v: k for k, v in reads.items()}
                rseqs.append([inv[x] for x in order])
    if not ctx.floor("C17.D1", "ProxyClusterMeta constructions with an ordered header in parse", len(rseqs), 1):
        return
    for wname in ("to_args", "to_compressed_args"):
        w = F.one("common::proto::ProxyClusterMeta::" + wname)
        if w is None:
            ctx.lost("C17.D1", "ProxyClusterMeta:%s" % wname, "not found")
            continue
        ctx.analysed(w, r)
        dw = DefUse(w)
        wseq = None
        for bb, i, st in w.assigns():
            rv = st["rv"]
            if rv["k"] == "agg" and rv["ak"] == "array" and len(rv["ops"]) == 4:
                seq = []
                for o in rv["ops"]:
                    fl = sorted({n for a, n in dw.slice_operand(o, deep=False).fields if (a or "").endswith("ProxyClusterMeta")} or {n for a, n in dw.slice_operand(o).fields if (a or "").endswith("ProxyClusterMeta")})
                    seq.append(fl[0] if len(fl) == 1 else "data" if not fl or len(fl) > 1 else "?")
                wseq = seq
        if wseq is None:
            ctx.lost("C17.D1", "ProxyClusterMeta:%s:header" % wname, "no 4-element header array found")
            continue
        want = [x for x in wseq if x in HEAD]
        ok = any([x for x in rs if x in want] == want and len(want) >= 3 for rs in rseqs)
        ctx.check(ok, "C17.D1", "ProxyClusterMeta:%s:header-order" % wname, site(w), ok="header written as %s, read in the same order" % wseq, bad="%s writes the header as %s but parse() reads %s" % (wname, wseq, rseqs))


def _range_encoding(ctx):
    """every range is written as `start-end` - the reader (parse_slot_range) splits on `-` and needs both numbers, for a
    single-slot range too.  The writer must not choose its form by comparing start with end"""
    from ..callgraph import CallGraph
    from ..lib import binop_sites, const_str_set
    F = ctx.F
    w = F.one("common::cluster::RangeList::to_strings")
    if w is None:
        ctx.lost("C17.D2", "range-encoding", "RangeList::to_strings not found")
        return
    cg = CallGraph(F, bins=False)
    reach = [cg.bodies[p] for p in cg.reachable([w.path]) if p.startswith(("common::cluster", "<common::cluster"))]
    ctx.analysed(*reach)
    bad = None
    dash = False
    for b in reach:
        du = DefUse(b)
        cs = const_str_set(b)
        if any(b"-" in c for c in cs):
            dash = True
        cmps = [(bb, st["rv"]["a"], st["rv"]["b"]) for bb, i, st in binop_sites(b, ("Eq", "Ne", "Lt", "Le", "Gt", "Ge"))]
        # comparisons of references (`start == end` on pattern-bound &usize) are trait calls, not binops
        cmps += [(bb, t["args"][0], t["args"][1]) for bb, t in b.calls() if len(t["args"]) == 2 and (callee_decl(t) or "") in (
            "std::cmp::PartialEq::eq", "std::cmp::PartialEq::ne", "std::cmp::PartialOrd::lt", "std::cmp::PartialOrd::le", "std::cmp::PartialOrd::gt", "std::cmp::PartialOrd::ge", "std::cmp::Ord::cmp", "std::cmp::PartialOrd::partial_cmp")]
        for bb, opa, opb in cmps:
            sa = du.slice_operand(opa); sb = du.slice_operand(opb)
            fa = {(a or "").rsplit("::", 1)[-1] + "." + n for a, n in sa.fields} | {c.rsplit("::", 1)[-1] for c in sa.calls}
            fb = {(a or "").rsplit("::", 1)[-1] + "." + n for a, n in sb.fields} | {c.rsplit("::", 1)[-1] for c in sb.calls}
            if (("Range.0" in fa or "start" in fa) and ("Range.1" in fb or "end" in fb)) or (("Range.1" in fa or "end" in fa) and ("Range.0" in fb or "start" in fb)):
                bad = (b, bb)
    ctx.check(dash and bad is None, "C17.D2", "range-encoding:always-start-dash-end", site(bad[0], bad[1]) if bad else site(w), ok="ranges are written as `{}-{}` without looking at start == end",
              bad="the range writer %s: a single-slot range is written in another form than `start-end`, which parse_slot_range rejects (plain SETCLUSTER / INFOMGR descriptors of one-slot migrations stop decoding)" % ("chooses its form by comparing start and end" if bad else "never writes a `-`"))


def _flags_codec(ctx):
    """ClusterMapFlags: each flag has its own token and the tokens are independent - the token of one flag is written
    whenever that flag is set, whatever the other flags are (from_arg tests each token separately)"""
    from ..lib import branch_conditions, const_str_set
    F = ctx.F
    w = F.one("common::proto::ClusterMapFlags::to_arg")
    r = F.one("common::proto::ClusterMapFlags::from_arg")
    adt = F.adt("common::proto::ClusterMapFlags")
    if w is None or r is None or adt is None:
        ctx.lost("C17.D2", "flags-codec", "ClusterMapFlags codec not found")
        return
    ctx.analysed(w, r)
    du = DefUse(w)
    dom = cfg.dominators(w)
    flags = [f["name"] for f in adt.variants[0]["fields"]]
    rtok = {c.decode().upper() for c in const_str_set(r) if c.isalpha()}
    # blocks that use a token constant
    uses = {}
    from ..facts import const_bytes as _cb
    for blk in w.blocks:
        for st in blk.stmts:
            if st["k"] != "assign":
                continue
            for o in ([st["rv"].get("a"), st["rv"].get("b")] + list(st["rv"].get("ops", []) or [])):
                if isinstance(o, dict) and "c" in o:
                    v = _cb(o["c"])
                    if v and v.decode(errors="ignore").upper() in rtok:
                        uses.setdefault(v.decode().upper(), set()).add(blk.id)
        t = blk.term
        if t["k"] == "call":
            for a in t["args"]:
                if "c" in a:
                    v = _cb(a["c"])
                    if v and v.decode(errors="ignore").upper() in rtok:
                        uses.setdefault(v.decode().upper(), set()).add(blk.id)
    if not ctx.floor("C17.D2", "flag tokens used by to_arg that from_arg knows", len(uses), len(flags)):
        return
    for tok, bbs in sorted(uses.items()):
        own = tok.lower()
        for bb in sorted(bbs):
            conds = []
            for d, discr, val in branch_conditions(w, bb, dom):
                names = {n for a, n in du.slice_operand(discr, deep=False).fields if (a or "").endswith("ClusterMapFlags")}
                conds.append((names, val))
            foreign = [c for c in conds if c[0] and own not in c[0]]
            mine = [c for c in conds if own in c[0]]
            ctx.check(bool(mine) and not foreign, "C17.D2", "flag-token-independent:%s" % tok, site(w, bb), ok="%s is written iff the %s flag is set" % (tok, own),
                      bad="the token %s is written under a condition on another flag (%s): a combination of flags is encoded as a single token and decodes to different flags (e.g. FORCE+COMPRESS -> FORCE, the compressed blob is then read as a cluster name)" % (tok, sorted(set().union(*[c[0] for c in foreign])) if foreign else "none of its own"))



def _config_fields_independent(ctx):
    from ..lib import branch_conditions
    from .C04 import _exits
    F = ctx.F
    R = "C17.D6"
    bs = [b for b in F.all_bodies(bins=False) if b.crate == "undermoon" and not b.is_mock() and b.kind == "AssocFn" and b.path.startswith("common::config::")
          and b.locals[0]["ty"].startswith("std::result::Result<") and len(b.sig.get("params", []) if b.sig else []) >= 0
          and b.raw.get("argc") == 3 and b.locals[1]["ty"].startswith("&mut ") and b.locals[2]["ty"] == "&str" and b.locals[3]["ty"] == "&str"]
    if not ctx.floor(R, "config field setters (&mut self, &str, &str) -> Result", len(bs), 2):
        return
    for b in bs:
        ctx.analysed(b)
        du = DefUse(b)
        dom = cfg.dominators(b)
        _, errs = _exits(b)
        bad = []
        for x in errs:
            if b.blocks[x].term["k"] == "call" and b.blocks[x].term["dest"]["l"] == 0 and callee_decl(b.blocks[x].term) != "std::ops::FromResidual::from_residual":
                continue   # delegation to the nested config's setter
            for d, discr, val in branch_conditions(b, x, dom):
                sl = du.slice_operand(discr, deep=True)
                fs = [(a, n) for a, n in sl.fields if (a or "").startswith("common::config::")]
                if sl.has_param(1) and fs:
                    bad.append((x, b.blocks[d].term.get("line"), sorted(n for _, n in fs)))
        ctx.check(not bad, R, "field-refusal-by-own-value:%s" % b.impl_adt.rsplit("::", 1)[-1], site(b, bad[0][0]) if bad else site(b), ok="no refusal depends on the current value of a config field",
                  bad="a field is refused depending on the current value of %s (line %s): decoding a config applies the fields in arbitrary order to the defaults, so a valid config fails to decode for some orders" % (bad[0][2] if bad else "", bad[0][1] if bad else ""))


def _empty_name_decodes(ctx):
    from ..sccp import Interp, Oracle, Int, Bool, Agg
    F = ctx.F
    R = "C17.D6"
    bs = [b for b in F.all_bodies(bins=False) if b.crate == "undermoon" and not b.is_mock() and b.path.startswith("<common::cluster::ClusterName as std::convert::TryFrom") and b.kind in ("AssocFn", "Fn")]
    if not ctx.floor(R, "ClusterName::try_from", len(bs), 1):
        return
    for b in bs:
        ctx.analysed(b)

        def call(interp, bbx, term, argvals):
            c = callee_of(term) or callee_decl(term) or ""
            last = c.rsplit("::", 1)[-1]
            aty = (term.get("atys") or [""])[0]
            if last == "is_empty" and aty in ("&str", "&[u8]"):
                return Bool(1)
            if last == "len" and aty in ("&str", "&[u8]"):
                return Int(0)
            if last == "next" and ("Chars" in aty or "Bytes" in aty or "CharIndices" in aty or "slice::Iter" in aty):
                return Agg("std::option::Option", 0, ())
            if last in ("all", "any") and ("Chars" in aty or "Bytes" in aty or "CharIndices" in aty or "slice::Iter" in aty):
                return Bool(1 if last == "all" else 0)     # over no characters: all = true, any = false
            return None
        try:
            res = Interp(F, b, Oracle(call=call)).run()
        except Exception as e:
            ctx.lost(R, "empty-name", "interpretation failed: %s" % e)
            continue
        bad = [bb for bb, i, st in b.assigns() if st["place"]["l"] == 0 and not st["place"]["p"] and st["rv"]["k"] == "agg" and st["rv"].get("variant") == "Err" and bb in res.exec_blocks]
        ctx.check(not bad, R, "empty-name-decodes", site(b, bad[0]) if bad else site(b), ok="the empty token is not refused by the name decoder's own checks",
                  bad="ClusterName::try_from refuses the empty string, which is what the encoders write for a proxy / node that belongs to no cluster: such metadata no longer decodes from its own encoding")
