"""C15 - RESP encoding and incremental decoding are lossless (DESIGN §5 C15): tables, framing
and consume-only-complete-packets rules; round trip over all values / splits is not decided."""
import itertools

from ..facts import norm, callee_of, callee_decl, place_fields, const_bytes
from ..defuse import DefUse
from ..sccp import Interp, Oracle, Int, Bool, Agg, TOP, Some, NONE, Ok, Err
from .. import cfg
from ..lib import m, calls_to, site, agg_sites
from ..tables.redis_commands import RESP_PREFIX

EXPLANATION = (
    "Decided structurally: the line parser is evaluated (constant propagation with slice / memchr models) on all 121 byte strings over {a, CR, LF} of "
    "length <= 4 against the RESP line rule - in particular `no LF yet` is NotEnoughData (never a protocol error, so split reads behave like one read) "
    "and a line not ending in CR LF is InvalidProtocol; the bulk-string and top-level parsers are evaluated on literal packets (nil, empty, short, "
    "wrong terminator, bad length, all five prefixes); the encoder's variant -> prefix table, nil constants and CR LF terminator are extracted and "
    "must equal the RESP table and the decoder's byte -> variant table; the read buffer is consumed only in parse_indexed_resp, only after a "
    "successful parse and by exactly the parsed length; NotEnoughData maps to Ok(None) and InvalidProtocol to an error in the packet decoders; a "
    "request hint taken for a reply is kept while the reply is incomplete. Round-trip equality over all values and all split points is NOT decided."
)
ASSUMPTIONS = ["round trip over arbitrary nested values and arbitrary split points is behavioural and not decided", "arrays with elements are not evaluated by the table (loop state is joined)"]
TRUSTED = ["models of memchr, slice get/first/len, btoi on literals"]

MUTANTS = [
    {"name": "chunked-writer-passes-large-input-first", "edits": [{"file": "src/protocol/packet.rs", "old": "                let mut b = Vec::with_capacity(1024);\n                let size = encode_resp(&mut b, &resp)?;\n                f(&b);\n                Ok((size, f))\n", "new": "                let mut writer = ChunkedWriter::new(f);\n                let size = encode_resp(&mut writer, &resp)?;\n                Ok((size, writer.finish()))\n"}, {"file": "src/protocol/packet.rs", "old": "impl DecodedPacket for RespPacket {", "new": "const ENCODE_CHUNK_SIZE: usize = 1024;\n\n// Collects the small pieces written by the encoder and hands them over in chunks,\n// so that a large payload does not need to be copied to a temporary buffer first.\nstruct ChunkedWriter<F: FnMut(&[u8])> {\n    buf: Vec<u8>,\n    f: F,\n}\n\nimpl<F: FnMut(&[u8])> ChunkedWriter<F> {\n    fn new(f: F) -> Self {\n        Self {\n            buf: Vec::with_capacity(ENCODE_CHUNK_SIZE),\n            f,\n        }\n    }\n\n    fn flush_buf(&mut self) {\n        if !self.buf.is_empty() {\n            (self.f)(&self.buf);\n            self.buf.clear();\n        }\n    }\n\n    fn finish(mut self) -> F {\n        self.flush_buf();\n        self.f\n    }\n}\n\nimpl<F: FnMut(&[u8])> io::Write for ChunkedWriter<F> {\n    fn write(&mut self, data: &[u8]) -> io::Result<usize> {\n        if data.len() >= ENCODE_CHUNK_SIZE {\n            // Large payload, pass it through without copying.\n            (self.f)(data);\n            return Ok(data.len());\n        }\n        if self.buf.len() + data.len() > ENCODE_CHUNK_SIZE {\n            self.flush_buf();\n        }\n        self.buf.extend_from_slice(data);\n        Ok(data.len())\n    }\n\n    fn flush(&mut self) -> io::Result<()> {\n        self.flush_buf();\n        Ok(())\n    }\n}\n\nimpl DecodedPacket for RespPacket {"}], "expect": "C15.D5:writer-keeps-order"},
    {"name": "encoder-prefix-swapped", "file": "src/protocol/encoder.rs", "old": "        Resp::Error(s) => encode_simple_element(writer, b\"-\", s),\n        Resp::Simple(s) => encode_simple_element(writer, b\"+\", s),", "new": "        Resp::Error(s) => encode_simple_element(writer, b\"+\", s),\n        Resp::Simple(s) => encode_simple_element(writer, b\"-\", s),", "expect": "C15.D1"},
    {"name": "split-before-parse", "file": "src/protocol/stateless.rs", "old": "    let (resp, consumed) = parse_resp(buf)?;\n    let data = buf.split_to(consumed).freeze();", "new": "    let (resp, consumed) = match parse_resp(buf) {\n        Ok(r) => r,\n        Err(e) => {\n            buf.clear();\n            return Err(e);\n        }\n    };\n    let data = buf.split_to(consumed).freeze();", "expect": "C15.D2"},
    {"name": "cr-without-lf-is-error", "file": "src/protocol/stateless.rs", "old": "    let lf_index = memchr(LF, buf).ok_or(ParseError::NotEnoughData)?;", "new": "    let lf_index = match memchr(CR, buf) {\n        None => return Err(ParseError::NotEnoughData),\n        Some(i) => {\n            if buf.get(i + 1) != Some(&LF) {\n                return Err(ParseError::InvalidProtocol);\n            }\n            i + 1\n        }\n    };", "expect": "C15.D3:line"},
    {"name": "bulk-terminator-unchecked", "file": "src/protocol/stateless.rs", "old": "    if buf.get(end..end + 2) != Some(CRLF) {\n        return Err(ParseError::InvalidProtocol);\n    }\n", "new": "", "expect": "C15.D3:bulk"},
    {"name": "negative-array-not-nil", "file": "src/protocol/stateless.rs", "old": "    if len < 0 {\n        return Ok((ArrayIndex::Nil, consumed));\n    }", "new": "    if len < -1 {\n        return Ok((ArrayIndex::Nil, consumed));\n    }", "expect": "C15.D1"},
    {"name": "array-incomplete-by-estimate", "file": "src/protocol/stateless.rs", "old": "    let array_size = len as usize;\n", "new": "    let array_size = len as usize;\n    if buf.len().saturating_sub(consumed) < array_size.saturating_mul(4) {\n        return Err(ParseError::NotEnoughData);\n    }\n", "expect": "C15.D4:exact"},
]

PE = "protocol::stateless::ParseError"
INL = ("parse_len", "parse_line", "parse_bulk_str", "parse_array_with_depth", "parse_array", "parse_resp_with_depth", "parse_resp", "to_range", "advance")


def _err_name(F, rv):
    pe = F.adt(PE)
    if rv is not None and rv[0] == "agg" and rv[1] == "std::result::Result" and rv[2] == 1:
        e = rv[3][0]
        if e[0] == "agg" and e[1] == PE:
            return pe.variants[e[2]]["name"]
        return "Err(?)"
    return None


def _line_ref(k):
    i = k.find(b"\n")
    if i < 0:
        return "NotEnoughData"
    if i == 0 or k[i - 1:i] != b"\r":
        return "InvalidProtocol"
    return (0, i - 1, i + 1)


def run(ctx):
    F = ctx.F
    ctx.rule("C15.D1", "encoder variant -> prefix / nil / terminator table equals the RESP table and the decoder's prefix -> variant table; negative length -> Nil", exhaustive=True)
    ctx.rule("C15.D2", "the read buffer is consumed only after a complete parse, by the parsed length; NotEnoughData -> Ok(None), InvalidProtocol -> error; an incomplete reply keeps its request hint")
    ctx.rule("C15.D4", "incompleteness verdicts are exact: NotEnoughData is produced only for an empty buffer, a line without LF, or a bulk string shorter than its declared length + CR LF (a verdict from an estimate would stall a complete packet for ever)")
    ctx.rule("C15.D3", "framing: line parser on all 121 strings over {a,CR,LF} of length <= 4; bulk-string parser on literal packets", exhaustive=True)
    _line_table(ctx)
    _bulk_table(ctx)
    _resp_table(ctx)
    _encoder(ctx)
    _consume(ctx)
    _hint(ctx)
    _exact_incompleteness(ctx)
    ctx.rule("C15.D5", "every io::Write adaptor of this crate that the encoder can write through keeps the byte order: a writer that buffers part of its input in a field and hands other input straight to its sink does so only after it drained the buffer")
    _writers_keep_order(ctx)


def _line_table(ctx):
    F = ctx.F
    b = F.one("protocol::stateless::parse_line")
    if b is None:
        ctx.lost("C15.D3", "parse_line", "not found")
        return
    ctx.analysed(b)
    bad, und, n = [], [], 0
    for L in range(0, 5):
        for t in itertools.product(b"a\r\n", repeat=L):
            k = bytes(t)
            n += 1
            try:
                rv = Interp(F, b, Oracle(args={1: ("ref", ("const", k), ())}), inline=INL).run().return_value()
            except Exception:
                rv = None
            got = _err_name(F, rv)
            if got is None and rv is not None and rv[0] == "agg" and rv[2] == 0:
                tup = rv[3][0]
                try:
                    got = (tup[3][0][3][0][1], tup[3][0][3][1][1], tup[3][1][1])
                except Exception:
                    got = None
            if got is None:
                und.append(k)
            elif got != _line_ref(k):
                bad.append((k, got, _line_ref(k)))
    ctx.paths += n
    if und:
        ctx.lost("C15.D3", "line:table", "result not constant for %d/%d inputs (first %r)" % (len(und), n, und[0]))
    for k, got, want in bad[:6]:
        ctx.violation("C15.D3", "line:%r" % k.decode("latin-1"), site(b), "parse_line(%r) = %s, RESP framing requires %s%s" % (k, got, want, " (a CR whose LF has not arrived yet is an incomplete line, not an error)" if want == "NotEnoughData" else ""))
    if not bad and not und:
        ctx.holds("C15.D3", "line:table", site(b), "%d inputs over {a,CR,LF} agree with the RESP line rule (incomplete -> NotEnoughData, missing CR -> InvalidProtocol)" % n)


def _bulk_table(ctx):
    F = ctx.F
    b = F.one("protocol::stateless::parse_bulk_str")
    if b is None:
        ctx.lost("C15.D3", "parse_bulk_str", "not found")
        return
    ctx.analysed(b)
    cases = [(b"1\r\na\r\n", ("Str", 3, 4, 6)), (b"1\r\naXY", "InvalidProtocol"), (b"1\r\na\rY", "InvalidProtocol"), (b"1\r\na\r", "NotEnoughData"), (b"1\r\na", "NotEnoughData"),
             (b"-1\r\n", ("Nil", 4)), (b"0\r\n\r\n", ("Str", 3, 3, 5)), (b"2\r\na\r\n", "NotEnoughData"), (b"x\r\n", "InvalidProtocol"), (b"1\r", "NotEnoughData"),
             (b"11\r\nhello\r\nworld\r\n", "InvalidProtocol"), (b"5\r\nhello\r\nrest", ("Str", 3, 8, 10))]
    for k, want in cases:
        try:
            rv = Interp(F, b, Oracle(args={1: ("ref", ("const", k), ())}), inline=INL).run().return_value()
        except Exception:
            rv = None
        got = _err_name(F, rv)
        if got is None and rv is not None and rv[0] == "agg" and rv[2] == 0:
            try:
                tup = rv[3][0]
                bi = tup[3][0]
                adt = F.adt("protocol::resp::BulkStr")
                vn = adt.variants[bi[2]]["name"]
                got = (vn, tup[3][1][1]) if vn == "Nil" else (vn, bi[3][0][3][0][1], bi[3][0][3][1][1], tup[3][1][1])
            except Exception:
                got = None
        key = "bulk:%r" % k.decode("latin-1")
        if got is None:
            ctx.lost("C15.D3", key, "result not constant: %s" % (rv,))
        else:
            ctx.check(got == want, "C15.D3", key, site(b), ok="%s" % (got,), bad="parse_bulk_str(%r) = %s, expected %s" % (k, got, want))


def _resp_table(ctx):
    F = ctx.F
    b = F.one("protocol::stateless::parse_resp")
    ri = F.adt("protocol::resp::Resp")
    if b is None or ri is None:
        ctx.lost("C15.D1", "parse_resp", "not found")
        return None
    ctx.analysed(b)
    table = {}
    cases = {b"+OK\r\n": "Simple", b"-ERR x\r\n": "Error", b":12\r\n": "Integer", b"$2\r\nab\r\n": "Bulk", b"*-1\r\n": "Arr", b"$-1\r\n": "Bulk", b"!x\r\n": "InvalidProtocol", b"": "NotEnoughData", b"+OK": "NotEnoughData", b"ok\r\n": "InvalidProtocol"}
    for k, want in cases.items():
        try:
            rv = Interp(F, b, Oracle(args={1: ("ref", ("const", k), ())}), inline=INL).run().return_value()
        except Exception:
            rv = None
        got = _err_name(F, rv)
        consumed = None
        if got is None and rv is not None and rv[0] == "agg" and rv[2] == 0:
            try:
                tup = rv[3][0]
                got = ri.variants[tup[3][0][2]]["name"]
                consumed = tup[3][1][1]
            except Exception:
                got = None
        key = "decoder:%r" % k.decode("latin-1")
        if got is None:
            ctx.lost("C15.D1", key, "result not constant: %s" % (rv,))
            continue
        okc = consumed is None or consumed == len(k)
        ctx.check(got == want and okc, "C15.D1", key, site(b), ok="%s%s" % (got, " consuming %d bytes" % consumed if consumed is not None else ""), bad="decoding %r gives %s (consumed %s), expected %s consuming %d" % (k, got, consumed, want, len(k)))
        if k[:1] and got in RESP_PREFIX:
            table[k[0]] = got
    # nil variants
    for k, adt_name, field in ((b"*-1\r\n", "protocol::resp::Array", "Arr"), (b"$-1\r\n", "protocol::resp::BulkStr", "Bulk")):
        try:
            rv = Interp(F, b, Oracle(args={1: ("ref", ("const", k), ())}), inline=INL).run().return_value()
            inner = rv[3][0][3][0][3][0]
            vn = F.adt(adt_name).variants[inner[2]]["name"]
        except Exception:
            vn = None
        ctx.check(vn == "Nil", "C15.D1", "decoder-nil:%s" % field, site(b), ok="negative length decodes to Nil", bad="%r decodes to %s" % (k, vn))
    for byte, vn in table.items():
        ctx.check(RESP_PREFIX.get(vn) == byte, "C15.D1", "decoder-prefix:%s" % vn, site(b), ok="'%s' -> %s" % (chr(byte), vn), bad="prefix '%s' decodes to %s" % (chr(byte), vn))
    return table


def _written_consts(F, b, res):
    """byte-string constants passed to io::Write::write in executable blocks"""
    du = DefUse(b)
    out = []
    for bb, t in b.calls():
        if bb in res.exec_blocks and (callee_decl(t) or "").endswith("io::Write::write") and len(t["args"]) > 1:
            sl = du.slice_operand(t["args"][1], deep=False)
            for c in sl.consts:
                v = const_bytes(c)
                if v is None and c.get("v", "").endswith("]") and "promoted" in c.get("v", ""):
                    import re
                    mm = re.search(r"promoted\[(\d+)\]$", c["v"])
                    pb = (b.promoted_of or b).promoted[int(mm.group(1))]
                    for blk in pb.blocks:
                        for s in blk.stmts:
                            if s["k"] == "assign" and s["rv"]["k"] == "use" and "c" in s["rv"]["a"]:
                                v = v or const_bytes(s["rv"]["a"]["c"])
                if v is not None:
                    out.append(v)
    return out


def _encoder(ctx):
    F = ctx.F
    b = F.one("protocol::encoder::encode_resp")
    adt = F.adt("protocol::resp::Resp")
    if b is None or adt is None:
        ctx.lost("C15.D1", "encode_resp", "not found")
        return
    ctx.analysed(b)
    du = DefUse(b)
    simple = calls_to(b, "encode_simple_element")
    for vi, v in enumerate(adt.variants):
        def read(interp, bbx, place, val, vi=vi):
            if place["l"] == 2 and place["p"] == ["deref"]:
                return Agg(adt.path, vi, tuple([TOP] * len(v["fields"])))
            return None
        res = Interp(F, b, Oracle(read=read)).run()
        got = set()
        for bb, t in simple:
            if bb in res.exec_blocks:
                got |= set(_consts_of(b, du.slice_operand(t["args"][1], deep=False)))
        if any(bb in res.exec_blocks for bb, t in calls_to(b, "encode_bulk_str")):
            got.add(b"<bulk>")
        if any(bb in res.exec_blocks for bb, t in calls_to(b, "encode_array")):
            got.add(b"<array>")
        want = {"Error": {b"-"}, "Simple": {b"+"}, "Integer": {b":"}, "Bulk": {b"<bulk>"}, "Arr": {b"<array>"}}.get(v["name"])
        ctx.check(got == want, "C15.D1", "encoder-prefix:%s" % v["name"], site(b), ok="%s -> %s" % (v["name"], sorted(got)), bad="Resp::%s is encoded with %s (RESP: %s)" % (v["name"], sorted(got), sorted(want or [])))
    for fn, nil, prefix, adt_name in (("encode_bulk_str", b"$-1\r\n", b"$", "protocol::resp::BulkStr"), ("encode_array", b"*-1\r\n", b"*", "protocol::resp::Array")):
        e = F.one("protocol::encoder::" + fn)
        a2 = F.adt(adt_name)
        if e is None or a2 is None:
            ctx.lost("C15.D1", fn, "not found")
            continue
        ctx.analysed(e)
        de = DefUse(e)
        for vi, v in enumerate(a2.variants):
            def read(interp, bbx, place, val, vi=vi):
                if place["l"] == 2 and place["p"] == ["deref"]:
                    return Agg(a2.path, vi, tuple([TOP] * len(v["fields"])))
                return None
            res = Interp(F, e, Oracle(read=read)).run()
            consts = set(_written_consts(F, e, res))
            for bb, t in calls_to(e, "encode_simple_element"):
                if bb in res.exec_blocks:
                    consts |= set(_consts_of(e, de.slice_operand(t["args"][1], deep=False)))
            if v["name"] == "Nil":
                ctx.check(nil in consts and prefix not in consts, "C15.D1", "encoder-nil:%s" % fn, site(e), ok="Nil -> %r" % nil, bad="Nil is encoded with %s" % sorted(consts))
            else:
                ctx.check(prefix in consts and nil not in consts, "C15.D1", "encoder-prefix:%s" % fn, site(e), ok="prefix %r" % prefix, bad="%s is encoded with %s" % (v["name"], sorted(consts)))
    se = F.one("protocol::encoder::encode_simple_element")
    if se is not None:
        ctx.analysed(se)
        ds = DefUse(se)
        ws = [(bb, t) for bb, t in se.calls() if (callee_decl(t) or "").endswith("io::Write::write")]
        dom = cfg.dominators(se)
        order = []
        for bb, t in ws:
            sl = ds.slice_operand(t["args"][1])
            order.append((bb, "prefix" if sl.has_param(2) else "payload" if sl.has_param(3) else "crlf" if b"\r\n" in set(_consts_of(se, sl)) else "?"))
        kinds = [k for _, k in order]
        good = sorted(kinds) == ["crlf", "payload", "prefix"]
        if good:
            pos = {k: bb for bb, k in order}
            good = pos["prefix"] in dom.get(pos["payload"], ()) and pos["payload"] in dom.get(pos["crlf"], ())
        ctx.check(good, "C15.D1", "encoder-element-layout", site(se), ok="prefix, payload, CR LF in this order", bad="encode_simple_element writes %s" % kinds)


def _consts_of(b, sl):
    out = []
    import re
    for c in sl.consts:
        v = const_bytes(c)
        if v is not None:
            out.append(v)
        mm = re.search(r"promoted\[(\d+)\]$", c.get("v", ""))
        if mm:
            pb = (b.promoted_of or b).promoted[int(mm.group(1))]
            for blk in pb.blocks:
                for s in blk.stmts:
                    if s["k"] == "assign" and s["rv"]["k"] == "use" and "c" in s["rv"]["a"] and const_bytes(s["rv"]["a"]["c"]):
                        out.append(const_bytes(s["rv"]["a"]["c"]))
    return out


def _consume(ctx):
    F = ctx.F
    b = F.one("protocol::stateless::parse_indexed_resp")
    if b is None:
        ctx.lost("C15.D2", "parse_indexed_resp", "not found")
        return
    ctx.analysed(b)
    du = DefUse(b)
    pr = calls_to(b, "protocol::stateless::parse_resp")
    sp = [(bb, t) for bb, t in b.calls() if (callee_of(t) or "").endswith("BytesMut::split_to")]
    if ctx.floor("C15.D2", "parse_resp call", len(pr), 1) and ctx.floor("C15.D2", "split_to", len(sp), 1):
        for outcome in ("err", "ok"):
            def call(interp, bbx, term, argvals, outcome=outcome):
                if term is pr[0][1]:
                    return Err(TOP) if outcome == "err" else Ok(Agg("tuple", 0, (TOP, ("sym", "consumed"))))
                return None
            res = Interp(F, b, Oracle(call=call)).run()
            r = sp[0][0] in res.exec_blocks
            shrink = [(bb_, (callee_of(t_) or "").rsplit("::", 1)[-1]) for bb_, t_ in b.calls() if "BytesMut" in (callee_of(t_) or "") and (callee_of(t_) or "").rsplit("::", 1)[-1] in ("advance", "clear", "truncate", "split_off", "split", "set_len", "resize")]
            others_run = [nm for bb_, nm in shrink if bb_ in res.exec_blocks]
            ctx.check(not others_run, "C15.D2", "no-other-consumer:%s" % outcome, site(b), ok="split_to is the only operation that shrinks the read buffer", bad="when parse_resp returns %s the buffer is also shrunk by %s: bytes of an incomplete packet are thrown away and the rest of the stream is misframed" % (outcome, others_run))
            ctx.check(r == (outcome == "ok"), "C15.D2", "consume-only-after-parse:%s" % outcome, site(b, sp[0][0]), ok="buffer %s" % ("consumed" if r else "untouched"),
                      bad="when parse_resp returns %s the buffer is %s" % (outcome, "consumed" if r else "not consumed"))
            if outcome == "ok":
                a = res.call_args.get(sp[0][0])
                ctx.check(a is not None and a[1] == ("sym", "consumed"), "C15.D2", "consume-exactly-parsed-length", site(b, sp[0][0]), ok="split_to(consumed)", bad="split_to is given %s, not the parsed length" % (a[1] if a else None,))
    # nobody else shrinks a read buffer in protocol::
    mut = {}
    for x in F.all_bodies(bins=False):
        if x.kind == "Promoted" or x.is_mock() or not x.path.startswith(("protocol::", "<protocol::")) or "tests::" in x.path:
            continue
        for bb, t in x.calls():
            c = callee_of(t) or ""
            if "BytesMut" in c and c.rsplit("::", 1)[-1] in ("split_to", "advance", "clear", "truncate", "split_off", "split", "set_len"):
                mut.setdefault(c.rsplit("::", 1)[-1], set()).add(x.path.split("::{")[0])
    allowed = {"protocol::stateless::parse_indexed_resp"}
    others = {k: sorted(v - allowed) for k, v in mut.items() if v - allowed}
    ctx.check(not others, "C15.D2", "only-parse_indexed_resp-consumes", None, ok="the read buffer is consumed only in parse_indexed_resp", bad="read buffers are also shrunk in %s" % others)
    # error mapping in the packet decoders
    pe = F.adt(PE)
    n = 0
    for x in F.all_bodies(bins=False):
        if x.kind == "Promoted" or x.is_mock() or "tests::" in x.path:
            continue
        calls = calls_to(x, "protocol::stateless::parse_indexed_resp")
        if not calls or not x.locals[0]["ty"].startswith("std::result::Result<std::option::Option<"):
            continue
        n += 1
        ctx.analysed(x)
        for vi, v in enumerate(pe.variants):
            def call(interp, bbx, term, argvals, vi=vi):
                if term is calls[0][1]:
                    return Err(Agg(PE, vi, ()))
                return None
            rv = Interp(F, x, Oracle(call=call)).run().return_value()
            kind = None
            if rv is not None and rv[0] == "agg" and rv[1] == "std::result::Result":
                kind = "Ok(None)" if rv[2] == 0 and rv[3][0][0] == "agg" and rv[3][0][2] == 0 else "Ok(Some)" if rv[2] == 0 else "Err"
            want = "Ok(None)" if v["name"] == "NotEnoughData" else "Err"
            ctx.check(kind == want, "C15.D2", "error-mapping:%s:%s" % (x.path.split("::{")[0].replace("protocol::", ""), v["name"]), site(x, calls[0][0]), ok="%s -> %s" % (v["name"], kind), bad="%s is mapped to %s (expected %s)" % (v["name"], kind, want))
    ctx.floor("C15.D2", "packet decoders built on parse_indexed_resp", n, 1)


def _hint(ctx):
    F = ctx.F
    cands = [x for x in F.all_bodies(bins=False) if x.kind == "AssocFn" and "OptionalMultiPacketDecoder" in x.path and x.path.endswith("PacketDecoder>::decode")]
    if not ctx.floor("C15.D2", "OptionalMultiPacketDecoder::decode", len(cands), 1):
        return
    b = cands[0]
    ctx.analysed(b)
    du = DefUse(b)
    fam = F.family(b)
    acq = []
    for bb, t in b.calls():
        c = callee_of(t) or ""
        if c.endswith("OptionalMultiHintState::consume"):
            acq.append((bb, t))
        elif c.endswith("Option::take") and any(n == "curr_hint" for a, n in du.slice_operand(t["args"][0], deep=False).fields):
            acq.append((bb, t))
    for x in fam:
        if x is not b and calls_to(x, "OptionalMultiHintState::consume"):
            for bb, i, s in b.assigns():
                if s["rv"]["k"] == "agg" and s["rv"].get("ak") == "closure" and norm(s["rv"]["def"]) == x.path:
                    acq.append((bb, None))
    stores = [(bb, i) for bb, i, s in b.assigns() if [n for a, n in place_fields(s["place"])][-1:] == ["curr_hint"] and any(e == "deref" for e in s["place"]["p"])]
    none_rets = []
    for bb, i, s in b.assigns():
        rv = s["rv"]
        if s["place"]["l"] == 0 and rv["k"] == "agg" and rv.get("variant") == "Ok":
            from ..lib import agg_variant_of
            av = agg_variant_of(du, rv["ops"][0])
            if av and av[1] == "None":
                none_rets.append(bb)
    if not (ctx.floor("C15.D2", "hint acquisition", len(acq), 1) and ctx.floor("C15.D2", "Ok(None) returns", len(none_rets), 1)):
        return
    for ab, at in acq:
        def call(interp, bbx, term, argvals, at=at):
            if at is not None and term is at:
                return Some(TOP)
            return None
        res = Interp(F, b, Oracle(call=call)).run()
        succs = cfg.exec_succs(b, res.exec_edges)
        # stores that put a hint *back* (Some), not the resets to None
        keep = set()
        for sb, si in stores:
            s = b.blocks[sb].stmts[si]
            from ..lib import agg_variant_of
            av = agg_variant_of(du, s["rv"]["a"]) if s["rv"]["k"] == "use" else ((None, s["rv"].get("variant")) if s["rv"]["k"] == "agg" else None)
            if av and av[1] == "Some":
                keep.add((sb, si))
        p = cfg.path_avoiding(b, (ab, len(b.blocks[ab].stmts)), set(none_rets), keep, succs=succs, start_is_target=False)
        ctx.check(p is None, "C15.D2", "hint-kept-while-incomplete:%s" % ("consume" if at is not None and (callee_of(at) or "").endswith("consume") else "take"), site(b, ab),
                  ok="a hint taken for a reply is stored in curr_hint before any `not enough data` return", bad="a request hint can be taken and lost when the reply is incomplete: the next decode finds no hint and the reply is never delivered",
                  path=str(cfg.lines_of_path(b, p)) if p else None)


def _exact_incompleteness(ctx):
    from ..lib import branch_conditions, agg_sites
    F = ctx.F
    R = "C15.D4"
    n = 0
    for b in F.all_bodies(bins=False):
        if b.is_mock() or b.kind == "Promoted" or "tests::" in b.path or not b.path.startswith(("protocol::stateless", "protocol::decoder", "protocol::packet", "<protocol::")):
            continue
        sites_ = agg_sites(b, "ParseError", "NotEnoughData")
        if not sites_:
            continue
        du = DefUse(b)
        dom = cfg.dominators(b)
        for bb, i, st in sites_:
            n += 1
            ctx.analysed(b)
            why = None
            # (2) argument of ok_or on a memchr / position result
            dl = st["place"]["l"]
            for ub, ut in b.calls():
                if (callee_of(ut) or "").endswith("Option::ok_or") and any((a.get("mv") or a.get("cp") or {}).get("l") == dl for a in ut["args"][1:]):
                    sl = du.slice_operand(ut["args"][0])
                    if sl.has_call("memchr") or sl.has_call("position"):
                        why = "line without LF (memchr found nothing)"
            for d, discr, val in branch_conditions(b, bb, dom):
                is_true = (val == 1) or (isinstance(val, tuple) and val[1] == [0])
                if not is_true:
                    continue
                sl = du.slice_operand(discr)
                # (1) empty buffer
                if sl.has_call("is_empty") and not sl.binops:
                    why = why or "empty buffer"
                # (3) buf.len() < consumed + declared length + 2
                if sl.binops & {"Lt", "Le", "Gt", "Ge"} and sl.has_call("len") and sl.has_call("parse_len") and 2 in sl.const_ints() and (sl.binops & {"Add", "AddWithOverflow"}) and not (sl.binops & {"Mul", "MulWithOverflow", "Div", "Shl", "Shr"}) and not any(c.rsplit("::", 1)[-1].startswith(("saturating_", "wrapping_", "checked_mul")) for c in list(sl.calls) + list(sl.decls)):
                    why = why or "buffer shorter than the declared bulk length + CR LF"
            ctx.check(why is not None, R, "exact:%s#%d" % (b.path.rsplit("::", 1)[-1], n), site(b, bb, i), ok=why or "",
                      bad="%s answers NotEnoughData on a condition that is not one of the exact ones (empty buffer, no LF, bulk shorter than declared length + 2): a complete packet can be judged incomplete, the decoder then waits for bytes that never come and the connection stalls" % b.path)
    ctx.floor(R, "NotEnoughData constructions in the decoder", n, 3)



BUFFER_TYPES = ("std::vec::Vec<u8>", "bytes::BytesMut", "std::collections::VecDeque<u8>", "std::string::String")
DRAINS = ("clear", "drain", "split", "split_to", "split_off", "truncate", "take")


def _writers_keep_order(ctx):
    F = ctx.F
    R = "C15.D5"
    n = 0
    for im in F.impls:
        if im.get("trait_n") != "std::io::Write" or im.get("crate") != "undermoon" or im.get("mac") in ("automock", "mock"):
            continue
        w = next((F.bodies.get(norm(it["def"])) for it in im["items"] if it["name"] == "write"), None)
        if w is None or "tests::" in w.path:
            continue
        n += 1
        ctx.analysed(w)
        du = DefUse(w)
        du.follow_accessors = True
        dom = cfg.dominators(w)
        adt = im.get("self_adt_n")
        a = F.adt(adt) if adt else None
        bufs = {f["name"] for f in a.fields() if f["ty"].startswith(BUFFER_TYPES)} if a is not None and a.variants else set()
        appends, passes, drains = [], [], []
        for bb, t in w.calls():
            if not t["args"]:
                continue
            c = callee_of(t) or callee_decl(t) or ""
            rsl = du.slice_operand(t["args"][0], deep=False)
            rf = {nm for ad, nm in rsl.fields if norm(ad or "") == adt}
            data_in = any(du.slice_operand(x, deep=True).has_param(2) for x in t["args"][1:])
            if rf & bufs:
                if data_in:
                    appends.append(bb)
                elif c.rsplit("::", 1)[-1] in DRAINS:
                    drains.append(bb)
            elif rf and data_in:
                passes.append((bb, c))     # the input goes to something held in another field: the sink / inner writer
            elif c in F.bodies and rsl.has_param(1) and not data_in:
                fam = F.family(F.bodies[c]) if hasattr(F, "family") else [F.bodies[c]]
                for x in fam:
                    dx = DefUse(x)
                    for b2, t2 in x.calls():
                        if t2["args"] and (callee_of(t2) or "").rsplit("::", 1)[-1] in DRAINS and {nm for ad, nm in dx.slice_operand(t2["args"][0], deep=False).fields if norm(ad or "") == adt} & bufs:
                            drains.append(bb)
        key = "writer-keeps-order:%s" % (adt or w.path).rsplit("::", 1)[-1]
        if not (appends and passes):
            ctx.holds(R, key, site(w), "no mixing of buffered and passed-through input (buffer fields %s, appends %d, pass-through %d)" % (sorted(bufs), len(appends), len(passes)))
            continue
        bad = [(bb, c) for bb, c in passes if not any(d in dom.get(bb, ()) and d != bb for d in drains)]
        ctx.check(not bad, R, key, site(w, bad[0][0]) if bad else site(w), ok="input is handed to the sink only after the buffered bytes were drained",
                  bad="write() hands its input straight to the sink (%s) while earlier input may still sit in the buffer field %s: those bytes are emitted after it, the encoding of a value with a large element is no longer the RESP encoding" % (bad[0][1] if bad else "", sorted(bufs)))
    ctx.note("crate-local io::Write adaptors examined: %d" % n)
