"""Phase routing tables of the migrating / importing tasks over MigrationState, extracted by
conditional constant propagation.  Shared by C02, C03 and C14."""
from ..facts import norm, callee_of, callee_decl, place_fields
from ..defuse import DefUse
from ..sccp import Interp, Oracle, Int, Bool, Agg, TOP
from ..lib import m, calls_to, agg_sites, site

MSTATE = "common::cluster::MigrationState" 


def find_state_adt(F):
    for p, a in F.adts.items():
        if p.endswith("::MigrationState") and a.kind == "Enum":
            return a
    return None


def send_tables(ctx, rule):
    """returns {'migrating': {state: outcome}, 'importing': {...}, 'bodies': {...}} or None"""
    F = ctx.F
    st = find_state_adt(F)
    if st is None:
        ctx.lost(rule, "MigrationState", "enum not found")
        return None
    out = {"states": st.variant_names(), "adt": st}
    sends = []
    for b in F.all_bodies(bins=False):
        if b.kind != "AssocFn" or b.is_mock() or not b.path.startswith("<migration::scan_task::"):
            continue
        if b.path.endswith("::send") and b.impl_trait and b.impl_trait.endswith("Task"):
            sends.append(b)
    roles = {}
    for b in sends:
        if "Migrating" in b.path and "Importing" not in b.path:
            roles["migrating"] = b
        elif "Importing" in b.path:
            roles["importing"] = b
    for r in ("migrating", "importing"):
        if r not in roles:
            ctx.lost(rule, "%s task send" % r, "send() of the %s task not found (candidates %s)" % (r, [b.path for b in sends]))
            return None
    out["bodies"] = roles
    for r, b in roles.items():
        ctx.analysed(b)
        du = DefUse(b)
        gs = [(bb, t) for bb, t in b.calls() if (callee_of(t) or "").endswith("get_state") and "State" in (callee_of(t) or "")]
        if not gs:
            ctx.lost(rule, "%s send: state read" % r, "no get_state() call in %s" % b.path)
            return None
        red = calls_to(b, "handle_redirection")
        snf = [bb for bb, i, s in agg_sites(b, "ClusterSendError", "SlotNotFound")]
        serve = [bb for bb, t in b.calls() if callee_decl(t) and callee_decl(t).endswith("handle_cmd_task")] + [bb for bb, t in calls_to(b, "handle_cmd_task")]
        red_target = {}
        for bb, t in red:
            sl = du.slice_operand(t["args"][1])
            names = {n for a, n in sl.fields}
            red_target[bb] = "dst" if "dst_proxy_address" in names and "src_proxy_address" not in names else "src" if "src_proxy_address" in names and "dst_proxy_address" not in names else "?"
        table = {}
        for vi, v in enumerate(st.variants):
            def call(interp, bbx, term, argvals, vi=vi):
                for gb, gt in gs:
                    if gt is term:
                        return Agg(st.path, vi, ())
                return None
            res = Interp(F, b, Oracle(call=call)).run()
            outs = set()
            for bb in snf:
                if bb in res.exec_blocks:
                    outs.add("local")
            for bb, t in red:
                if bb in res.exec_blocks:
                    outs.add("redirect-" + red_target[bb])
            for bb in serve:
                if bb in res.exec_blocks:
                    outs.add("serve")
            table[v["name"]] = "+".join(sorted(outs)) if outs else "none"
        out[r] = table
    return out


def switch_table(ctx, rule):
    """importing task: handshake sub-command -> MigrationState it installs (by constant propagation over handle_switch).
    returns ({subcmd name: state name}, body) or None"""
    F = ctx.F
    st = find_state_adt(F)
    cands = [b for b in F.all_bodies(bins=False) if b.kind == "AssocFn" and not b.is_mock() and b.path.startswith("<migration::scan_task::") and "Importing" in b.path and b.path.endswith("::handle_switch")]
    if st is None or not cands:
        ctx.lost(rule, "importing handle_switch", "handle_switch of the importing task not found")
        return None
    b = cands[0]
    ctx.analysed(b)
    sub = None
    for i, ty in enumerate(b.sig["inputs"] if b.sig else []):
        if norm(ty).endswith("MgrSubCmd"):
            sub = i + 1
    sadt = F.adt("migration::task::MgrSubCmd") or next((a for p_, a in F.adts.items() if p_.endswith("::MgrSubCmd")), None)
    if sub is None or sadt is None:
        ctx.lost(rule, "importing handle_switch", "no MgrSubCmd parameter")
        return None
    sets = [(bb, t) for bb, t in b.calls() if (callee_of(t) or "").endswith("AtomicMigrationState::set_state")]
    if not sets:
        ctx.lost(rule, "importing handle_switch", "no set_state call")
        return None
    # the version test must pass: the version comparison is left to the interpreter (TOP -> both branches); only
    # states installed on executable set_state calls are collected
    table = {}
    for vi, v in enumerate(sadt.variants):
        res = Interp(F, b, Oracle(args={sub: Agg(sadt.path, vi, ())})).run()
        got = set()
        for bb, t in sets:
            if bb in res.exec_blocks:
                av = res.call_args.get(bb)
                val = av[1] if av and len(av) > 1 else None
                if val is not None and val[0] == "agg":
                    got.add(st.variants[val[2]]["name"])
                else:
                    got.add("?")
        table[v["name"]] = "+".join(sorted(got)) if got else "none"
    return table, b
