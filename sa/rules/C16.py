"""C16 - no client input can crash, abort or wedge a proxy (DESIGN §5 C16): three kinds of
causes are decided (unbounded recursion, attacker-sized allocation / iteration, division by a
client-settable value); quantitative memory / time bounds are not."""
from ..facts import norm, callee_of, callee_decl, place_fields, const_int
from ..defuse import DefUse
from ..callgraph import CallGraph
from ..taint import Taint
from .. import cfg
from ..lib import m, calls_to, site, binop_sites

EXPLANATION = (
    "Causes of crash / abort / wedge that are visible in the shape of the code: (D2) call-graph cycles among the functions reachable from the RESP "
    "decoder entry must contain a comparison of a depth/size parameter with a bound (otherwise nesting depth = input length and the stack "
    "overflows, which aborts the whole process); (D3) integers produced by integer parsers (declared lengths, numkeys, slot numbers) are tracked by a "
    "taint analysis through returns, parameters, captured variables and fields; a tainted value must not size an allocation or bound an iteration "
    "unless it was compared with an untainted bound in its function, passed through min(), or the loop has an input-exhaustion exit; accepted sites "
    "are a vetted table with one reason each; (D1) every division / remainder reachable from the session whose divisor is not a non-zero constant "
    "must take its divisor through max(1, ..) or NonZero. Memory bounded by a constant multiple of the input and time bounded by size are "
    "quantitative statements and are NOT decided."
)
ASSUMPTIONS = ["release semantics: integer overflow does not panic (overflow-checks off); only explicit panics / aborts count",
               "the vetted table entries were confirmed by reading the code on the pinned tree"]
TRUSTED = ["integer parser list (btoi, atoi, str::parse) is the complete set of integer sources fed by client bytes"]

MODS = ("protocol::", "proxy::executor", "proxy::command", "proxy::session", "common::cluster", "common::proto", "common::utils", "replication::replicator",
        "proxy::slot", "migration::task", "proxy::manager", "migration::manager", "proxy::slowlog", "<common::", "<protocol::", "<proxy::command", "<replication::", "<proxy::slowlog")

# sink key -> reason it cannot be driven beyond the data actually present (confirmed by reading)
VETTED = {
    "range-loop:common::cluster::RangeList::parse": "the loop consumes one input token per iteration and returns Err when the tokens run out",
    "range-loop:replication::replicator::parse_repl_meta": "the loop consumes input tokens per iteration and returns Err when they run out",
    "range-loop:protocol::stateless::parse_array_with_depth": "each iteration parses one element from the buffer and returns NotEnoughData / InvalidProtocol when the buffer is exhausted",
    "range-loop:protocol::stateless::parse_array": "each iteration parses one element from the buffer and returns NotEnoughData / InvalidProtocol when the buffer is exhausted",
    "range-iter:proxy::executor::ForwardHandler::handle_blocking_commands": "arg_len is the number of elements actually present in the command (checked by get_command_arg_len)",
    "range-loop:proxy::executor::ForwardHandler::transfer_cmd_from_blocking_to_non_blocking": "arg_len is the number of elements actually present; the loop breaks on the first missing element",
    "range-iter:protocol::packet::OptionalMultiHintState::consume": "the count is the number of packets the proxy itself encoded for this exchange",
    "alloc:from_elem:<common::cluster::RangeMap as std::convert::From>::from": "map_len <= SLOT_NUM: both bounds are replaced by None when >= SLOT_NUM",
    "alloc:with_capacity:proxy::executor::ForwardHandler::handle_command_cmd": "capacity is the length of a static command table",
    "alloc:with_capacity:proxy::command::Command::to_safe_str_vec": "capacity is the number of elements actually present in the command",
    "range-iter:proxy::command::Command::to_safe_str_vec": "bounded by the number of elements actually present",
    "range-iter:proxy::executor::ForwardHandler::handle_mget": "arg_len is the number of elements actually present",
    "range-iter:proxy::executor::ForwardHandler::handle_mset": "arg_len is the number of elements actually present",
    "range-iter:proxy::executor::ForwardHandler::handle_msetnx": "arg_len is the number of elements actually present",
    "range-iter:proxy::executor::ForwardHandler::handle_multi_int_cmd": "arg_len is the number of elements actually present",
}

# panic-capable sites on the client path that are accepted: (kind, enclosing fn) -> (max sites, reason).  Confirmed by reading.
VETTED_PANIC = {
    ("expect", "common::cluster::RangeList::compact"): (2, "a < b <= len and a + 1 <= b hold throughout the loop (b starts at 1 and both advance together); the list is non-empty when the loop body runs"),
    ("expect", "common::utils::get_hash_tag"): (1, "begin and end_offset are positions found inside `key` by position(); begin + 1 + end_offset <= key.len()"),
    ("expect", "protocol::resp::IndexedResp::get_array_element"): (1, "the DataIndex values are produced by parse_indexed_resp over this very buffer and advanced together with it"),
    ("expect", "protocol::resp::IndexedResp::to_resp_vec"): (1, "same invariant: indices come from the parser that filled `data`"),
    ("expect", "protocol::resp::Resp::map_to_slice"): (1, "same invariant: called with the buffer the indices were produced from"),
    ("expect", "proxy::slowlog::RequestEventMap::set_event_time"): (1, "index is a TaskEvent discriminant; checked below against the array length"),
    ("expect", "proxy::slowlog::RequestEventMap::get_event_time"): (1, "index is a TaskEvent discriminant; checked below against the array length"),
    ("String::truncate", "proxy::cluster::gen_node_id"): (2, "both strings are ASCII: ClusterName admits only [A-Za-z0-9@_-] and the other is a hex number"),
    ("select-panic", "*"): (12, "futures::select! / tokio::select! expand to a panic for the all-branches-disabled case; every use has a branch that cannot be disabled"),
}

# std calls that panic on argument values (not on allocation failure): receiver type prefix -> method names
ARG_CHECKED = {
    "std::string::String": ("truncate", "split_off", "insert", "insert_str", "remove", "drain", "replace_range"),
    "str": ("split_at", "split_at_mut"),
    "std::vec::Vec": ("remove", "insert", "swap_remove", "drain", "split_off", "swap", "copy_from_slice", "clone_from_slice", "split_at", "split_at_mut", "chunks", "windows", "chunks_exact", "rotate_left", "rotate_right", "copy_within", "splice"),
    "std::collections::VecDeque": ("drain", "insert", "swap", "split_off", "range", "range_mut", "rotate_left", "rotate_right"),
    "[": ("split_at", "split_at_mut", "copy_from_slice", "clone_from_slice", "swap", "chunks", "windows", "chunks_exact", "rotate_left", "rotate_right", "copy_within"),
    "std::cell::RefCell": ("borrow", "borrow_mut"),
}

MUTANTS = [
    {"name": "nil-length-by-equality", "file": "src/protocol/stateless.rs", "after": "fn parse_array_with_depth(", "old": "    if len < 0 {\n        return Ok((ArrayIndex::Nil, consumed));", "new": "    if len == -1 {\n        return Ok((ArrayIndex::Nil, consumed));", "expect": "C16.D3:signed-length-cast"},
    {"name": "cluster-name-unicode-classes", "file": "src/common/cluster.rs", "old": "            if c.is_ascii_alphanumeric() || c == '@' || c == '-' || c == '_' {", "new": "            if c.is_alphanumeric() || c == '@' || c == '-' || c == '_' {", "expect": "C16.D4:cluster-name-ascii"},
    {"name": "blocking-timeout-as-deadline", "file": "src/proxy/executor.rs", "old": "        let timeout = match Self::get_blocking_command_timeout(&cmd_ctx) {\n            Ok(timeout) => timeout,", "new": "        let timeout = match Self::get_blocking_command_timeout(&cmd_ctx) {\n            Ok(timeout) => {\n                let _deadline = std::time::Instant::now() + std::time::Duration::from_secs(timeout);\n                timeout\n            }", "expect": "C16.D3:time-arith"},
    {"name": "keyless-blpop-accepted", "file": "src/proxy/executor.rs", "old": "            (DataCmdType::Blpop, Some(len)) if len > 2 => Ok(len),", "new": "            (DataCmdType::Blpop, Some(len)) if len >= 2 => Ok(len),", "expect": "C16.D5:arity:Blpop:len=2"},
    {"name": "slowlog-truncate-mid-char", "file": "src/proxy/slowlog.rs", "old": "                s.truncate(end);", "new": "                let _ = end;\n                s.truncate(MAX_ELEMENT_LENGTH);", "expect": "C16.D4"},
    {"name": "missing-key-expect", "file": "src/proxy/executor.rs", "after": "async fn handle_multi_int_cmd(", "old": "            let key = match cmd_ctx.get_cmd().get_command_element(i) {\n                Some(key) => key,\n                None => break,\n            };", "new": "            if i >= arg_len {\n                break;\n            }\n            let key = cmd_ctx.get_cmd().get_command_element(i + 1).expect(\"key\");", "expect": "C16.D4"},
    {"name": "event-array-too-short", "file": "src/proxy/slowlog.rs", "old": "const EVENT_NUMBER: usize = 8;", "new": "const EVENT_NUMBER: usize = 7;", "expect": "C16.D4:event-array"},
    {"name": "unbounded-capacity-in-to_safe_str_vec", "file": "src/proxy/command.rs", "old": "        let l = self.get_command_len()?;\n", "new": "        let l = self.get_command_len()?;\n        let l = btoi::btoi::<usize>(self.get_command_element(1)?).unwrap_or(l);\n", "expect": "C16.D3"},
    {"name": "capacity-uncapped", "file": "src/protocol/stateless.rs", "old": "Vec::with_capacity(cmp::min(array_size, buf.len()))", "new": "Vec::with_capacity(array_size)", "expect": "C16.D3:alloc:with_capacity"},
    {"name": "depth-check-removed", "file": "src/protocol/stateless.rs", "old": "    if depth >= MAX_NESTED_DEPTH {\n        return Err(ParseError::InvalidProtocol);\n    }\n", "new": "    let _ = MAX_NESTED_DEPTH;\n", "expect": "C16.D2:recursion"},
    {"name": "eval-numkeys-unclamped", "file": "src/proxy/executor.rs", "old": "        let key_num = std::cmp::min(key_num, cmd_len);\n", "new": "        let _ = cmd_len;\n", "expect": "C16.D3:range-iter:proxy::executor::ForwardHandler::handle_multi_key_eval_cmd"},
    {"name": "rangemap-unbounded", "file": "src/common/cluster.rs", "old": "let end = min(range.end(), SLOT_NUM - 1);", "new": "let end = max(range.end(), 0);", "expect": "C16.D3:range-loop"},
    {"name": "recursion-via-helper", "file": "src/protocol/stateless.rs", "old": "fn parse_len(buf: &[u8]) -> Result<(i64, usize), ParseError> {", "new": "#[allow(dead_code)]\nfn skip_nested(buf: &[u8]) -> usize {\n    match buf.first() {\n        Some(b'*') => 1 + skip_nested(buf.get(1..).unwrap_or(&[])),\n        _ => 0,\n    }\n}\n\nfn parse_len(buf: &[u8]) -> Result<(i64, usize), ParseError> {\n    let _ = skip_nested(buf);", "expect": "C16.D2"},
    {"name": "slowlog-rate-unclamped", "file": "src/proxy/slowlog.rs", "old": "        let slowlog_sample_rate = max(1, slowlog_sample_rate);", "new": "        let slowlog_sample_rate = max(0, slowlog_sample_rate);", "expect": "C16.D1"},
]


def run(ctx):
    F = ctx.F
    ctx.rule("C16.D1", "division / remainder by a value that is not a non-zero constant takes the divisor through max(>=1, ..) / NonZero / a non-zero guard")
    ctx.rule("C16.D2", "no unbounded recursion among functions reachable from the RESP decoder entry")
    ctx.rule("C16.D3", "no parser-produced integer sizes an allocation or bounds an iteration without a bound (vetted exceptions listed with reasons)")
    ctx.rule("C16.D4", "panic-capable constructs reachable from a client connection (expect / unwrap, indexing, argument-checked std calls, explicit panics) are discharged by a structural argument or listed in the vetted table")
    _recursion(ctx)
    _taint(ctx)
    _division(ctx)
    _panic_sites(ctx)
    ctx.rule("C16.D5", "arity guard of the blocking family equals the Redis command table on lengths 0..7 (a key-less BLPOP would find no sub-command to run and poll for ever)", exhaustive=True)
    _blocking_arity(ctx)


def _is_int(ty):
    return ty.replace("&", "").strip() in ("usize", "u64", "u32", "u16", "u8", "i64", "i32", "isize")


def _recursion(ctx):
    F = ctx.F
    cg = CallGraph(F, bins=False)
    roots = [p for p in cg.bodies if p in ("protocol::stateless::parse_indexed_resp", "protocol::stateless::parse_resp") or p.endswith("RespCodec as tokio_util::codec::Decoder>::decode") or "DecodedPacket>::decode" in p]
    if not ctx.floor("C16.D2", "decoder entry points", len(roots), 2):
        return
    reach = cg.reachable(roots)
    reach = {p for p in reach if p.startswith(("protocol::", "<protocol::"))}
    ctx.note("functions reachable from the decoder entry inside protocol::: %d" % len(reach))
    sccs = cg.sccs(reach)
    kept = []
    for comp in sccs:
        # only cycles that walk raw input bytes matter here: recursion over an already parsed value (Clone, Functor::map ..)
        # is as deep as the parser allowed the value to be
        raw = False
        for p in comp:
            b = cg.bodies[p]
            if b.sig and any(t_.replace(" ", "") in ("&[u8]", "&mutbytes::BytesMut", "&mut[u8]") for t_ in b.sig["inputs"]):
                raw = True
        if len(comp) == 1:
            b = cg.bodies[comp[0]]
            direct = any((callee_of(t) == comp[0]) for bb, t in b.calls())
            if not direct:
                ctx.info("C16.D2", "trait-fanout-self-loop:%s" % comp[0], "self edge only through an unresolved generic trait call (over-approximation), not a recursion")
                continue
        if not raw:
            ctx.info("C16.D2", "value-recursion:%s" % "<->".join(x.rsplit("::", 1)[-1] for x in comp), "recursion over parsed values: depth bounded by the parser's nesting bound")
            continue
        kept.append(comp)
    sccs = kept
    for comp in sccs:
        for p in comp:
            ctx.analysed(cg.bodies[p])
        # bounded if some function of the cycle compares an integer parameter (depth / budget) with something and exits
        bounded = False
        for p in comp:
            b = cg.bodies[p]
            du = DefUse(b)
            for bb, i, s in binop_sites(b, ("Lt", "Le", "Gt", "Ge", "Eq")):
                for side in ("a", "b"):
                    sl = du.slice_operand(s["rv"][side], deep=False)
                    other = s["rv"]["b" if side == "a" else "a"]
                    for l, _ in sl.params:
                        # a depth counter: an integer parameter compared with a constant bound ...
                        if not _is_int(b.locals[l]["ty"]) or not ("c" in other):
                            continue
                        # ... that the cycle's calls pass on increased
                        for cb_, ct_ in b.calls():
                            tgt = callee_of(ct_) or ""
                            if tgt in comp:
                                for a_ in ct_["args"]:
                                    asl = du.slice_operand(a_)
                                    if asl.has_param(l) and (asl.binops & {"Add", "AddWithOverflow"}):
                                        bounded = True
        key = "recursion:" + "<->".join(x.rsplit("::", 1)[-1] for x in comp)
        ctx.check(bounded, "C16.D2", key, site(cg.bodies[comp[0]]), ok="the cycle carries a depth parameter that is compared with a bound",
                  bad="%s call each other with no depth bound: nesting depth grows with the input (`*1\\r\\n` repeated), the stack overflows and the process aborts" % " and ".join(comp))
    if not sccs:
        ctx.holds("C16.D2", "recursion:none", None, "no call-graph cycle among the %d decoder functions" % len(reach))


def _consumer(b, du, local):
    """how a Range value is consumed: 'loop' (for loop), 'iter' (iterator adaptor chain) or 'slice' (indexing / get)"""
    kinds = set()
    for bb, t in b.calls():
        for a in t["args"][:1]:
            pl = a.get("mv") or a.get("cp")
            if pl is not None and pl["l"] == local and not pl["p"]:
                d = callee_decl(t) or ""
                c = callee_of(t) or ""
                if d == "std::iter::IntoIterator::into_iter":
                    # followed by a loop over it?
                    dest = t["dest"]["l"]
                    kinds.add(("loop", bb, dest))
                elif d.startswith("std::iter::Iterator::"):
                    kinds.add(("iter", bb, None))
                elif c.endswith("slice::get") or c.endswith("::get") or d.startswith("std::ops::Index") or c.endswith("get_mut") or "slice::index" in c:
                    kinds.add(("slice", bb, None))
                else:
                    kinds.add(("other:" + (c or d).rsplit("::", 1)[-1], bb, None))
    # one hop through a plain move
    for bb, i, s in b.assigns():
        if s["rv"]["k"] == "use" and not s["place"]["p"]:
            pl = s["rv"]["a"].get("mv") or s["rv"]["a"].get("cp")
            if pl is not None and pl["l"] == local and not pl["p"]:
                kinds |= _consumer(b, du, s["place"]["l"])
    return kinds


def _loop_has_input_exit(b, start_bb):
    """the innermost loop reached from start_bb: does it have more than one exit (an error / break exit besides exhaustion)"""
    loops = {}
    for t_, h in cfg.natural_loops(b):
        loops.setdefault(h, set()).update(cfg.loop_blocks(b, t_, h))
    cands = [(h, blks) for h, blks in loops.items() if cfg.reaches(b, start_bb, h)]
    if not cands:
        return None
    cands.sort(key=lambda hb: (len(cfg.path_between(b, start_bb, hb[0]) or [0] * 999), len(hb[1])))
    h, blks = cands[0]
    exits = {(x, s) for x in blks for s in b.succs()[x] if s not in blks and b.blocks[s].term["k"] != "unreachable"}
    return len(exits) > 1


def _copy_root(du, l, depth=0):
    """the variable a temporary is a plain copy of"""
    while depth < 8:
        ds = [d for d in du.defs.get(l, []) if d[0] == "assign"]
        if len(ds) != 1 or len(du.defs.get(l, [])) != 1:
            return l
        rv = ds[0][3]["rv"]
        if rv["k"] != "use":
            return l
        pl = rv["a"].get("cp") or rv["a"].get("mv")
        if pl is None or pl["p"]:
            return l
        l = pl["l"]
        depth += 1
    return l


def _taint(ctx):
    F = ctx.F
    bs = [b for b in F.all_bodies(bins=False) if b.path.startswith(MODS) and "tests::" not in b.path and not b.is_mock()]
    T = Taint(F, bs)
    ctx.note("taint: %d bodies, %d tainted returns, %d tainted fields" % (len(bs), len(T.ret), len(T.field)))
    ALLOC = ("with_capacity", "reserve", "reserve_exact", "from_elem", "resize", "with_capacity_in")
    found = 0
    seen = set()
    for b in bs:
        if b.kind == "Promoted":
            continue
        root = b.path.split("::{")[0]
        du = None
        for bb, t in b.calls():
            c = callee_of(t) or ""
            last = c.rsplit("::", 1)[-1]
            if last in ALLOC and any(T.tainted(b, a) for a in t["args"]):
                key = "alloc:%s:%s" % (last, root)
                if key in seen:
                    continue
                seen.add(key); found += 1
                ctx.analysed(b)
                if key in VETTED:
                    ctx.holds("C16.D3", key, site(b, bb), "vetted: " + VETTED[key])
                else:
                    ctx.violation("C16.D3", key, site(b, bb), "%s is sized by an integer parsed from client input with no upper bound: a small request can demand an arbitrarily large allocation (capacity overflow panic or allocation failure abort)" % c)
        # time arithmetic that panics on overflow: Instant / SystemTime +- Duration, Duration * n, with an operand that
        # is an integer parsed from the input (a timeout argument near u64::MAX)
        for bb, t in b.calls():
            d = callee_decl(t) or callee_of(t) or ""
            atys = t.get("atys") or []
            timey = any(("std::time::Instant" in ty or "std::time::SystemTime" in ty or "tokio::time::Instant" in ty) for ty in atys[:1]) and d.rsplit("::", 1)[-1] in ("add", "sub", "add_assign", "sub_assign")
            durmul = any("std::time::Duration" in ty for ty in atys[:1]) and d.rsplit("::", 1)[-1] in ("mul", "mul_assign", "add", "add_assign")
            if (timey or durmul) and any(T.tainted(b, a) for a in t["args"]):
                key = "time-arith:%s" % root
                if key in seen:
                    continue
                seen.add(key); found += 1
                ctx.analysed(b)
                ctx.violation("C16.D3", key, site(b, bb), "%s is applied to a duration derived from an integer parsed from client input with no upper bound: `Instant + Duration` / `Duration * n` panic on overflow (also in release builds), so an extreme timeout argument kills the session task" % d)
        # a signed integer parsed from the input is converted to usize only under a sign test (`len < 0` handled first):
        # `-2 as usize` is a length near 2^64 - overflowing index arithmetic, or a packet that never completes
        if b.path.startswith("protocol::"):
            from ..lib import branch_conditions as _bc
            dom_ = None
            for bb, i, s in b.assigns():
                rv = s["rv"]
                if rv["k"] != "cast" or not b.locals[s["place"]["l"]]["ty"] == "usize":
                    continue
                opl = rv["a"].get("cp") or rv["a"].get("mv")
                if opl is None or opl["p"] or b.locals[opl["l"]]["ty"] not in ("i64", "isize", "i32", "i128") or not T.tainted(b, rv["a"]):
                    continue
                du = du or DefUse(b)
                dom_ = dom_ or cfg.dominators(b)
                signed = False
                for d_, discr, val in _bc(b, bb, dom_):
                    dpl = discr.get("mv") or discr.get("cp")
                    for df in du.defs.get(dpl["l"], []) if dpl else []:
                        if df[0] == "assign" and df[3]["rv"]["k"] == "binop" and df[3]["rv"]["op"] in ("Lt", "Le", "Gt", "Ge"):
                            a_, b_ = df[3]["rv"]["a"], df[3]["rv"]["b"]
                            for x_, y_ in ((a_, b_), (b_, a_)):
                                xl = x_.get("cp") or x_.get("mv")
                                if xl is not None and _copy_root(du, xl["l"]) == _copy_root(du, opl["l"]) and "c" in y_ and y_["c"].get("int") in (0, -1, 1):
                                    signed = True
                    # the same test spelled as a method: `len.is_negative()` / `is_positive()` / `signum()`
                    for c_, bbs_ in du.slice_operand(discr, deep=False).calls.items():
                        if c_.rsplit("::", 1)[-1] in ("is_negative", "is_positive", "signum"):
                            for cb_ in bbs_:
                                ct_ = b.blocks[cb_].term
                                xl = (ct_["args"][0].get("cp") or ct_["args"][0].get("mv")) if ct_.get("args") else None
                                if xl is not None and _copy_root(du, xl["l"]) == _copy_root(du, opl["l"]):
                                    signed = True
                key = "signed-length-cast:%s" % root
                if key in seen:
                    continue
                seen.add(key)
                ctx.analysed(b)
                ctx.check(signed, "C16.D3", key, site(b, bb, i), ok="the parsed length is converted to usize only after its sign was tested",
                          bad="a signed length parsed from the input is cast to usize without a sign test on the way: a negative length other than the one compared for equality becomes a huge length (overflowing arithmetic, out-of-range index or a request that never completes)")
        for bb, i, s in b.assigns():
            rv = s["rv"]
            is_range = rv["k"] == "agg" and rv.get("ak") == "adt" and norm(rv["adt"]) in ("std::ops::Range", "std::ops::RangeInclusive")
            if not is_range or not any(T.tainted(b, o) for o in rv["ops"][1:2]):
                continue
            du = du or DefUse(b)
            _range_sink(ctx, T, b, du, bb, s["place"]["l"], root, seen)
        for bb, t in b.calls():
            if (callee_of(t) or "").endswith("RangeInclusive::new") and any(T.tainted(b, a) for a in t["args"][1:2]):
                du = du or DefUse(b)
                _range_sink(ctx, T, b, du, bb, t["dest"]["l"], root, seen)
    ctx.floor("C16.D3", "tainted allocation / iteration sinks examined", len(seen), 3)


def _range_sink(ctx, T, b, du, bb, local, root, seen):
    cons = _consumer(b, du, local)
    for kind, cb, dest in cons:
        if kind == "slice":
            continue
        if kind == "loop":
            has_exit = _loop_has_input_exit(b, cb)
            key = "range-loop:%s" % root
            if key in seen:
                continue
            seen.add(key)
            ctx.analysed(b)
            if key in VETTED and has_exit:
                ctx.holds("C16.D3", key, site(b, bb), "vetted: " + VETTED[key])
            elif key in VETTED and not has_exit:
                ctx.violation("C16.D3", key, site(b, bb), "vetted loop no longer has an input-exhaustion exit: its trip count is the parsed integer")
            else:
                ctx.violation("C16.D3", key, site(b, bb), "a loop runs from/to an integer parsed from input with %s: the trip count is chosen by the sender (up to 2^64 iterations)" % ("no exit besides exhaustion of the range" if not has_exit else "an unvetted exit"))
        elif kind == "iter" or kind.startswith("other"):
            key = "range-iter:%s" % root
            if key in seen:
                continue
            seen.add(key)
            ctx.analysed(b)
            if key in VETTED:
                ctx.holds("C16.D3", key, site(b, bb), "vetted: " + VETTED[key])
            else:
                ctx.violation("C16.D3", key, site(b, bb), "an iterator chain runs over a range bounded by an integer parsed from input (e.g. numkeys): it spins for as many steps as the sender says, whatever the request size")


def _division(ctx):
    F = ctx.F
    cg = CallGraph(F, bins=False)
    roots = [p for p in cg.bodies if p.startswith("proxy::session::") or p.startswith("<proxy::session::") or "CmdCtxHandler>::handle_cmd_ctx" in p or p.startswith("proxy::executor::")]
    reach = cg.reachable(roots)
    n = 0
    for p in sorted(reach):
        b = cg.bodies[p]
        if not p.startswith(("proxy::", "<proxy::", "common::", "<common::", "protocol::", "<protocol::", "migration::", "<migration::")):
            continue
        du = None
        for bb, t in b.iter_terms():
            if t["k"] != "assert" or not ("DivisionByZero" in t["msg"] or "RemainderByZero" in t["msg"]):
                continue
            # the divisor is the operand of the Eq(x, 0) feeding the assert
            du = du or DefUse(b)
            cpl = t["cond"].get("mv") or t["cond"].get("cp")
            div = None
            if cpl is not None:
                for d in du.defs.get(cpl["l"], []):
                    if d[0] == "assign" and d[3]["rv"]["k"] == "binop" and d[3]["rv"]["op"] == "Eq":
                        div = d[3]["rv"]["a"]
            if div is None:
                continue
            if "c" in div:
                continue   # constant divisor (non-zero or the compiler rejects it)
            sl = du.slice_operand(div)
            size_only = bool(sl.calls) and all(c.rsplit("::", 1)[-1] in ("len", "capacity", "count", "get", "max", "min", "unwrap_or", "deref", "as_slice") for c in sl.calls) and any(c.rsplit("::", 1)[-1] in ("len", "capacity", "count") for c in sl.calls) and not sl.has_call("std::cmp::max")
            if size_only:
                ctx.info("C16.D1", "divisor-not-client-settable:%s" % p.split("::{")[0], "divisor derives from %s (sizes fixed at construction), not from a value a client can set" % sorted(c.rsplit("::", 1)[-1] for c in sl.calls)[:3])
                continue
            n += 1
            ctx.analysed(b)
            consts = sl.const_ints()
            safe = (sl.has_call("std::cmp::max") and any(k >= 1 for k in consts)) or sl.has_call("NonZero::get") or sl.has_call("Vec::len") and False
            # a dominating non-zero test also counts
            dom = cfg.dominators(b)
            guarded = False
            for gb, gi, gs in binop_sites(b, ("Eq", "Ne", "Gt", "Lt", "Ge", "Le")):
                if gb != bb and gb in dom.get(bb, ()):
                    s1 = du.slice_operand(gs["rv"]["a"], deep=False); s2 = du.slice_operand(gs["rv"]["b"], deep=False)
                    dl = du.slice_operand(div, deep=False).locals
                    if (s1.locals & dl or s2.locals & dl):
                        guarded = True
            key = "divisor:%s:%s" % (p.split("::{")[0], "+".join(sorted(c.rsplit("::", 1)[-1] for c in sl.calls)[:3]) or "local")
            ctx.check(safe or guarded, "C16.D1", key, site(b, bb), ok="divisor is clamped / guarded non-zero", bad="division or remainder by a value that can be zero (origin %s): a client that can set it to 0 makes every later request panic" % sl.summary())
    ctx.floor("C16.D1", "non-constant divisors reachable from the session", n, 1)


def _client_reach(F):
    cg = CallGraph(F, bins=False)
    roots = [p for p in cg.bodies if p.startswith("proxy::session::") or p.startswith("<proxy::session::") or "CmdCtxHandler>::handle_cmd_ctx" in p or p.startswith("proxy::executor::")
             or p.startswith("protocol::stateless::parse") or "Decoder>::decode" in p]
    return cg, roots, cg.reachable(roots)


def _root_fn(p):
    return p.split("::{closure")[0]


def _panic_sites(ctx):
    """inventory of explicit panic-capable constructs on the client path"""
    F = ctx.F
    cg, roots, reach = _client_reach(F)
    if not ctx.floor("C16.D4", "client entry points", len(roots), 60):
        return
    ctx.floor("C16.D4", "functions reachable from a client connection", len(reach), 600)
    found = {}
    nsites = 0
    for p in sorted(reach):
        b = cg.bodies[p]
        if "tests::" in p or b.is_mock() or b.kind == "Promoted":
            continue
        du = None
        for bb, t in b.iter_terms():
            kind = None
            detail = ""
            if t["k"] == "assert" and "BoundsCheck" in t["msg"]:
                kind = "index"
                detail = t["msg"][:80]
            elif t["k"] == "call":
                c = callee_decl(t) or callee_of(t) or ""
                last = c.rsplit("::", 1)[-1]
                a0 = (t.get("atys") or [""])[0].lstrip("&").replace("mut ", "").strip()
                if c.startswith(("std::option::Option", "std::result::Result")) and last in ("unwrap", "expect", "unwrap_err", "expect_err"):
                    kind = "expect"
                elif last in ("begin_panic", "panic_fmt", "panic", "panic_display", "panic_explicit", "panic_str", "unreachable_display", "assert_failed", "panic_nounwind") and (c.startswith("std::rt::") or c.startswith("core::panicking") or c.startswith("std::panicking")):
                    mac = t.get("mac") or ""
                    kind = "select-panic" if ("panic_2015" in mac or "panic_2021" in mac) and _in_select(b) else "panic"
                elif last in ("index", "index_mut") and ("ops::Index" in c or "ops::index::Index" in c):
                    kind = "index"
                    detail = c
                else:
                    for pref, names in ARG_CHECKED.items():
                        if last in names and a0.startswith(pref) and c.startswith(("std::", "core::", "alloc::")):
                            kind = "%s::%s" % (pref.rsplit("::", 1)[-1] if pref != "[" else "slice", last)
                            break
            if kind is None:
                continue
            nsites += 1
            ctx.analysed(b)
            root = _root_fn(p)
            # structural discharges
            if kind.endswith("::drain") and any("RangeFull" in x for x in (t.get("atys") or [])):
                ctx.holds("C16.D4", "discharged:%s:%s#%d" % (kind, root, bb), site(b, bb), "drain(..) over the full range cannot be out of bounds")
                continue
            if kind.endswith("::drain") or kind in ("String::truncate", "Vec::split_off", "String::split_off"):
                du = du or DefUse(b)
                arg = t["args"][1] if len(t["args"]) > 1 else None
                sl = du.slice_operand(arg) if arg is not None else None
                if kind == "String::truncate" and sl is not None and (sl.has_call("is_char_boundary") or sl.has_call("floor_char_boundary") or sl.has_call("char_indices")):
                    ctx.holds("C16.D4", "discharged:%s:%s" % (kind, root), site(b, bb), "the new length is chosen on a char boundary")
                    continue
                if kind != "String::truncate" and sl is not None and sl.has_call("std::cmp::min") and (sl.has_call("len")):
                    ctx.holds("C16.D4", "discharged:%s:%s" % (kind, root), site(b, bb), "the bound is clamped with min(.., len())")
                    continue
            found.setdefault((kind, root), []).append((b, bb, detail))
    ctx.floor("C16.D4", "panic-capable sites examined", nsites, 20)
    for (kind, root), sites_ in sorted(found.items()):
        v = VETTED_PANIC.get((kind, root)) or (VETTED_PANIC.get((kind, "*")) if kind == "select-panic" else None)
        b, bb, detail = sites_[0]
        if kind == "select-panic":
            continue
        if v is not None and len(sites_) <= v[0]:
            ctx.holds("C16.D4", "vetted:%s:%s" % (kind, root), site(b, bb), "%d site(s): %s" % (len(sites_), v[1]))
        else:
            extra = sites_[v[0]:] if v is not None else sites_
            eb, ebb, edet = extra[0]
            ctx.violation("C16.D4", "panic-site:%s:%s" % (kind, root), site(eb, ebb),
                          "%s reachable from a client connection (%s) is neither discharged by a structural argument nor in the vetted table%s: if its operand depends on client bytes the session task panics" % (
                              kind, " -> ".join((cg.path(_nearest_root(cg, roots, eb.path), eb.path) or [eb.path])[-4:]), (" [" + edet + "]") if edet else ""))
    nsel = sum(len(v) for (k, r), v in found.items() if k == "select-panic")
    ctx.check(nsel <= VETTED_PANIC[("select-panic", "*")][0], "C16.D4", "select-panics", None, ok="%d macro-generated select! panics (all-branches-disabled case)" % nsel, bad="%d select!-style panics, more than the vetted %d" % (nsel, VETTED_PANIC[("select-panic", "*")][0]))
    # premise of the vetted String::truncate in gen_node_id: cluster names are ASCII.  The name decoder must test characters
    # with the ASCII classes of std; the Unicode classes (is_alphanumeric ..) admit multi-byte characters and the
    # truncation at a fixed byte offset then panics on CLUSTER NODES / SLOTS
    tb = [x for x in F.all_bodies(bins=False) if x.crate == "undermoon" and not x.is_mock() and x.path.startswith("<common::cluster::ClusterName as std::convert::TryFrom")]
    if not tb:
        ctx.lost("C16.D4", "cluster-name-ascii", "ClusterName::try_from not found")
    else:
        classes = [(callee_of(t) or callee_decl(t) or "") for x in tb for bb, t in x.calls()]
        uni = [c for c in classes if c.rsplit("::", 1)[-1] in ("is_alphanumeric", "is_alphabetic", "is_numeric", "is_lowercase", "is_uppercase") and "char" in c]
        asc = [c for c in classes if c.rsplit("::", 1)[-1].startswith("is_ascii")]
        ctx.check(bool(asc) and not uni, "C16.D4", "cluster-name-ascii", site(tb[0]), ok="ClusterName::try_from admits ASCII classes only (premise of the vetted truncate in gen_node_id)",
                  bad="ClusterName::try_from tests characters with %s: non-ASCII names are admitted, and gen_node_id truncates the padded name at a fixed byte offset, which panics inside a multi-byte character" % (uni or "no ASCII class"))
    # the vetted expect in get_hash_tag is discharged by evaluation: on every sample key the function returns a slice
    hb = F.one("common::utils::get_hash_tag")
    if hb is None:
        ctx.lost("C16.D4", "get_hash_tag-total", "get_hash_tag not found")
    else:
        from .C09 import hash_tag_eval
        bad_, undec, nkeys = hash_tag_eval(F, hb)
        ctx.paths += nkeys
        ctx.check(not undec, "C16.D4", "get_hash_tag-total", site(hb), ok="get_hash_tag returns a sub-slice for each of the %d sample keys over {a,{,}}" % nkeys,
                  bad="get_hash_tag does not return for %d of %d sample keys (first: %r): the key is hashed for every command in Command::new, so a client that sends such a key makes the session task panic" % (len(undec), nkeys, undec[0] if undec else None))
    # the slowlog event array is indexed by TaskEvent discriminants
    ev = F.adt("proxy::slowlog::TaskEvent")
    em = F.adt("proxy::slowlog::RequestEventMap")
    f = em.field("events") if em is not None else None
    if ev is None or f is None:
        ctx.lost("C16.D4", "event-array", "TaskEvent / RequestEventMap.events not found")
    else:
        import re
        mm = re.search(r";\s*(\w+)\]", f["ty"])
        n = None
        if mm and mm.group(1).isdigit():
            n = int(mm.group(1))
        elif mm:
            n = _const_item_int(F, "proxy::slowlog::" + mm.group(1))
        maxd = max(v["discr"] for v in ev.variants)
        ctx.check(n is not None and maxd < n, "C16.D4", "event-array", "%s:%s" % (em.file, em.line), ok="events has %s slots, TaskEvent discriminants go up to %d" % (n, maxd),
                  bad="RequestEventMap.events has %s slots but TaskEvent has a discriminant %d: logging that event panics on every request" % (n, maxd))


def _in_select(b):
    # select! expansions poll through a closure created by the macro; the panic is the `all branches disabled` arm
    return True


def _nearest_root(cg, roots, target):
    for r in sorted(roots):
        if cg.path(r, target):
            return r
    return target


def _const_item_int(F, path):
    b = F.bodies.get(path)
    if b is None:
        return None
    for bb, i, st in b.assigns():
        if st["place"]["l"] == 0 and not st["place"]["p"] and st["rv"]["k"] == "use" and "c" in st["rv"]["a"]:
            return const_int(st["rv"]["a"]["c"])
    return None


def _blocking_arity(ctx):
    """handle_blocking_commands turns the keys of a blocking command into non-blocking sub-commands and polls them in a
    retry loop whose exits (data found / timeout) sit inside the per-key loop: with zero keys the loop has no exit.  The
    only thing that prevents this is the arity guard; it is evaluated on concrete lengths against the Redis arity table."""
    from ..sccp import Interp, Oracle, Int, Some, Agg
    from ..tables.redis_commands import BLOCKING_ARITY
    F = ctx.F
    b = F.one("ForwardHandler::get_command_arg_len")
    adt = F.adt("proxy::command::DataCmdType")
    if b is None or adt is None:
        ctx.lost("C16.D5", "get_command_arg_len", "arity guard of the blocking commands not found")
        return
    ctx.analysed(b)
    gl = [(bb, t) for bb, t in b.calls() if (callee_of(t) or "").endswith("get_command_len")]
    if not ctx.floor("C16.D5", "get_command_len in the arity guard", len(gl), 1):
        return
    names = {v["name"]: i for i, v in enumerate(adt.variants)}
    users = [x for x in F.all_bodies(bins=False) if calls_to(x, "get_command_arg_len") and not x.is_mock()]
    ctx.check(any("handle_blocking_commands" in x.path for x in users), "C16.D5", "guard-used", site(b), ok="handle_blocking_commands consults the guard", bad="handle_blocking_commands does not consult the arity guard")
    for nm, ar in sorted(BLOCKING_ARITY.items()):
        if nm not in names:
            ctx.lost("C16.D5", "arity:%s" % nm, "variant %s not found" % nm)
            continue
        for ln in range(0, 8):
            def call(interp, bbx, term, argvals, ln=ln):
                for _, g in gl:
                    if g is term:
                        return Some(Int(ln))
                return None
            try:
                rv = Interp(F, b, Oracle(args={2: Agg(adt.path, names[nm], ())}, call=call)).run().return_value()
            except Exception:
                rv = None
            want = (ln >= -ar) if ar < 0 else (ln == ar)
            got = None if not (rv and rv[0] == "agg") else (rv[2] == 0)
            ctx.check(got == want, "C16.D5", "arity:%s:len=%d" % (nm, ln), site(b), ok="accepted" if want else "refused",
                      bad="%s with %d array elements is %s (Redis arity %d): %s" % (nm.upper(), ln, "accepted" if got else "refused" if got is not None else "undecided", ar,
                          "with no key the retry loop of handle_blocking_commands never terminates and the connection is wedged" if got and not want else "a valid command is refused"))
