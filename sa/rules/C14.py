"""C14 - CLUSTER NODES / SLOTS advertise each slot once and agree with routing (DESIGN §5 C14)."""
from ..facts import norm, callee_of, callee_decl, place_fields
from ..defuse import DefUse
from ..sccp import Interp, Oracle, Int, Bool, Agg, TOP, Some, NONE
from .. import cfg
from ..lib import m, calls_to, site
from . import _migtables

EXPLANATION = (
    "should_ignore_slots is tabulated over 3 tags x 7 state lookups (absent + 6 states) by conditional constant propagation: untagged ranges "
    "are never hidden and ignore(Migrating, v) = not ignore(Importing, v) for every v, so a range present as Migrating on one node and as "
    "Importing on another is advertised exactly once when both are judged with the same lookup. The table is compared with the phase routing "
    "tables of the migrating / importing tasks (same technique): the importing side serves locally exactly in the states where its range is "
    "advertised at itself; the migrating side redirects only in states where its range is hidden. Both generators (NODES and SLOTS), for the "
    "local and the remote half, call should_ignore_slots for every range before emitting it, and receive the same migration-state map that "
    "MetaManager reads from the live migration map."
)
ASSUMPTIONS = ["twin ranges carry equal range lists (C01.D2), so both sides look up the same key", "uniqueness for arbitrary overlapping hand-built layouts is not decided"]
TRUSTED = []

TAG = "common::cluster::SlotRangeTag"

MUTANTS = [
    {"name": "peer-migrating-ranges-dropped", "edits": [{"file": "src/proxy/cluster.rs", "old": "        slot_map: HashMap<String, Vec<SlotRange>>,\n        active_redirection: bool,\n    ) -> Self {\n        let remote_backend = if active_redirection {\n            Some(SenderMap::from_slot_map(sender_factory, &slot_map))\n        } else {\n", "new": "        slot_map: HashMap<String, Vec<SlotRange>>,\n        active_redirection: bool,\n    ) -> Self {\n        // A peer that is the source of a migration still carries the `migrating` ranges\n        // while the destination peer carries the same slots as `importing` ranges.\n        // Other nodes can't see the migration state so for them the importing node\n        // always owns these slots (see `should_ignore_slots`).\n        // Drop the migrating ranges of the peers so that the same slots are not\n        // present twice and the redirection table does not depend on the map order.\n        let slot_map: HashMap<String, Vec<SlotRange>> = slot_map\n            .into_iter()\n            .map(|(addr, ranges)| {\n                let ranges = ranges\n                    .into_iter()\n                    .filter(|slot_range| !slot_range.tag.is_migrating())\n                    .collect();\n                (addr, ranges)\n            })\n            .collect();\n\n        let remote_backend = if active_redirection {\n            Some(SenderMap::from_slot_map(sender_factory, &slot_map))\n        } else {\n"}], "expect": "C14.D3:peer-ranges-lossless"},
    {"name": "slots-reply-spans-first-to-last", "file": "src/proxy/cluster.rs", "old": "            for range in slot_range.get_range_list().get_ranges().iter() {\n", "new": "            for range in slot_range.get_range_list().get_ranges().first().into_iter() {\n", "expect": "C14.D3:range-list-walked"},
    {"name": "migrating-arm-eq", "file": "src/proxy/cluster.rs", "old": "migration_states.get(range.get_range_list()).cloned() != Some(MigrationState::PreCheck)", "new": "migration_states.get(range.get_range_list()).cloned() == Some(MigrationState::PreCheck)", "expect": "C14.D1"},
    {"name": "importing-arm-preswitch", "file": "src/proxy/cluster.rs", "old": "migration_states.get(range.get_range_list()).cloned() == Some(MigrationState::PreCheck)", "new": "migration_states.get(range.get_range_list()).cloned() == Some(MigrationState::PreSwitch)", "expect": "C14.D1"},
    {"name": "nodes-helper-no-filter", "file": "src/proxy/cluster.rs", "old": "                if should_ignore_slots(slot_range, migration_states) {\n                    return None;\n                }\n", "new": "", "expect": "C14.D3"},
    {"name": "slots-remote-empty-states", "file": "src/proxy/cluster.rs", "old": "            .gen_remote_cluster_slots(migration_states)?;", "new": "            .gen_remote_cluster_slots(&HashMap::new())?;", "expect": "C14.D3:states-passed"},
    {"name": "importing-serves-in-precheck", "file": "src/migration/scan_task.rs", "old": "        if self.state.get_state() == MigrationState::PreCheck {\n            return handle_redirection(\n                cmd_task,\n                self.meta.src_proxy_address.clone(),", "new": "        if self.state.get_state() == MigrationState::FinalSwitch {\n            return handle_redirection(\n                cmd_task,\n                self.meta.src_proxy_address.clone(),", "expect": "C14.D2"},
    {"name": "routing-table-skips-migrating-ranges", "file": "src/proxy/slot.rs", "old": "            for slot_range in slot_ranges {\n                for range in", "new": "            for slot_range in slot_ranges {\n                if slot_range.tag.is_migrating() {\n                    continue;\n                }\n                for range in", "expect": "C14.D2:slot-map"},
    {"name": "local-ranges-collected-under-one-key", "file": "src/proxy/cluster.rs", "after": "fn gen_local_cluster_nodes(", "old": "        let slots: Vec<SlotRange> = self\n            .slot_ranges\n            .values()\n            .flatten()\n            .cloned()\n            .collect::<Vec<SlotRange>>();\n        let mut slot_ranges = HashMap::new();\n        slot_ranges.insert(service_address, slots);", "new": "        let slot_ranges: HashMap<String, Vec<SlotRange>> = self\n            .slot_ranges\n            .values()\n            .map(|slots| (service_address.clone(), slots.clone()))\n            .collect();", "expect": "C14.D3:ranges-lossless"},
]


def ignore_table(ctx, rule):
    F = ctx.F
    b = F.one("proxy::cluster::should_ignore_slots")
    if b is None:
        ctx.lost(rule, "should_ignore_slots", "function not found")
        return None
    ctx.analysed(b)
    tag = F.adt(TAG)
    st = _migtables.find_state_adt(F)
    if tag is None or st is None:
        ctx.lost(rule, "SlotRangeTag/MigrationState", "enum not found")
        return None
    lookups = [(bb, t) for bb, t in b.calls() if (callee_of(t) or "").endswith("Option::cloned") or (callee_of(t) or "").endswith("Option::copied")]
    gets = calls_to(b, "HashMap::get")
    if not ctx.floor(rule, "state lookups in should_ignore_slots", len(lookups), 2):
        return None
    du = DefUse(b)
    for bb, t in gets:
        s0 = du.slice_operand(t["args"][0]); s1 = du.slice_operand(t["args"][1])
        ctx.check(s0.has_param(2) and s1.has_call("get_range_list") and s1.has_param(1), rule, "lookup-key", site(b, bb), ok="state looked up by the range's own range list", bad="migration state is not looked up by range.get_range_list() in migration_states")
    table = {}
    for ti, tv in enumerate(tag.variants):
        for k in [None] + list(range(len(st.variants))):
            def call(interp, bbx, term, argvals, k=k):
                for lb, lt in lookups:
                    if lt is term:
                        return NONE if k is None else Some(Agg(st.path, k, ()))
                return None

            def read(interp, bbx, place, val, ti=ti):
                fs = place_fields(place)
                if fs and fs[-1][1] == "tag" and norm(fs[-1][0]).endswith("SlotRange"):
                    return Agg(TAG, ti, tuple([TOP] * len(tv["fields"])))
                return None
            rv = Interp(F, b, Oracle(call=call, read=read)).run().return_value()
            table[(tv["name"], None if k is None else st.variants[k]["name"])] = rv[1] if rv is not None and rv[0] == "int" else None
    return {"table": table, "tags": tag.variant_names(), "states": st.variant_names(), "body": b}


def run(ctx):
    F = ctx.F
    ctx.rule("C14.D1", "ignore table: untagged never hidden; ignore(Migrating,v) = not ignore(Importing,v) for absent + 6 states", exhaustive=True)
    ctx.rule("C14.D2", "advertisement agrees with the routing tables of the importing / migrating tasks per state", exhaustive=True)
    ctx.rule("C14.D3", "NODES and SLOTS generators, local and remote halves: every range filtered by should_ignore_slots; the live migration-state map is passed to all four")
    it = ignore_table(ctx, "C14.D1")
    if it is not None:
        tb = it["table"]
        b = it["body"]
        lookups = [None] + it["states"]
        for v in lookups:
            vn = v or "absent"
            a, i_, n = tb.get(("Migrating", v)), tb.get(("Importing", v)), tb.get(("None", v))
            if a is None or i_ is None or n is None:
                ctx.lost("C14.D1", "table:%s" % vn, "value not constant: %s %s %s" % (a, i_, n))
                continue
            ctx.check(n == 0, "C14.D1", "untagged-advertised:%s" % vn, site(b), ok="stable range always advertised", bad="an untagged range is hidden when the lookup is %s" % vn)
            ctx.check(a == 1 - i_, "C14.D1", "complement:%s" % vn, site(b), ok="Migrating hidden=%d, Importing hidden=%d" % (a, i_),
                      bad="with lookup %s the range is %s" % (vn, "hidden on both sides (advertised nowhere)" if a and i_ else "advertised on both sides (twice)"))
        # bystanders (no local task state) advertise at the destination: documented behaviour
        ctx.check(tb.get(("Migrating", None)) == 1 and tb.get(("Importing", None)) == 0, "C14.D1", "bystander-at-destination", site(b),
                  ok="a proxy without task state advertises the range at the importing node", bad="bystander advertisement changed: Migrating hidden=%s Importing hidden=%s" % (tb.get(("Migrating", None)), tb.get(("Importing", None))))
        st = _migtables.send_tables(ctx, "C14.D2")
        if st is not None:
            for s in it["states"]:
                imp = st["importing"].get(s)
                mig = st["migrating"].get(s)
                adv_imp = tb.get(("Importing", s)) == 0
                adv_mig = tb.get(("Migrating", s)) == 0
                ctx.check((imp == "serve") == adv_imp, "C14.D2", "importing:%s" % s, site(st["bodies"]["importing"]),
                          ok="importing side %s and %s the range" % (imp, "advertises" if adv_imp else "hides"),
                          bad="in state %s the importing proxy %s commands but %s the range as its own" % (s, imp, "advertises" if adv_imp else "does not advertise"))
                # migrating side: redirecting implies hidden; serving locally before the switch (queued in PreBlocking/PreSwitch) may already be hidden
                ok_m = (mig == "local" and (adv_mig or s in ("PreBlocking", "PreSwitch"))) or (mig == "redirect-dst" and not adv_mig)
                ctx.check(ok_m, "C14.D2", "migrating:%s" % s, site(st["bodies"]["migrating"]),
                          ok="migrating side %s; range %s" % (mig, "advertised" if adv_mig else "hidden"),
                          bad="in state %s the migrating proxy routes `%s` while the range is %s at it" % (s, mig, "advertised" if adv_mig else "hidden"))
            ctx.check(st["migrating"].get("PreCheck") == "local" and st["importing"].get("PreCheck") == "redirect-src", "C14.D2", "before-handshake-at-source", None,
                      ok="before the handshake: served at the source, destination redirects to the source", bad="PreCheck routing: migrating=%s importing=%s" % (st["migrating"].get("PreCheck"), st["importing"].get("PreCheck")))
    _fast_path_flag(ctx)
    # the routing table the advertisement is compared with covers every range the metadata gives this proxy
    from .C02 import _slot_map
    from .C09 import slot_table_boundary
    _slot_map(ctx, "C14.D2")
    slot_table_boundary(ctx, "C14.D2")
    # what a proxy can advertise for its peers is what the broker view and the coordinator hand it: shared with C02
    from ..engine import AliasCtx
    from . import C02 as _c02
    ctx.rule("C14.D4", "shared with C02: the peer part of the metadata reaches the proxy complete (one entry per peer proxy with all its masters' slots, no element-dropping step in the broker view or the coordinator's maps)")
    _c02.run(AliasCtx(ctx, "C14.D4", only={"C02.D1"}))
    _generators(ctx)


def _fast_path_flag(ctx):
    """MigrationMap.empty short-circuits routing (send) but not advertisement (get_states reads task_map): the flag must
    mirror the emptiness of exactly the map stored next to it"""
    F = ctx.F
    from ..lib import agg_sites
    n = 0
    for b in F.all_bodies(bins=False):
        if b.kind == "Promoted" or b.is_mock() or not b.path.startswith("migration::manager"):
            continue
        sites = agg_sites(b, "migration::manager::MigrationMap")
        if not sites:
            continue
        ctx.analysed(b)
        du = DefUse(b)
        for bb, i, s in sites:
            rv = s["rv"]
            if "empty" not in rv["fields"] or "task_map" not in rv["fields"]:
                continue
            n += 1
            e = rv["ops"][rv["fields"].index("empty")]
            tm = rv["ops"][rv["fields"].index("task_map")]
            name = b.path.rsplit("::", 1)[-1]
            if "c" in e:
                sl = du.slice_operand(tm)
                good = e["c"].get("int") == 1 and (sl.has_call("HashMap::new") or sl.has_call("default")) and not sl.has_call("HashMap::insert")
                ctx.check(good, "C14.D2", "fast-path-flag:%s" % name, site(b, bb, i), ok="empty = true with a freshly created task map", bad="constant `empty` flag next to a task map that is not freshly created")
                continue
            se = du.slice_operand(e)
            ok_call = se.has_call("HashMap::is_empty")
            st = du.slice_operand(tm, deep=False)
            roots_tm = {l for l in st.locals if b.local_name(l)}
            recv_roots = set()
            for cb, t in calls_to(b, "HashMap::is_empty"):
                if cb in se.calls.get("std::collections::HashMap::is_empty", set()):
                    recv_roots |= {l for l in du.slice_operand(t["args"][0], deep=False).locals if b.local_name(l)}
            ctx.check(ok_call and bool(roots_tm & recv_roots), "C14.D2", "fast-path-flag:%s" % name, site(b, bb, i),
                      ok="empty = task_map.is_empty() of the stored map (%s)" % sorted(b.local_name(l) for l in roots_tm & recv_roots),
                      bad="MigrationMap.empty is computed from %s but the stored task map is %s: routing skips migrations that are still advertised" % (
                          sorted(b.local_name(l) for l in recv_roots) or "something else", sorted(b.local_name(l) for l in roots_tm)))
    ctx.floor("C14.D2", "MigrationMap constructions", n, 2)


def _generators(ctx):
    F = ctx.F
    # helpers filter every range
    for hn in ("gen_cluster_nodes_helper", "gen_cluster_slots_helper"):
        fam = [b for b in F.all_bodies(bins=False) if b.path == "proxy::cluster::" + hn or b.path.startswith("proxy::cluster::%s::{" % hn)]
        if not fam:
            ctx.lost("C14.D3", hn, "helper not found")
            continue
        ctx.analysed(*fam)
        sites = [(b, bb, t) for b in fam for bb, t in calls_to(b, "should_ignore_slots")]
        if not sites:
            ctx.violation("C14.D3", "filter-call:%s" % hn, site(fam[0]), "%s emits ranges without consulting should_ignore_slots" % hn)
            continue
        for b, bb, t in sites:
            du = DefUse(b)
            s1 = du.slice_operand(t["args"][1])
            root = F.body("proxy::cluster::" + hn)
            from ..lib import capture_types
            rp = _states_param(root) if root is not None else None
            cap_ok = any("MigrationState" in ty and "RangeList" in ty for ty in capture_types(F, b, s1.captures).values())
            ok_states = (rp is not None and s1.has_param(rp) and b is root) or cap_ok or (b is not root and any("MigrationState" in b.locals[l]["ty"] and "RangeList" in b.locals[l]["ty"] for l, _ in s1.params))
            ctx.check(ok_states, "C14.D3", "filter-states:%s" % hn, site(b, bb), ok="filter uses the helper's migration_states argument", bad="should_ignore_slots is not given the helper's migration_states")
            # when the filter says ignore, nothing derived from the range is emitted
            for ign in (1, 0):
                def call(interp, bbx, term, argvals, ign=ign):
                    if term is t:
                        return Bool(ign)
                    return None
                res = Interp(F, b, Oracle(call=call)).run()
                seen = set(); stack = [x for x in b.succs()[bb] if (bb, x) in res.exec_edges]
                while stack:
                    x = stack.pop()
                    if x in seen or x == bb:
                        continue
                    seen.add(x)
                    stack.extend(y for y in b.succs()[x] if (x, y) in res.exec_edges)
                roots = {l for l in du.slice_operand(t["args"][0], deep=False).locals if (1 <= l <= b.argc) or b.local_name(l)}
                uses = []
                for x in seen:
                    tt = b.blocks[x].term
                    if tt["k"] == "call" and tt is not t:
                        for a in tt["args"]:
                            sl = du.slice_operand(a, deep=False)
                            if roots & sl.locals and (callee_of(tt) or "").rsplit("::", 1)[-1] not in ("next", "into_iter"):
                                uses.append(x)
                if ign:
                    # uses before the next loop iteration only: stop at loop head = blocks that dominate the site
                    dom = cfg.dominators(b)
                    uses = [x for x in uses if x not in dom.get(bb, ())]
                    ctx.check(not uses, "C14.D3", "ignored-range-not-emitted:%s" % hn, site(b, bb), ok="an ignored range is skipped", bad="a range judged `ignore` is still used at bb%s" % uses)
                else:
                    ctx.check(bool(uses), "C14.D3", "kept-range-emitted:%s" % hn, site(b, bb), ok="a kept range is emitted", bad="a kept range is never used")
    # the halves hand every stored range to the helpers: no element-dropping operation between self.slot_ranges / the
    # remote map and the helper's argument (two local masters behind one proxy must both be listed)
    from ..lib import lossy_ops
    nh = 0
    for b in F.all_bodies(bins=False):
        if b.is_mock() or b.kind == "Promoted" or not b.path.startswith("proxy::cluster::") or "tests::" in b.path:
            continue
        for bb, t in calls_to(b, "gen_cluster_nodes_helper", "gen_cluster_slots_helper"):
            du = DefUse(b)
            for a, ty in zip(t["args"], t.get("atys", [])):
                if "SlotRange" not in ty:
                    continue
                nh += 1
                lo = lossy_ops(b, du.slice_operand(a))
                ctx.check(not lo, "C14.D3", "ranges-lossless:%s" % b.path.rsplit("::", 1)[-1], site(b, lo[0][1]) if lo and lo[0][1] is not None else site(b, bb), ok="all stored ranges reach the generator",
                          bad="the ranges handed to the generator pass through %s, which can drop entries (several local nodes collected under one key keep only one node's ranges): covered slots are missing from CLUSTER NODES / SLOTS" % [x[0] for x in lo])
    ctx.floor("C14.D3", "generator helper calls with a range argument", nh, 4)
    # inside the helpers every range of a range list is emitted: the list is walked, never sampled (a fragmented list
    # `2 0-4000 8001-12000` must not be advertised as 0-12000)
    PICK = ("first", "last", "get", "nth", "split_first", "split_last", "first_mut", "last_mut", "get_unchecked")
    nwalk = 0
    for b in F.all_bodies(bins=False):
        if b.is_mock() or b.kind == "Promoted" or "tests::" in b.path or not (b.path.startswith("proxy::cluster::gen_cluster_slots_helper") or b.path.startswith("proxy::cluster::gen_cluster_nodes_helper")):
            continue
        du = DefUse(b)
        du.follow_accessors = True
        for bb, t in b.calls():
            if not t["args"]:
                continue
            last = (callee_of(t) or callee_decl(t) or "").rsplit("::", 1)[-1]
            sl = du.slice_operand(t["args"][0], deep=False)
            if not sl.has_call("get_ranges"):
                continue
            if last in ("iter", "into_iter"):
                nwalk += 1
            if last in PICK:
                ctx.violation("C14.D3", "range-list-walked:%s" % b.path.split("::{")[0].rsplit("::", 1)[-1], site(b, bb),
                              "the generator takes `%s` of a range list instead of walking it: a list with more than one range is advertised as one span (or only in part), so slots in the holes are listed under two nodes / not at all" % last)
    if ctx.floor("C14.D3", "range lists walked in the generator helpers", nwalk, 1):
        ctx.holds("C14.D3", "range-list-walked", None, "range lists are iterated (%d walks), no element picker on them" % nwalk)
    # the remote half keeps every peer range it was given: the parameter reaches the routing table and the stored
    # advertisement map without an element-dropping step (the destination relies on the peer's migrating range while
    # its own importing range is hidden)
    for b in F.all_bodies(bins=False):
        if b.is_mock() or b.kind == "Promoted" or "tests::" in b.path or not b.path.startswith("proxy::cluster::RemoteCluster") or not b.path.endswith("::from_slot_map"):
            continue
        ctx.analysed(b)
        du = DefUse(b)
        los = []
        nuse = 0
        for bb, t in b.calls():
            for a, ty in zip(t["args"], t.get("atys", [])):
                if "HashMap<std::string::String, std::vec::Vec<common::cluster::SlotRange>>" in ty.replace("std::collections::hash_map::", "std::collections::").replace("std::collections::HashMap", "HashMap"):
                    nuse += 1
                    los += lossy_ops(b, du.slice_operand(a))
        for bb, i, st in b.assigns():
            if st["rv"]["k"] == "agg" and st["rv"].get("ak") == "adt" and "RemoteCluster" in norm(st["rv"]["adt"]):
                for o in st["rv"]["ops"]:
                    los += lossy_ops(b, du.slice_operand(o))
                nuse += 1
        if ctx.floor("C14.D3", "uses of the peer range map in RemoteCluster::from_slot_map", nuse, 2):
            ctx.check(not los, "C14.D3", "peer-ranges-lossless:from_slot_map", site(b, los[0][1]) if los and los[0][1] is not None else site(b), ok="every peer range reaches the routing table and the advertisement map",
                      bad="the peer ranges pass through %s before the remote tables are built: ranges can be dropped (e.g. the peer's migrating range, which is the only advertisement of those slots while the destination still hides its importing range)" % sorted({x[0] for x in los}))
    # the four halves get the caller's migration_states
    for fn, callees in (("ClusterBackendMap::gen_cluster_nodes", ("gen_local_cluster_nodes", "gen_remote_cluster_nodes")), ("ClusterBackendMap::gen_cluster_slots", ("gen_local_cluster_slots", "gen_remote_cluster_slots"))):
        b = F.one(fn)
        if b is None:
            ctx.lost("C14.D3", fn, "not found")
            continue
        ctx.analysed(b)
        du = DefUse(b)
        ms = _states_param(b)
        for cn in callees:
            cs = calls_to(b, cn)
            if not cs:
                ctx.violation("C14.D3", "states-passed:%s" % cn, site(b), "%s does not call %s" % (fn, cn))
                continue
            for bb, t in cs:
                good = any(du.slice_operand(a, deep=False).has_param(ms) for a in t["args"][1:]) if ms else False
                ctx.check(good, "C14.D3", "states-passed:%s" % cn, site(b, bb), ok="receives the caller's migration_states", bad="%s is not given the caller's migration_states (e.g. an empty map): local and remote halves disagree" % cn)
    for half in ("LocalCluster::gen_local_cluster_nodes", "LocalCluster::gen_local_cluster_slots", "RemoteCluster::gen_remote_cluster_nodes", "RemoteCluster::gen_remote_cluster_slots"):
        b = F.one(half)
        if b is None:
            ctx.lost("C14.D3", half, "not found")
            continue
        ctx.analysed(b)
        du = DefUse(b)
        ms = _states_param(b)
        hs = calls_to(b, "gen_cluster_nodes_helper", "gen_cluster_slots_helper")
        ctx.check(bool(hs) and all(any(du.slice_operand(a, deep=False).has_param(ms) for a in t["args"]) for bb, t in hs), "C14.D3", "half-passes-states:%s" % half.split("::")[-1], site(b),
                  ok="passes migration_states to the helper", bad="%s does not pass its migration_states to the helper" % half)
    for fn in ("MetaManager::gen_cluster_nodes", "MetaManager::gen_cluster_slots"):
        b = F.one(fn)
        if b is None:
            ctx.lost("C14.D3", fn, "not found")
            continue
        ctx.analysed(b)
        du = DefUse(b)
        cs = calls_to(b, "ClusterBackendMap::gen_cluster_nodes", "ClusterBackendMap::gen_cluster_slots")
        good = bool(cs) and all(any(du.slice_operand(a).has_call("get_states") for a in t["args"][1:]) for bb, t in cs)
        ctx.check(good, "C14.D3", "live-states:%s" % fn.split("::")[-1], site(b), ok="uses migration_map.get_states() of the installed snapshot", bad="%s does not feed the generators with migration_map.get_states()" % fn)
        both = bool(cs) and all(du.slice_operand(t["args"][0]).has_call("ArcSwapAny::load") or du.slice_operand(t["args"][0]).has_field("MetaMap", "cluster_map") for bb, t in cs)
        ctx.check(both, "C14.D3", "same-snapshot:%s" % fn.split("::")[-1], site(b), ok="cluster map and states come from one loaded snapshot", bad="cluster map is not taken from the loaded snapshot")


def _states_param(b):
    """index of the parameter that carries the migration-state map (by type)"""
    for i in range(1, b.argc + 1):
        ty = b.locals[i]["ty"]
        if "HashMap<common::cluster::RangeList, common::cluster::MigrationState" in ty or ("RangeList" in ty and "MigrationState" in ty and "HashMap" in ty):
            return i
    return None


def op_local(op):
    pl = op.get("mv") or op.get("cp")
    return pl["l"] if pl is not None and not pl["p"] else None
