"""Texts of MANIFEST.json per claimed property (kept next to the rules so they stay in step)."""
CLAIMS = {
 "C06": {
  "technique": "static analysis: conditional constant propagation over MIR (exhaustive index tables), def-use plumbing, dominator rules, call-graph reachability",
  "text": "Extracts from the source, by constant propagation over the exhaustive domain 3 role positions x 4 node indexes x 2 parts, the tables owner(part,pos), role(i,pos), proxy(i), peer(i) of the broker's view builder and the store's index helpers, and checks their mutual consistency (masters = slot owners, replicas own nothing, one master per peer pair on different proxies). takeover_master is evaluated for every (old position, failed index): new position, idempotent early return, and that every part whose owner node changes is re-issued with the bumped epoch (this rule found a genuine defect, repaired by a fix: commit). to_slot_range's same-typed index plumbing, replace_failed_proxy's bookkeeping/ordering, balance_masters' failure guard and the allocation filter (never offers occupied/failed/reported proxies; every allocation entry reaches it) are decided too. Interplay with concurrent migrations over histories is not decided.",
  "note": "Trusts MIR, extractor, analyses; the chunk layout (4 nodes / 2 proxies / 2 parts) is read from the facts; unknown loops are treated as executing any number of times.",
 },
 "C04": {
  "technique": "static analysis: effect summaries (who-may-write) + must-pass-through path rule over feasible CFGs + def-use origin of epoch values",
  "text": "For every broker mutator (found by its effect summary, floor 13) and every CFG path (infeasible paths pruned by correlated-flag valuations), a write to served content is versioned: a global-epoch increase lies on every Ok path through the write, a cluster-content write also has a cluster-epoch write whose value derives from the increased global epoch, and no definite content write is followed by an Err exit without versioning. All writers of the global and cluster epochs are enumerated over lib+bins and shown monotone (+1, >-guarded assignment, max(..,g+1)); the epoch served per proxy is traced to cluster/global epoch. This decides the property for all operation sequences because it holds on all paths of every operation; restore of external snapshots is out of scope.",
  "note": "Trusts MIR, the extractor, the effect classification table (which fields are served content) and that std collection methods mutate only their receiver; conditional mutators (retain/remove/or_insert) are treated as possible no-ops for the Err-exit rule.",
 },
 "C05": {
  "technique": "static analysis: conditional constant propagation over MIR (decision table), dominator/path rules, who-may-write scan",
  "text": "Decides, on all paths of the two installing functions (located by the field they write), the install decision table over {msg<,=,> installed} x force x host-match for SETCLUSTER and SETREPL (exhaustive finite domain), lock dominance and guard liveness, snapshot-before-epoch store order, origin of the stored values, the gate/installed epoch bookkeeping of SETREPL, the single-writer rule over lib+bins and the error-reply mapping. These are necessary structural conditions of the sequential clauses of the property; linearizability under concurrent deliveries is not decided.",
  "note": "Trusts rustc's MIR, the fact extractor and the analyses; parking_lot/arc_swap/atomics semantics; comparison of u64 epochs has exactly three outcomes. A refactor that removes the anchored constructs fails closed (anchor-lost).",
 },
}
NOT_APPLICABLE = {}
