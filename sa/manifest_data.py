"""Texts of MANIFEST.json per claimed property (kept next to the rules so they stay in step)."""
CLAIMS = {
 "C05": {
  "technique": "static analysis: conditional constant propagation over MIR (decision table), dominator/path rules, who-may-write scan",
  "text": "Decides, on all paths of the two installing functions (located by the field they write), the install decision table over {msg<,=,> installed} x force x host-match for SETCLUSTER and SETREPL (exhaustive finite domain), lock dominance and guard liveness, snapshot-before-epoch store order, origin of the stored values, the gate/installed epoch bookkeeping of SETREPL, the single-writer rule over lib+bins and the error-reply mapping. These are necessary structural conditions of the sequential clauses of the property; linearizability under concurrent deliveries is not decided.",
  "note": "Trusts rustc's MIR, the fact extractor and the analyses; parking_lot/arc_swap/atomics semantics; comparison of u64 epochs has exactly three outcomes. A refactor that removes the anchored constructs fails closed (anchor-lost).",
 },
}
NOT_APPLICABLE = {}
