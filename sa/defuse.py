"""A2: def-use plumbing. Backward data-dependence slice of a value inside one body.

Flow-insensitive over the body (every definition of a local counts), field-sensitive for
aggregates that are built and taken apart inside the body.  The slice ends in *origins*:
parameters (with the field path read from them), captured variables, constants, and call
results; calls are traversed into their arguments (data dependence), and every traversed call is
recorded so rules can ask "does this argument depend on the result of X and not on Y".
"""
from .facts import norm, callee_of, callee_decl, place_key, const_bytes, const_int


class Slice:
    def __init__(self):
        self.params = set()     # (local, 'path.of.fields')
        self.captures = set()   # captured variable names (closure / async bodies)
        self.calls = {}         # callee path -> set of bbs
        self.decls = {}         # declared (trait-level) callee path -> set of bbs
        self.consts = []        # const dicts
        self.fields = set()     # (adt, field) read anywhere along the slice
        self.places = set()     # place keys read from params/captures
        self.locals = set()
        self.binops = set()

    def has_call(self, suffix):
        for c in list(self.calls) + list(self.decls):
            if c == suffix or c.endswith("::" + suffix) or c.endswith(suffix):
                return True
        return False

    def has_field(self, adt_suffix, name):
        for a, n in self.fields:
            if n == name and (adt_suffix is None or (a or "").endswith(adt_suffix)):
                return True
        return False

    def has_param(self, local):
        return any(l == local for l, _ in self.params)

    def const_ints(self):
        return [const_int(c) for c in self.consts if const_int(c) is not None]

    def const_strs(self):
        return [const_bytes(c) for c in self.consts if const_bytes(c) is not None]

    def summary(self):
        return {
            "params": sorted("%s:%s" % p for p in self.params),
            "captures": sorted(self.captures),
            "calls": sorted(self.calls),
            "fields": sorted("%s.%s" % (a, n) for a, n in self.fields),
        }


class DefUse:
    def __init__(self, body):
        self.body = body
        self.defs = {}   # local -> list of ('assign', bb, idx, stmt) | ('call', bb, term) | ('yield', bb, term)
        for b in body.blocks:
            for i, s in enumerate(b.stmts):
                if s["k"] == "assign":
                    self.defs.setdefault(s["place"]["l"], []).append(("assign", b.id, i, s))
            t = b.term
            if t["k"] == "call":
                self.defs.setdefault(t["dest"]["l"], []).append(("call", b.id, t))
                # &mut arguments are (potential) out-parameters: the callee may write them
                for a, ty in zip(t["args"], t.get("atys", [])):
                    pl = a.get("mv") or a.get("cp")
                    if pl is not None and ty.startswith("&mut"):
                        self.defs.setdefault(pl["l"], []).append(("outarg", b.id, t))
            elif t["k"] == "yield":
                self.defs.setdefault(t["resume_arg"]["l"], []).append(("yield", b.id, t))
        # `_t = &mut L; f(move _t, ..)`: the callee may write L as well
        extra = []
        for l, ds in self.defs.items():
            for d in ds:
                if d[0] == "outarg":
                    for d2 in self.defs.get(l, []):
                        if d2[0] == "assign" and d2[3]["rv"]["k"] == "ref" and d2[3]["rv"].get("mut") and not d2[3]["place"]["p"]:
                            base = d2[3]["rv"]["p"]["l"]
                            if base != l:
                                extra.append((base, d))
        for base, d in extra:
            if d not in self.defs.setdefault(base, []):
                self.defs[base].append(d)
        self.is_closure = body.kind == "Closure"
        self.follow_accessors = False
        self.alias_mode = False   # follow only reference-preserving steps (no clone / conversion / out-args)

    def slice_operand(self, op, deep=True):
        sl = Slice()
        self._operand(op, sl, set(), deep)
        return sl

    def slice_place(self, place, deep=True):
        sl = Slice()
        self._place(place, sl, set(), deep)
        return sl

    def slice_local(self, local, deep=True):
        return self.slice_place({"l": local, "p": []}, deep)

    # ------------------------------------------------------------------
    def _operand(self, op, sl, seen, deep):
        if op is None:
            return
        if "c" in op:
            sl.consts.append(op["c"])
            return
        pl = op.get("cp") or op.get("mv")
        if pl is not None:
            self._place(pl, sl, seen, deep)

    def _place(self, place, sl, seen, deep):
        body = self.body
        l = place["l"]
        proj = place["p"]
        for e in proj:
            if isinstance(e, dict) and "name" in e:
                sl.fields.add((norm(e.get("adt")), e["name"]))
            if isinstance(e, dict) and "idx" in e:
                self._place({"l": e["idx"], "p": []}, sl, seen, deep)
        # parameter / capture roots
        if 1 <= l <= body.argc:
            if self.is_closure and l == 1:
                names = [e["name"] for e in proj if isinstance(e, dict) and "name" in e]
                if names:
                    sl.captures.add(names[0])
                    sl.places.add(place_key(place))
            else:
                path = ".".join(e["name"] for e in proj if isinstance(e, dict) and "name" in e)
                sl.params.add((l, path))
                sl.places.add(place_key(place))
        # first field projection (after derefs) for field-sensitive aggregate tracking
        first_field = None
        for e in proj:
            if e == "deref":
                continue
            if isinstance(e, dict) and "dc" in e:
                continue
            if isinstance(e, dict) and "f" in e:
                first_field = e["f"]
            break
        key = (l, first_field)
        if key in seen:
            return
        seen.add(key)
        sl.locals.add(l)
        for d in self.defs.get(l, []):
            if d[0] == "assign":
                s = d[3]
                if s["place"]["p"]:
                    # partial write into the local (field assign): relevant if same field or whole read
                    wf = None
                    for e in s["place"]["p"]:
                        if isinstance(e, dict) and "f" in e:
                            wf = e["f"]
                            break
                    if first_field is not None and wf is not None and wf != first_field:
                        continue
                    self._rvalue(s["rv"], sl, seen, deep, None)
                else:
                    self._rvalue(s["rv"], sl, seen, deep, first_field)
            elif d[0] == "call":
                t = d[2]
                self._call(t, d[1], sl, seen, deep)
            elif d[0] == "outarg":
                if self.alias_mode:
                    continue
                t = d[2]
                self._call(t, d[1], sl, seen, deep)
            elif d[0] == "yield":
                t = d[2]
                self._operand(t["value"], sl, seen, deep)

    def _call(self, t, bb, sl, seen, deep):
        c = callee_of(t)
        if c:
            sl.calls.setdefault(c, set()).add(bb)
        dc = callee_decl(t)
        if dc:
            sl.decls.setdefault(dc, set()).add(bb)
        if c is None and dc is None:
            # call through a fn pointer / closure value
            self._operand(t.get("fop"), sl, seen, deep)
        follow = deep or (dc in PASSTHROUGH or c in PASSTHROUGH)
        recv_only = False
        if self.alias_mode:
            follow = dc in ALIAS_PASS or c in ALIAS_PASS
            recv_only = True
        if not follow and self.follow_accessors:
            last = (c or dc or "").rsplit("::", 1)[-1]
            follow = last in REF_ACCESSORS
            recv_only = True
            if not follow and t.get("args") and t.get("atys"):
                # type-based: `fn(&mut A, ..) -> &mut B` (or Option<&mut B>) with the receiver as its only reference
                # parameter hands out a reference derived from the receiver (lifetime elision leaves no other source)
                try:
                    dty = self.body.locals[t["dest"]["l"]]["ty"] if not t["dest"]["p"] else ""
                except Exception:
                    dty = ""
                refs = [ty for ty in t["atys"] if ty.startswith("&")]
                if t["atys"][0].startswith("&mut") and len(refs) == 1 and (dty.startswith("&mut ") or dty.startswith("std::option::Option<&mut ")
                                                                            or dty.startswith("core::option::Option<&mut ") or dty.startswith("Option<&mut ")):
                    follow = True
        if follow:
            for a in (t["args"][:1] if recv_only else t["args"]):
                self._operand(a, sl, seen, deep)

    def _rvalue(self, rv, sl, seen, deep, field):
        k = rv["k"]
        if k in ("use", "cast", "unop", "repeat"):
            self._operand(rv["a"], sl, seen, deep)
        elif k in ("ref", "rawptr", "discr"):
            self._place(rv["p"], sl, seen, deep)
        elif k == "binop":
            sl.binops.add(rv["op"])
            self._operand(rv["a"], sl, seen, deep)
            self._operand(rv["b"], sl, seen, deep)
        elif k == "agg":
            ops = rv["ops"]
            if rv["ak"] in ("closure", "coroutine", "coroutine_closure") and deep and CLOSURE_INFO is not None:
                info = CLOSURE_INFO(norm(rv["def"]))
                if info is not None:
                    sl.fields |= info[0]
                    for c in info[1]:
                        sl.calls.setdefault(c, set())
                    for c in info[2]:
                        sl.decls.setdefault(c, set())
            if field is not None and rv["ak"] in ("tuple", "adt", "closure", "coroutine") and field < len(ops):
                self._operand(ops[field], sl, seen, deep)
            else:
                for o in ops:
                    self._operand(o, sl, seen, deep)


CLOSURE_INFO = None   # set by facts: closure path -> (fields read/written in its body, resolved callees, declared callees)


def install_closure_info(F):
    global CLOSURE_INFO
    cache = {}

    def info(path, depth=0):
        if path in cache:
            return cache[path]
        b = F.bodies.get(path)
        if b is None:
            for c in ("server_proxy", "coordinator", "mem_broker"):
                for x in F.by_crate[c]:
                    if x.path == path:
                        b = x
        if b is None:
            cache[path] = None
            return None
        cache[path] = (set(), set(), set())
        fields, calls, decls = set(), set(), set()

        def pl(p):
            if p is None:
                return
            for e in p["p"]:
                if isinstance(e, dict) and "name" in e and e.get("adt"):
                    a = norm(e["adt"])
                    if not a.endswith("}"):      # skip captured-variable pseudo fields
                        fields.add((a, e["name"]))

        def op(o):
            if o:
                pl(o.get("cp") or o.get("mv"))
        for blk in b.blocks:
            for st in blk.stmts:
                if st["k"] != "assign":
                    continue
                pl(st["place"])
                rv = st["rv"]
                pl(rv.get("p"))
                op(rv.get("a")); op(rv.get("b"))
                for o in rv.get("ops", []):
                    op(o)
                if rv["k"] == "agg" and rv.get("ak") in ("closure", "coroutine", "coroutine_closure") and depth < 4:
                    sub = info(norm(rv["def"]), depth + 1)
                    if sub:
                        fields.update(sub[0]); calls.update(sub[1]); decls.update(sub[2])
            t = blk.term
            if t["k"] == "call":
                for a in t["args"]:
                    op(a)
                c = callee_of(t); d = callee_decl(t)
                if c:
                    calls.add(c)
                if d:
                    decls.add(d)
        cache[path] = (fields, calls, decls)
        return cache[path]
    CLOSURE_INFO = info


PASSTHROUGH = {
    "std::clone::Clone::clone", "std::ops::Deref::deref", "std::ops::DerefMut::deref_mut",
    "std::convert::Into::into", "std::convert::From::from", "std::convert::AsRef::as_ref",
    "std::borrow::Borrow::borrow", "std::string::ToString::to_string", "std::borrow::ToOwned::to_owned",
    "std::string::String::as_str", "std::vec::Vec::as_slice", "std::option::Option::as_ref",
}


ALIAS_PASS = {
    "std::ops::Deref::deref", "std::ops::DerefMut::deref_mut", "std::convert::AsRef::as_ref", "std::convert::AsMut::as_mut",
    "std::borrow::Borrow::borrow", "std::borrow::BorrowMut::borrow_mut", "std::string::String::as_str", "std::vec::Vec::as_slice",
    "std::option::Option::as_ref", "std::option::Option::as_mut",
}

REF_ACCESSORS = {
    "get_mut", "iter_mut", "values_mut", "deref_mut", "as_mut", "entry", "last_mut", "first_mut", "next", "into_iter",
    "iter", "get", "expect", "unwrap", "branch", "ok_or", "ok_or_else", "as_ref", "deref", "index", "index_mut", "values", "keys",
    "first", "last", "by_ref", "enumerate",
}


def arg_slice(body, term, i, deep=True):
    return DefUse(body).slice_operand(term["args"][i], deep)
