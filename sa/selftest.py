"""Sensitivity self-test (thorough tier): every frozen mutant (one broken rule instance each) is
applied to a scratch copy of /repo, facts are re-extracted with the same driver, and the rule
must fire naming that instance.  The scratch copy is removed afterwards."""
import os
import shutil
import tempfile
import time

from . import build
from .facts import Facts

# one scratch tree per process: two runs (e.g. two properties' thorough tiers) must not share a copy
SCRATCH_PARENT = os.path.join(os.environ.get("TMPDIR", "/tmp"), "verif-scratch-%d" % os.getpid())


def make_copy(repo):
    os.makedirs(SCRATCH_PARENT, exist_ok=True)
    dst = os.path.join(SCRATCH_PARENT, "repo")
    if os.path.isdir(dst):
        shutil.rmtree(dst)
    os.makedirs(dst)
    for name in ("src", "Cargo.toml", "Cargo.lock", "rust-toolchain", "rust-toolchain.toml", "build.rs", ".cargo"):
        p = os.path.join(repo, name)
        if os.path.isdir(p):
            shutil.copytree(p, os.path.join(dst, name))
        elif os.path.exists(p):
            shutil.copy2(p, os.path.join(dst, name))
    return dst


def apply_mutant(copy, mut):
    """textual single-site substitution; returns True when it applied"""
    edits = mut.get("edits") or [{"file": mut["file"], "old": mut["old"], "new": mut["new"], "after": mut.get("after")}]
    staged = {}
    for e in edits:
        path = os.path.join(copy, e["file"])
        if not os.path.exists(path):
            return False
        txt = staged[path] if path in staged else open(path).read()
        if e.get("after"):
            # first occurrence of `old` after a unique anchor (e.g. the enclosing fn header)
            if txt.count(e["after"]) != 1:
                return False
            a = txt.index(e["after"])
            i = txt.find(e["old"], a)
            if i < 0:
                return False
            staged[path] = txt[:i] + e["new"] + txt[i + len(e["old"]):]
            continue
        if txt.count(e["old"]) != 1:
            return False
        staged[path] = txt.replace(e["old"], e["new"])
    for path, txt in staged.items():
        open(path, "w").write(txt)
    return True


def run_mutants(prop, mod, only=None):
    from .engine import Ctx
    out = {"mutants": [], "applied": 0, "detected": 0, "skipped": 0}
    repo = build.REPO
    for mut in mod.MUTANTS:
        if only and mut["name"] not in only:
            continue
        t = time.time()
        copy = make_copy(repo)
        facts_dir = os.path.join(SCRATCH_PARENT, "facts")
        rec = {"name": mut["name"], "expect": mut["expect"]}
        try:
            if not apply_mutant(copy, mut):
                rec["status"] = "skipped"
                rec["why"] = "mutant does not apply to the current tree (site edited)"
                out["skipped"] += 1
                out["mutants"].append(rec)
                continue
            try:
                build.facts_for_copy(copy, facts_dir)
            except build.BuildFailed as e:
                rec["status"] = "skipped"
                rec["why"] = "mutated tree does not compile: %s" % str(e)[-300:]
                out["skipped"] += 1
                out["mutants"].append(rec)
                continue
            out["applied"] += 1
            F = Facts(facts_dir)
            ctx = Ctx(F, prop, "quick")
            mod.run(ctx)
            hits = [i for i in ctx.instances if i.status in ("violation", "anchor-lost") and mut["expect"] in i.key]
            allv = [i.key for i in ctx.instances if i.status in ("violation", "anchor-lost")]
            if hits:
                rec["status"] = "detected"
                rec["by"] = [h.key for h in hits][:4]
                out["detected"] += 1
            else:
                rec["status"] = "missed"
                rec["other_violations"] = allv[:6]
            rec["wall_s"] = round(time.time() - t, 1)
            out["mutants"].append(rec)
        finally:
            shutil.rmtree(copy, ignore_errors=True)
            shutil.rmtree(facts_dir, ignore_errors=True)
    # the real tree's facts were produced with the same target dir; nothing else to restore
    try:
        os.rmdir(SCRATCH_PARENT)
    except OSError:
        pass
    return out


def try_patch(patch, props):
    """apply a unified diff to a private scratch copy of /repo (never to /repo itself), extract facts and run the
    quick rules of `props` on it; prints what fires.  Used to measure seeded changes; writes no evidence."""
    import importlib
    import subprocess
    from .engine import Ctx, load_known
    repo = build.REPO
    copy = make_copy(repo)
    facts_dir = os.path.join(SCRATCH_PARENT, "facts")
    out = {}
    try:
        r = subprocess.run(["git", "apply", "--include=src/*", "--include=Cargo.toml", os.path.abspath(patch)], cwd=copy, capture_output=True, text=True)
        if r.returncode != 0:
            print("patch does not apply: %s" % r.stderr.strip()[-300:])
            return None
        try:
            build.facts_for_copy(copy, facts_dir)
        except build.BuildFailed as e:
            print("patched tree does not compile: %s" % str(e)[-300:])
            return None
        F = Facts(facts_dir)
        for prop in props:
            mod = importlib.import_module("sa.rules.%s" % prop)
            ctx = Ctx(F, prop, "quick")
            mod.run(ctx)
            known = {k["key"] for k in load_known() if k.get("property") == prop and k.get("status") == "known"}
            v = [i for i in ctx.instances if i.status in ("violation", "anchor-lost") and i.key not in known]
            out[prop] = [i.key for i in v]
            print("%s: %d violation(s)" % (prop, len(v)))
            for i in v[:12]:
                print("   %s  [%s]  %s" % (i.key, i.site, (i.detail or "")[:200]))
    finally:
        shutil.rmtree(copy, ignore_errors=True)
        shutil.rmtree(facts_dir, ignore_errors=True)
        try:
            os.rmdir(SCRATCH_PARENT)
        except OSError:
            pass
    return out


def patched_facts(patch, out_dir):
    """facts of a private scratch copy of /repo with `patch` applied, kept in out_dir (development aid for measuring
    seeded changes; nothing registered in MANIFEST depends on it)"""
    import subprocess
    copy = make_copy(build.REPO)
    try:
        r = subprocess.run(["git", "apply", "--include=src/*", "--include=Cargo.toml", os.path.abspath(patch)], cwd=copy, capture_output=True, text=True)
        if r.returncode != 0:
            print("patch does not apply: %s" % r.stderr.strip()[-300:])
            return False
        try:
            build.facts_for_copy(copy, out_dir)
        except build.BuildFailed as e:
            print("patched tree does not compile: %s" % str(e)[-300:])
            return False
        return True
    finally:
        shutil.rmtree(copy, ignore_errors=True)
        try:
            os.rmdir(SCRATCH_PARENT)
        except OSError:
            pass


def run_on_facts(facts_dir, props, verbose=True):
    import importlib
    from .engine import Ctx, load_known
    F = Facts(facts_dir)
    out = {}
    for prop in props:
        mod = importlib.import_module("sa.rules.%s" % prop)
        ctx = Ctx(F, prop, "quick")
        mod.run(ctx)
        known = {k["key"] for k in load_known() if k.get("property") == prop and k.get("status") == "known"}
        v = [i for i in ctx.instances if i.status in ("violation", "anchor-lost") and i.key not in known]
        out[prop] = [i.key for i in v]
        if verbose:
            print("%s: %d violation(s)" % (prop, len(v)))
            for i in v[:12]:
                print("   %s  [%s]  %s" % (i.key, i.site, (i.detail or "")[:220]))
    return out
