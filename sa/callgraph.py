"""A6: crate call graph over resolved callees (trait calls without a resolved impl fan out to
every crate impl of that trait method), closures linked to the body that creates them."""
from .facts import norm, callee_of, callee_decl


class CallGraph:
    def __init__(self, F, bins=True, mocks=False):
        self.F = F
        self.bodies = {}
        for b in F.all_bodies(bins=bins, mocks=mocks):
            if b.kind == "Promoted":
                continue
            self.bodies[b.path] = b
        # trait item -> impl item paths
        self.trait_impls = {}
        for im in F.impls:
            if im.get("mac") in ("automock", "mock") and not mocks:
                continue
            for it in im["items"]:
                ti = norm(it.get("trait_item"))
                if ti:
                    self.trait_impls.setdefault(ti, set()).add(norm(it["def"]))
        self.edges = {p: set() for p in self.bodies}
        self.sites = {}
        for p, b in self.bodies.items():
            for blk in b.blocks:
                for s in blk.stmts:
                    if s["k"] == "assign" and s["rv"]["k"] == "agg" and s["rv"]["ak"] in ("closure", "coroutine", "coroutine_closure"):
                        cp = norm(s["rv"]["def"])
                        if cp in self.bodies:
                            self.edges[p].add(cp)
                            self.sites.setdefault((p, cp), []).append(blk.id)
                    # function items used as values (passed as callbacks)
                    if s["k"] == "assign":
                        for o in _ops(s["rv"]):
                            if "c" in o and "fn" in o["c"]:
                                fp = norm(o["c"]["fn"])
                                if fp in self.bodies:
                                    self.edges[p].add(fp)
                t = blk.term
                if t["k"] != "call":
                    continue
                for a in t["args"]:
                    if "c" in a and "fn" in a["c"]:
                        fp = norm(a["c"]["fn"])
                        if fp in self.bodies:
                            self.edges[p].add(fp)
                c = callee_of(t)
                d = callee_decl(t)
                targets = set()
                if c in self.bodies:
                    targets.add(c)
                elif d in self.bodies:
                    targets.add(d)
                if d in self.trait_impls and (t.get("resolved") is None):
                    for ip in self.trait_impls[d]:
                        if ip in self.bodies:
                            targets.add(ip)
                for tg in targets:
                    self.edges[p].add(tg)
                    self.sites.setdefault((p, tg), []).append(blk.id)
        # a closure defined inside a body belongs to it even when only referenced through generics
        for p in self.bodies:
            b = self.bodies[p]
            if b.kind == "Closure" and b.parent in self.bodies:
                self.edges[b.parent].add(p)

    def reachable(self, roots):
        seen = set()
        stack = [r for r in roots if r in self.bodies]
        seen.update(stack)
        while stack:
            p = stack.pop()
            for q in self.edges.get(p, ()):
                if q not in seen:
                    seen.add(q)
                    stack.append(q)
        return seen

    def path(self, src, dst):
        prev = {src: None}
        stack = [src]
        while stack:
            p = stack.pop(0)
            if p == dst:
                out = []
                while p is not None:
                    out.append(p)
                    p = prev[p]
                return list(reversed(out))
            for q in sorted(self.edges.get(p, ())):
                if q not in prev:
                    prev[q] = p
                    stack.append(q)
        return None

    def callers(self, target):
        return sorted(p for p, es in self.edges.items() if target in es)

    def sccs(self, nodes=None):
        """Tarjan; returns list of SCCs (lists) with more than one node or a self loop"""
        nodes = list(nodes if nodes is not None else self.bodies)
        nodeset = set(nodes)
        index = {}
        low = {}
        onstack = set()
        stack = []
        out = []
        counter = [0]
        import sys
        sys.setrecursionlimit(max(10000, sys.getrecursionlimit()))

        def strong(v):
            index[v] = low[v] = counter[0]
            counter[0] += 1
            stack.append(v)
            onstack.add(v)
            for w in self.edges.get(v, ()):
                if w not in nodeset:
                    continue
                if w not in index:
                    strong(w)
                    low[v] = min(low[v], low[w])
                elif w in onstack:
                    low[v] = min(low[v], index[w])
            if low[v] == index[v]:
                comp = []
                while True:
                    w = stack.pop()
                    onstack.discard(w)
                    comp.append(w)
                    if w == v:
                        break
                if len(comp) > 1 or v in self.edges.get(v, ()):
                    out.append(sorted(comp))
        for v in nodes:
            if v not in index:
                strong(v)
        return out


def _ops(rv):
    out = []
    for k in ("a", "b"):
        if k in rv and isinstance(rv[k], dict):
            out.append(rv[k])
    out.extend(rv.get("ops", []))
    return out
