"""Facts refresh: make-semantics over a content hash of /repo's build inputs."""
import fcntl
import glob
import hashlib
import json
import os
import shutil
import subprocess
import sys
import time

VERIF = os.path.dirname(os.path.dirname(os.path.abspath(__file__)))
CACHE = os.path.join(VERIF, ".cache")
DRIVER_DIR = os.path.join(VERIF, "driver")
DRIVER_BIN = os.path.join(DRIVER_DIR, "target", "release", "umfacts")
TARGET = os.path.join(CACHE, "target")
REPO = os.environ.get("VERIF_REPO", "/repo")


class BuildFailed(Exception):
    pass


def tree_hash(repo):
    h = hashlib.sha256()
    roots = ["src", "Cargo.toml", "Cargo.lock", "rust-toolchain", "rust-toolchain.toml", "build.rs", ".cargo"]
    files = []
    for r in roots:
        p = os.path.join(repo, r)
        if os.path.isdir(p):
            for dp, dn, fn in os.walk(p):
                dn.sort()
                for f in sorted(fn):
                    files.append(os.path.join(dp, f))
        elif os.path.exists(p):
            files.append(p)
    for f in sorted(files):
        h.update(os.path.relpath(f, repo).encode())
        h.update(b"\0")
        with open(f, "rb") as fh:
            h.update(fh.read())
        h.update(b"\0")
    # the driver is part of the input too
    for f in (os.path.join(DRIVER_DIR, "src", "main.rs"),):
        with open(f, "rb") as fh:
            h.update(fh.read())
    return h.hexdigest()


def sysroot_lib():
    out = subprocess.run(["rustc", "+nightly", "--print", "sysroot"], capture_output=True, text=True, check=True)
    return os.path.join(out.stdout.strip(), "lib")


def build_driver(log=sys.stderr):
    if os.path.exists(DRIVER_BIN) and os.path.getmtime(DRIVER_BIN) >= os.path.getmtime(os.path.join(DRIVER_DIR, "src", "main.rs")):
        return
    env = dict(os.environ)
    env["CARGO_NET_OFFLINE"] = "true"
    r = subprocess.run(["cargo", "+nightly", "build", "--release", "--offline"], cwd=DRIVER_DIR, env=env,
                       capture_output=True, text=True)
    if r.returncode != 0:
        log.write(r.stdout + r.stderr)
        raise BuildFailed("driver build failed")


def run_driver(repo, out_dir, log=sys.stderr):
    """run cargo check with the wrapper over `repo`, writing facts to out_dir"""
    build_driver(log)
    if os.path.isdir(out_dir):
        shutil.rmtree(out_dir)
    os.makedirs(out_dir)
    # cargo replays a cached run and skips the wrapper when the member's fingerprint is fresh
    for d in glob.glob(os.path.join(TARGET, "debug", ".fingerprint", "undermoon-*")):
        shutil.rmtree(d, ignore_errors=True)
    env = dict(os.environ)
    env["LD_LIBRARY_PATH"] = sysroot_lib() + (":" + env["LD_LIBRARY_PATH"] if env.get("LD_LIBRARY_PATH") else "")
    env["RUSTFLAGS"] = "-Awarnings"
    env["RUSTC_WORKSPACE_WRAPPER"] = DRIVER_BIN
    env["UMFACTS_OUT"] = out_dir
    env["CARGO_TARGET_DIR"] = TARGET
    env["CARGO_NET_OFFLINE"] = "true"
    env["CARGO_INCREMENTAL"] = "0"
    env.pop("RUSTC_WRAPPER", None)
    t = time.time()
    # cargo caches the output of its rustc probes in .rustc_info.json, failures included: a probe that failed once
    # (e.g. its working directory vanished) would be replayed for ever
    info = os.path.join(TARGET, ".rustc_info.json")
    try:
        if os.path.exists(info) and '"success":false' in open(info).read():
            os.remove(info)
    except OSError:
        pass
    r = subprocess.run(["cargo", "+nightly", "check", "--offline", "--lib", "--bins"], cwd=repo, env=env,
                       capture_output=True, text=True)
    if r.returncode != 0 and "failed to run `rustc` to learn about target-specific information" in (r.stdout + r.stderr):
        try:
            os.remove(info)
        except OSError:
            pass
        r = subprocess.run(["cargo", "+nightly", "check", "--offline", "--lib", "--bins"], cwd=repo, env=env,
                           capture_output=True, text=True)
    if r.returncode != 0:
        tail = "\n".join((r.stdout + r.stderr).splitlines()[-60:])
        raise BuildFailed("cargo check failed on %s:\n%s" % (repo, tail[-6000:]))
    need = ["undermoon.bodies.jsonl", "undermoon.adts.json", "undermoon.header.json",
            "server_proxy.bodies.jsonl", "coordinator.bodies.jsonl", "mem_broker.bodies.jsonl"]
    for n in need:
        if not os.path.exists(os.path.join(out_dir, n)):
            raise BuildFailed("driver did not write %s (wrapper skipped?)" % n)
    return time.time() - t


def ensure_facts(repo=REPO, log=sys.stderr):
    """returns (facts_dir, info) with facts describing the *current* working tree of repo"""
    os.makedirs(CACHE, exist_ok=True)
    lock = open(os.path.join(CACHE, "lock"), "w")
    fcntl.flock(lock, fcntl.LOCK_EX)
    try:
        facts = os.path.join(CACHE, "facts")
        want = tree_hash(repo)
        stamp = os.path.join(facts, "tree.json")
        have = None
        if os.path.exists(stamp):
            try:
                have = json.load(open(stamp)).get("hash")
            except Exception:
                have = None
        info = {"tree_hash": want, "refreshed": False}
        if have != want:
            secs = run_driver(repo, facts, log)
            json.dump({"hash": want, "repo": repo, "at": time.time()}, open(stamp, "w"))
            got = json.load(open(stamp)).get("hash")
            assert got == want
            info["refreshed"] = True
            info["driver_s"] = round(secs, 1)
        return facts, info
    finally:
        fcntl.flock(lock, fcntl.LOCK_UN)
        lock.close()


def facts_for_copy(copy_dir, out_dir, log=sys.stderr):
    """facts of a scratch copy (used by the mutant self-test); serialised by the same lock"""
    os.makedirs(CACHE, exist_ok=True)
    lock = open(os.path.join(CACHE, "lock"), "w")
    fcntl.flock(lock, fcntl.LOCK_EX)
    try:
        run_driver(copy_dir, out_dir, log)
        return out_dir
    finally:
        fcntl.flock(lock, fcntl.LOCK_UN)
        lock.close()
