"""A1: CFG utilities over a Body: dominators, reachability avoiding barriers, path witnesses.

A program point is (bb, idx): idx = statement index, idx == len(stmts) is the terminator.
"""
from collections import deque


def term_idx(body, bb):
    return len(body.blocks[bb].stmts)


def reachable_blocks(body, start=0, avoid=(), succs=None):
    avoid = set(avoid)
    seen = set()
    if start in avoid:
        return seen
    dq = deque([start])
    seen.add(start)
    succs = succs or body.succs()
    while dq:
        b = dq.popleft()
        for s in succs[b]:
            if s in avoid or s in seen:
                continue
            seen.add(s)
            dq.append(s)
    return seen


def dominators(body, entry=0, succs=None):
    """dict bb -> set of dominating bbs (incl. itself), over non-unwind edges"""
    succs = succs or body.succs()
    reach = reachable_blocks(body, entry, succs=succs)
    preds = {b: [] for b in reach}
    for b in reach:
        for x in succs[b]:
            if x in reach:
                preds[x].append(b)
    dom = {b: set(reach) for b in reach}
    dom[entry] = {entry}
    # reverse post-order
    order = []
    seen = set()

    def dfs(b):
        stack = [(b, iter(succs[b]))]
        seen.add(b)
        while stack:
            node, it = stack[-1]
            adv = False
            for s in it:
                if s not in seen and s in reach:
                    seen.add(s)
                    stack.append((s, iter(succs[s])))
                    adv = True
                    break
            if not adv:
                order.append(node)
                stack.pop()

    dfs(entry)
    order.reverse()
    changed = True
    while changed:
        changed = False
        for b in order:
            if b == entry:
                continue
            ps = preds[b]
            if not ps:
                continue
            new = set.intersection(*[dom[p] for p in ps]) | {b}
            if new != dom[b]:
                dom[b] = new
                changed = True
    return dom


def point_dominates(body, a, b, dom=None):
    """does program point a dominate program point b"""
    if dom is None:
        dom = dominators(body)
    if a[0] == b[0]:
        return a[1] <= b[1]
    return b[0] in dom and a[0] in dom[b[0]]


def path_avoiding(body, start_pt, targets, barriers, start_inclusive=False, succs=None, start_is_target=True):
    """Find a CFG path from program point start_pt (exclusive) to any block in `targets`
    (a set of bbs, reached at their entry... a target block counts when its *terminator* is
    reached) that does not pass any barrier point.

    barriers: set of program points (bb, idx).  A barrier in a block blocks every path through
    that block at/after idx; since a block executes all its statements in order, entering a
    block that contains a barrier means the barrier is passed before the terminator.
    Returns the list of bbs of a witness path, or None.
    """
    bar_by_block = {}
    for (b, i) in barriers:
        bar_by_block.setdefault(b, []).append(i)
    sb, si = start_pt
    # barrier later in the same block?
    for i in bar_by_block.get(sb, []):
        if i > si or (start_inclusive and i == si):
            return None
    targets = set(targets)
    if sb in targets and start_is_target:
        return [sb]
    succs = succs or body.succs()
    prev = {}
    dq = deque()
    for s in succs[sb]:
        if s not in prev:
            prev[s] = sb
            dq.append(s)
    while dq:
        b = dq.popleft()
        if b in bar_by_block:
            continue
        if b in targets:
            path = [b]
            cur = b
            while cur != sb or len(path) == 1:
                cur = prev[cur]
                path.append(cur)
                if cur == sb:
                    break
            path.reverse()
            return path
        for s in succs[b]:
            if s not in prev:
                prev[s] = b
                dq.append(s)
    return None


def path_between(body, src_bb, dst_bb, avoid=(), succs=None):
    """witness path of bbs from src_bb to dst_bb (following >= 1 edge) avoiding blocks"""
    avoid = set(avoid)
    succs = succs or body.succs()
    prev = {}
    dq = deque()
    for s in succs[src_bb]:
        if s not in prev and s not in avoid:
            prev[s] = src_bb
            dq.append(s)
    while dq:
        b = dq.popleft()
        if b == dst_bb:
            path = [b]
            cur = b
            while True:
                cur = prev[cur]
                path.append(cur)
                if cur == src_bb:
                    break
            path.reverse()
            return path
        for s in succs[b]:
            if s not in prev and s not in avoid:
                prev[s] = b
                dq.append(s)
    return None


def reaches(body, src_bb, dst_bb, avoid=(), succs=None):
    if src_bb == dst_bb:
        return True
    return path_between(body, src_bb, dst_bb, avoid, succs) is not None


def exec_succs(body, exec_edges):
    """successor map restricted to executable edges (result of SCCP)"""
    return {b: [s for s in ss if (b, s) in exec_edges] for b, ss in body.succs().items()}


def lines_of_path(body, path):
    out = []
    for b in path:
        t = body.blocks[b].term
        ln = t.get("line")
        if t.get("file") == body.file and ln and (not out or out[-1] != ln):
            out.append(ln)
    return out


def natural_loops(body):
    """back edges (tail, head) where head dominates tail"""
    dom = dominators(body)
    out = []
    for b, ss in body.succs().items():
        if b not in dom:
            continue
        for s in ss:
            if s in dom[b]:
                out.append((b, s))
    return out


def loop_blocks(body, tail, head):
    """blocks of the natural loop of back edge tail->head"""
    blocks = {head, tail}
    stack = [tail]
    preds = body.preds()
    while stack:
        b = stack.pop()
        if b == head:
            continue
        for p in preds[b]:
            if p not in blocks:
                blocks.add(p)
                stack.append(p)
    return blocks
