// umfacts: rustc_private driver that dumps type-checked, callee-resolved, pre-borrowck MIR
// (mir_promoted, taken in after_expansion) plus ADT / impl facts as JSON.
// Used as RUSTC_WORKSPACE_WRAPPER; output directory = $UMFACTS_OUT.
#![feature(rustc_private)]
#![allow(clippy::all)]

extern crate rustc_abi;
extern crate rustc_driver;
extern crate rustc_hir;
extern crate rustc_interface;
extern crate rustc_middle;
extern crate rustc_session;
extern crate rustc_span;

use rustc_hir::def::DefKind;
use rustc_hir::def_id::{DefId, LocalDefId, LOCAL_CRATE};
use rustc_middle::mir::{
    AggregateKind, BasicBlockData, Body, BorrowKind, Const, ConstOperand, Operand, Place,
    PlaceElem, ProjectionElem, Rvalue, StatementKind, TerminatorKind, UnwindAction,
};
use rustc_middle::mir::PlaceTy;
use rustc_middle::ty::{self, Ty, TyCtxt};
use rustc_span::Span;
use std::fmt::Write as _;

fn esc(s: &str) -> String {
    let mut o = String::with_capacity(s.len() + 2);
    o.push('"');
    for c in s.chars() {
        match c {
            '"' => o.push_str("\\\""),
            '\\' => o.push_str("\\\\"),
            '\n' => o.push_str("\\n"),
            '\r' => o.push_str("\\r"),
            '\t' => o.push_str("\\t"),
            c if (c as u32) < 0x20 => {
                let _ = write!(o, "\\u{:04x}", c as u32);
            }
            c => o.push(c),
        }
    }
    o.push('"');
    o
}

fn trunc(s: String) -> String {
    if s.len() > 400 {
        let mut e = 400;
        while !s.is_char_boundary(e) {
            e -= 1;
        }
        format!("{}…", &s[..e])
    } else {
        s
    }
}

struct Cx<'tcx> {
    tcx: TyCtxt<'tcx>,
}

impl<'tcx> Cx<'tcx> {
    fn path(&self, did: DefId) -> String {
        self.tcx.def_path_str(did)
    }

    fn ty_str(&self, t: Ty<'tcx>) -> String {
        trunc(format!("{}", t))
    }

    fn peel(&self, mut t: Ty<'tcx>) -> Ty<'tcx> {
        loop {
            match t.kind() {
                ty::Ref(_, inner, _) => t = *inner,
                ty::RawPtr(inner, _) => t = *inner,
                _ => return t,
            }
        }
    }

    fn adt_of(&self, t: Ty<'tcx>) -> Option<String> {
        match self.peel(t).kind() {
            ty::Adt(a, _) => Some(self.path(a.did())),
            ty::Closure(d, _) | ty::Coroutine(d, _) | ty::CoroutineClosure(d, _) => {
                Some(self.path(*d))
            }
            _ => None,
        }
    }

    fn span_json(&self, sp: Span) -> String {
        let exp = sp.from_expansion();
        let mut mac = String::new();
        if exp {
            let ed = sp.ctxt().outer_expn_data();
            if let rustc_span::ExpnKind::Macro(_, name) = ed.kind {
                mac = name.to_string();
            } else {
                mac = format!("{:?}", ed.kind);
            }
        }
        let cs = if exp { sp.source_callsite() } else { sp };
        let sm = self.tcx.sess.source_map();
        let lo = sm.lookup_char_pos(cs.lo());
        let file = format!("{}", lo.file.name.prefer_local_unconditionally());
        if exp {
            format!(
                "\"line\":{},\"file\":{},\"exp\":true,\"mac\":{}",
                lo.line,
                esc(&file),
                esc(&mac)
            )
        } else {
            format!("\"line\":{},\"file\":{}", lo.line, esc(&file))
        }
    }

    fn field_name(&self, pty: PlaceTy<'tcx>, f: usize) -> (String, Option<String>) {
        match pty.ty.kind() {
            ty::Adt(adt, _) => {
                let v = pty.variant_index.unwrap_or(rustc_abi::FIRST_VARIANT);
                if adt.is_enum() && pty.variant_index.is_none() {
                    return (format!("{}", f), Some(self.path(adt.did())));
                }
                let var = adt.variant(v);
                let name = var
                    .fields
                    .iter()
                    .nth(f)
                    .map(|fd| fd.name.to_string())
                    .unwrap_or_else(|| format!("{}", f));
                (name, Some(self.path(adt.did())))
            }
            ty::Closure(d, _) | ty::Coroutine(d, _) | ty::CoroutineClosure(d, _) => {
                let name = match d.as_local() {
                    Some(ld) => self
                        .tcx
                        .closure_captures(ld)
                        .get(f)
                        .map(|c| c.to_symbol().to_string())
                        .unwrap_or_else(|| format!("{}", f)),
                    None => format!("{}", f),
                };
                (name, Some(self.path(*d)))
            }
            _ => (format!("{}", f), None),
        }
    }

    fn place_json(&self, body: &Body<'tcx>, place: &Place<'tcx>) -> String {
        let mut pty = PlaceTy::from_ty(body.local_decls[place.local].ty);
        let mut parts: Vec<String> = Vec::new();
        for elem in place.projection.iter() {
            let elem: PlaceElem<'tcx> = elem;
            match elem {
                ProjectionElem::Deref => parts.push("\"deref\"".to_string()),
                ProjectionElem::Field(f, _) => {
                    let (name, adt) = self.field_name(pty, f.as_usize());
                    match adt {
                        Some(a) => parts.push(format!(
                            "{{\"f\":{},\"name\":{},\"adt\":{}}}",
                            f.as_usize(),
                            esc(&name),
                            esc(&a)
                        )),
                        None => parts.push(format!("{{\"f\":{},\"name\":{}}}", f.as_usize(), esc(&name))),
                    }
                }
                ProjectionElem::Downcast(sym, vidx) => {
                    let name = match sym {
                        Some(s) => s.to_string(),
                        None => match pty.ty.kind() {
                            ty::Adt(adt, _) => adt.variant(vidx).name.to_string(),
                            _ => format!("{}", vidx.as_usize()),
                        },
                    };
                    parts.push(format!("{{\"dc\":{},\"vi\":{}}}", esc(&name), vidx.as_usize()));
                }
                ProjectionElem::Index(l) => parts.push(format!("{{\"idx\":{}}}", l.as_usize())),
                ProjectionElem::ConstantIndex { offset, min_length, from_end } => parts.push(format!(
                    "{{\"ci\":{},\"of\":{},\"fe\":{}}}",
                    offset, min_length, from_end
                )),
                ProjectionElem::Subslice { from, to, from_end } => {
                    parts.push(format!("{{\"sub\":[{},{}],\"fe\":{}}}", from, to, from_end))
                }
                _ => parts.push("\"other\"".to_string()),
            }
            pty = pty.projection_ty(self.tcx, elem);
        }
        format!("{{\"l\":{},\"p\":[{}]}}", place.local.as_usize(), parts.join(","))
    }

    fn const_json(&self, owner: LocalDefId, c: &ConstOperand<'tcx>) -> String {
        let tcx = self.tcx;
        let ty = c.const_.ty();
        let mut o = format!("{{\"ty\":{}", esc(&self.ty_str(ty)));
        let _ = write!(o, ",\"v\":{}", esc(&trunc(format!("{}", c.const_))));
        match ty.kind() {
            ty::FnDef(did, args) => {
                let _ = write!(o, ",\"fn\":{}", esc(&self.path(*did)));
                let _ = write!(o, ",\"fni\":{}", esc(&trunc(tcx.def_path_str_with_args(*did, args))));
            }
            ty::Bool | ty::Char | ty::Int(_) | ty::Uint(_) => {
                let env = ty::TypingEnv::post_analysis(tcx, owner);
                if let Some(si) = c.const_.try_eval_scalar_int(tcx, env) {
                    let size = si.size();
                    let s = match ty.kind() {
                        ty::Int(_) => format!("{}", si.to_int(size)),
                        _ => format!("{}", si.to_uint(size)),
                    };
                    let _ = write!(o, ",\"int\":{}", s);
                }
            }
            ty::Ref(_, inner, _) if inner.is_str() => {
                let env = ty::TypingEnv::post_analysis(tcx, owner);
                if let Ok(val) = c.const_.eval(tcx, env, c.span) {
                    if let Some(bytes) = val.try_get_slice_bytes_for_diagnostics(tcx) {
                        let s = String::from_utf8_lossy(bytes).to_string();
                        let _ = write!(o, ",\"str\":{}", esc(&s));
                    }
                }
            }
            _ => {}
        }
        if let Const::Unevaluated(uv, _) = c.const_ {
            let _ = write!(o, ",\"item\":{}", esc(&self.path(uv.def)));
        }
        o.push('}');
        o
    }

    fn op_json(&self, owner: LocalDefId, body: &Body<'tcx>, op: &Operand<'tcx>) -> String {
        match op {
            Operand::Copy(p) => format!("{{\"cp\":{}}}", self.place_json(body, p)),
            Operand::Move(p) => format!("{{\"mv\":{}}}", self.place_json(body, p)),
            Operand::Constant(c) => format!("{{\"c\":{}}}", self.const_json(owner, c)),
            #[allow(unreachable_patterns)]
            _ => "{\"other\":true}".to_string(),
        }
    }

    fn rvalue_json(&self, owner: LocalDefId, body: &Body<'tcx>, rv: &Rvalue<'tcx>) -> String {
        match rv {
            Rvalue::Use(op, ..) => format!("{{\"k\":\"use\",\"a\":{}}}", self.op_json(owner, body, op)),
            Rvalue::Repeat(op, _) => format!("{{\"k\":\"repeat\",\"a\":{}}}", self.op_json(owner, body, op)),
            Rvalue::Ref(_, bk, p) => {
                let m = matches!(bk, BorrowKind::Mut { .. });
                format!("{{\"k\":\"ref\",\"mut\":{},\"p\":{}}}", m, self.place_json(body, p))
            }
            Rvalue::RawPtr(_, p) => format!("{{\"k\":\"rawptr\",\"p\":{}}}", self.place_json(body, p)),
            Rvalue::Cast(ck, op, t) => format!(
                "{{\"k\":\"cast\",\"ck\":{},\"a\":{},\"ty\":{}}}",
                esc(&format!("{:?}", ck)),
                self.op_json(owner, body, op),
                esc(&self.ty_str(*t))
            ),
            Rvalue::BinaryOp(op, ab) => format!(
                "{{\"k\":\"binop\",\"op\":\"{:?}\",\"a\":{},\"b\":{}}}",
                op,
                self.op_json(owner, body, &ab.0),
                self.op_json(owner, body, &ab.1)
            ),
            Rvalue::UnaryOp(op, a) => format!(
                "{{\"k\":\"unop\",\"op\":\"{:?}\",\"a\":{}}}",
                op,
                self.op_json(owner, body, a)
            ),
            Rvalue::Discriminant(p) => format!("{{\"k\":\"discr\",\"p\":{}}}", self.place_json(body, p)),
            Rvalue::CopyForDeref(p) => format!("{{\"k\":\"use\",\"a\":{{\"cp\":{}}}}}", self.place_json(body, p)),
            Rvalue::Aggregate(kind, ops) => {
                let opsj: Vec<String> = ops.iter().map(|o| self.op_json(owner, body, o)).collect();
                let head = match &**kind {
                    AggregateKind::Adt(did, vidx, _, _, _) => {
                        let adt = self.tcx.adt_def(*did);
                        let var = adt.variant(*vidx);
                        let fns: Vec<String> = var.fields.iter().map(|f| esc(&f.name.to_string())).collect();
                        format!(
                            "\"ak\":\"adt\",\"adt\":{},\"variant\":{},\"vi\":{},\"fields\":[{}]",
                            esc(&self.path(*did)),
                            esc(&var.name.to_string()),
                            vidx.as_usize(),
                            fns.join(",")
                        )
                    }
                    AggregateKind::Tuple => "\"ak\":\"tuple\"".to_string(),
                    AggregateKind::Array(_) => "\"ak\":\"array\"".to_string(),
                    AggregateKind::Closure(d, _) => format!("\"ak\":\"closure\",\"def\":{}", esc(&self.path(*d))),
                    AggregateKind::Coroutine(d, _) => format!("\"ak\":\"coroutine\",\"def\":{}", esc(&self.path(*d))),
                    AggregateKind::CoroutineClosure(d, _) => {
                        format!("\"ak\":\"coroutine_closure\",\"def\":{}", esc(&self.path(*d)))
                    }
                    _ => "\"ak\":\"other\"".to_string(),
                };
                format!("{{\"k\":\"agg\",{},\"ops\":[{}]}}", head, opsj.join(","))
            }
            other => format!("{{\"k\":\"other\",\"d\":{}}}", esc(&trunc(format!("{:?}", other)))),
        }
    }

    fn unwind_json(&self, u: &UnwindAction) -> String {
        match u {
            UnwindAction::Cleanup(bb) => format!("{}", bb.as_usize()),
            _ => "null".to_string(),
        }
    }

    fn block_json(&self, owner: LocalDefId, body: &Body<'tcx>, id: usize, bb: &BasicBlockData<'tcx>) -> String {
        let tcx = self.tcx;
        let mut stmts: Vec<String> = Vec::new();
        for st in &bb.statements {
            match &st.kind {
                StatementKind::Assign(b) => {
                    let (place, rv) = &**b;
                    stmts.push(format!(
                        "{{\"k\":\"assign\",\"place\":{},\"rv\":{},{}}}",
                        self.place_json(body, place),
                        self.rvalue_json(owner, body, rv),
                        self.span_json(st.source_info.span)
                    ));
                }
                StatementKind::SetDiscriminant { place, variant_index } => {
                    stmts.push(format!(
                        "{{\"k\":\"setdiscr\",\"place\":{},\"vi\":{},{}}}",
                        self.place_json(body, place),
                        variant_index.as_usize(),
                        self.span_json(st.source_info.span)
                    ));
                }
                StatementKind::StorageDead(l) => {
                    stmts.push(format!("{{\"k\":\"dead\",\"l\":{}}}", l.as_usize()));
                }
                _ => {}
            }
        }
        let term = bb.terminator();
        let sp = self.span_json(term.source_info.span);
        let t = match &term.kind {
            TerminatorKind::Goto { target } => format!("{{\"k\":\"goto\",\"target\":{},{}}}", target.as_usize(), sp),
            TerminatorKind::SwitchInt { discr, targets } => {
                let mut ts: Vec<String> = Vec::new();
                for (v, bbt) in targets.iter() {
                    ts.push(format!("[{},{}]", v, bbt.as_usize()));
                }
                format!(
                    "{{\"k\":\"switch\",\"discr\":{},\"targets\":[{}],\"otherwise\":{},{}}}",
                    self.op_json(owner, body, discr),
                    ts.join(","),
                    targets.otherwise().as_usize(),
                    sp
                )
            }
            TerminatorKind::Return => format!("{{\"k\":\"return\",{}}}", sp),
            TerminatorKind::Unreachable => format!("{{\"k\":\"unreachable\",{}}}", sp),
            TerminatorKind::UnwindResume => format!("{{\"k\":\"resume\",{}}}", sp),
            TerminatorKind::UnwindTerminate(_) => format!("{{\"k\":\"terminate\",{}}}", sp),
            TerminatorKind::Drop { place, target, unwind, .. } => format!(
                "{{\"k\":\"drop\",\"place\":{},\"target\":{},\"unwind\":{},{}}}",
                self.place_json(body, place),
                target.as_usize(),
                self.unwind_json(unwind),
                sp
            ),
            TerminatorKind::Call { func, args, destination, target, unwind, .. } => {
                let fty = func.ty(&body.local_decls, tcx);
                let mut head = String::new();
                match fty.kind() {
                    ty::FnDef(did, gargs) => {
                        let _ = write!(head, "\"callee\":{}", esc(&self.path(*did)));
                        let _ = write!(head, ",\"inst\":{}", esc(&trunc(tcx.def_path_str_with_args(*did, gargs))));
                        if let Some(tr) = tcx.trait_of_assoc(*did) {
                            let _ = write!(head, ",\"trait\":{}", esc(&self.path(tr)));
                        }
                        let env = ty::TypingEnv::post_analysis(tcx, owner);
                        if let Ok(nargs) = tcx.try_normalize_erasing_regions(env, ty::Unnormalized::new_wip(*gargs)) {
                            if let Ok(Some(inst)) = ty::Instance::try_resolve(tcx, env, *did, nargs) {
                                let rd = inst.def_id();
                                if rd != *did {
                                    let _ = write!(head, ",\"resolved\":{}", esc(&self.path(rd)));
                                }
                            }
                        }
                        let targs: Vec<String> = gargs
                            .iter()
                            .filter_map(|a| a.as_type())
                            .map(|t| esc(&self.ty_str(t)))
                            .collect();
                        let _ = write!(head, ",\"targs\":[{}]", targs.join(","));
                    }
                    _ => {
                        let _ = write!(head, "\"callee\":null,\"fop\":{}", self.op_json(owner, body, func));
                        let _ = write!(head, ",\"fty\":{}", esc(&self.ty_str(fty)));
                    }
                }
                let aj: Vec<String> = args.iter().map(|a| self.op_json(owner, body, &a.node)).collect();
                let atys: Vec<String> = args
                    .iter()
                    .map(|a| esc(&self.ty_str(a.node.ty(&body.local_decls, tcx))))
                    .collect();
                format!(
                    "{{\"k\":\"call\",{},\"args\":[{}],\"atys\":[{}],\"dest\":{},\"target\":{},\"unwind\":{},{}}}",
                    head,
                    aj.join(","),
                    atys.join(","),
                    self.place_json(body, destination),
                    match target {
                        Some(t) => format!("{}", t.as_usize()),
                        None => "null".to_string(),
                    },
                    self.unwind_json(unwind),
                    sp
                )
            }
            TerminatorKind::Assert { cond, expected, msg, target, unwind } => format!(
                "{{\"k\":\"assert\",\"cond\":{},\"expected\":{},\"msg\":{},\"target\":{},\"unwind\":{},{}}}",
                self.op_json(owner, body, cond),
                expected,
                esc(&trunc(format!("{:?}", msg))),
                target.as_usize(),
                self.unwind_json(unwind),
                sp
            ),
            TerminatorKind::Yield { value, resume, resume_arg, drop } => format!(
                "{{\"k\":\"yield\",\"value\":{},\"target\":{},\"resume_arg\":{},\"drop\":{},{}}}",
                self.op_json(owner, body, value),
                resume.as_usize(),
                self.place_json(body, resume_arg),
                match drop {
                    Some(d) => format!("{}", d.as_usize()),
                    None => "null".to_string(),
                },
                sp
            ),
            TerminatorKind::CoroutineDrop => format!("{{\"k\":\"coroutine_drop\",{}}}", sp),
            TerminatorKind::FalseEdge { real_target, imaginary_target } => format!(
                "{{\"k\":\"false_edge\",\"target\":{},\"imaginary\":{},{}}}",
                real_target.as_usize(),
                imaginary_target.as_usize(),
                sp
            ),
            TerminatorKind::FalseUnwind { real_target, unwind } => format!(
                "{{\"k\":\"false_unwind\",\"target\":{},\"unwind\":{},{}}}",
                real_target.as_usize(),
                self.unwind_json(unwind),
                sp
            ),
            other => format!("{{\"k\":\"other\",\"d\":{},{}}}", esc(&trunc(format!("{:?}", other))), sp),
        };
        format!(
            "{{\"id\":{},\"cleanup\":{},\"stmts\":[{}],\"term\":{}}}",
            id,
            bb.is_cleanup,
            stmts.join(","),
            t
        )
    }

    fn body_core_json(&self, owner: LocalDefId, body: &Body<'tcx>) -> String {
        let mut locals: Vec<String> = Vec::new();
        for (_l, d) in body.local_decls.iter_enumerated() {
            let mut s = format!("{{\"ty\":{}", esc(&self.ty_str(d.ty)));
            if let Some(a) = self.adt_of(d.ty) {
                let _ = write!(s, ",\"adt\":{}", esc(&a));
            }
            if d.is_user_variable() {
                s.push_str(",\"user\":true");
            }
            s.push('}');
            locals.push(s);
        }
        let mut names: Vec<String> = Vec::new();
        for vdi in &body.var_debug_info {
            if let rustc_middle::mir::VarDebugInfoContents::Place(p) = &vdi.value {
                names.push(format!(
                    "{{\"name\":{},\"place\":{}}}",
                    esc(&vdi.name.to_string()),
                    self.place_json(body, p)
                ));
            }
        }
        let mut blocks: Vec<String> = Vec::new();
        for (bbid, bb) in body.basic_blocks.iter_enumerated() {
            blocks.push(self.block_json(owner, body, bbid.as_usize(), bb));
        }
        format!(
            "\"argc\":{},\"locals\":[{}],\"names\":[{}],\"blocks\":[{}]",
            body.arg_count,
            locals.join(","),
            names.join(","),
            blocks.join(",")
        )
    }

    fn dump_body(
        &self,
        def: LocalDefId,
        body: &Body<'tcx>,
        promoted: &[Body<'tcx>],
        out: &mut String,
        stats: &mut (usize, usize, usize),
    ) {
        let tcx = self.tcx;
        let did = def.to_def_id();
        let kind = tcx.def_kind(did);
        let mut o = String::new();
        let _ = write!(o, "{{\"def\":{},\"kind\":\"{:?}\"", esc(&self.path(did)), kind);
        // parent chain
        let parent = tcx.parent(did);
        let _ = write!(o, ",\"parent\":{}", esc(&self.path(parent)));
        let root = tcx.typeck_root_def_id(did);
        let _ = write!(o, ",\"root\":{}", esc(&self.path(root)));
        // impl info of the root fn
        let rparent = tcx.parent(root);
        match tcx.def_kind(rparent) {
            DefKind::Impl { of_trait } => {
                let st = tcx.type_of(rparent).instantiate_identity().skip_norm_wip();
                let _ = write!(o, ",\"impl_self\":{}", esc(&self.ty_str(st)));
                if let Some(a) = self.adt_of(st) {
                    let _ = write!(o, ",\"impl_adt\":{}", esc(&a));
                }
                if of_trait {
                    let tr = tcx.impl_trait_ref(rparent).instantiate_identity().skip_norm_wip();
                    let _ = write!(o, ",\"impl_trait\":{}", esc(&self.path(tr.def_id)));
                }
            }
            DefKind::Trait => {
                let _ = write!(o, ",\"in_trait\":{}", esc(&self.path(rparent)));
            }
            _ => {}
        }
        let sp = tcx.def_span(did);
        let full = body.span;
        let sm = tcx.sess.source_map();
        let cs = if full.from_expansion() { full.source_callsite() } else { full };
        let lo = sm.lookup_char_pos(cs.lo());
        let hi = sm.lookup_char_pos(cs.hi());
        let _ = write!(
            o,
            ",\"span\":{{\"file\":{},\"lo\":{},\"hi\":{}}}",
            esc(&format!("{}", lo.file.name.prefer_local_unconditionally())),
            lo.line,
            hi.line
        );
        if sp.from_expansion() {
            let ed = sp.ctxt().outer_expn_data();
            let mac = if let rustc_span::ExpnKind::Macro(_, name) = ed.kind {
                name.to_string()
            } else {
                format!("{:?}", ed.kind)
            };
            let _ = write!(o, ",\"exp_mac\":{}", esc(&mac));
        }
        if matches!(kind, DefKind::Fn | DefKind::AssocFn) {
            let sig = tcx.fn_sig(did).instantiate_identity().skip_norm_wip().skip_binder();
            let ins: Vec<String> = sig.inputs().iter().map(|t| esc(&self.ty_str(*t))).collect();
            let in_adts: Vec<String> = sig
                .inputs()
                .iter()
                .map(|t| match self.adt_of(*t) {
                    Some(a) => esc(&a),
                    None => "null".to_string(),
                })
                .collect();
            let mut selfk = "null".to_string();
            if kind == DefKind::AssocFn && tcx.associated_item(did).is_method() {
                if let Some(t0) = sig.inputs().first() {
                    selfk = match t0.kind() {
                        ty::Ref(_, _, m) => {
                            if m.is_mut() {
                                "\"refmut\"".to_string()
                            } else {
                                "\"ref\"".to_string()
                            }
                        }
                        _ => "\"value\"".to_string(),
                    };
                }
            }
            let _ = write!(
                o,
                ",\"sig\":{{\"self\":{},\"inputs\":[{}],\"input_adts\":[{}],\"output\":{},\"pub\":{}}}",
                selfk,
                ins.join(","),
                in_adts.join(","),
                esc(&self.ty_str(sig.output())),
                tcx.visibility(did).is_public()
            );
        }
        let _ = write!(o, ",{}", self.body_core_json(def, body));
        let mut proms: Vec<String> = Vec::new();
        for p in promoted.iter() {
            proms.push(format!("{{{}}}", self.body_core_json(def, p)));
        }
        let _ = write!(o, ",\"promoted\":[{}]}}", proms.join(","));
        stats.0 += 1;
        for bb in body.basic_blocks.iter() {
            stats.1 += bb.statements.len();
            if matches!(bb.terminator().kind, TerminatorKind::Call { .. }) {
                stats.2 += 1;
            }
        }
        out.push_str(&o);
        out.push('\n');
    }

    fn dump_adts(&self) -> String {
        let tcx = self.tcx;
        let mut adts: Vec<String> = Vec::new();
        for ld in tcx.hir_crate_items(()).definitions() {
            let did = ld.to_def_id();
            let kind = tcx.def_kind(did);
            if !matches!(kind, DefKind::Struct | DefKind::Enum | DefKind::Union) {
                continue;
            }
            let adt = tcx.adt_def(did);
            let mut vars: Vec<String> = Vec::new();
            for (vi, v) in adt.variants().iter_enumerated() {
                let mut fields: Vec<String> = Vec::new();
                for f in v.fields.iter() {
                    let fty = tcx.type_of(f.did).instantiate_identity().skip_norm_wip();
                    let mut s = format!(
                        "{{\"name\":{},\"ty\":{},\"pub\":{}",
                        esc(&f.name.to_string()),
                        esc(&self.ty_str(fty)),
                        f.vis.is_public()
                    );
                    if let Some(a) = self.adt_of(fty) {
                        let _ = write!(s, ",\"adt\":{}", esc(&a));
                    }
                    s.push('}');
                    fields.push(s);
                }
                let discr = if adt.is_enum() {
                    format!("{}", adt.discriminant_for_variant(tcx, vi).val)
                } else {
                    "0".to_string()
                };
                vars.push(format!(
                    "{{\"name\":{},\"discr\":{},\"fields\":[{}]}}",
                    esc(&v.name.to_string()),
                    discr,
                    fields.join(",")
                ));
            }
            let drop_fn = match adt.destructor(tcx) {
                Some(d) => esc(&self.path(d.did)),
                None => "null".to_string(),
            };
            let sp = tcx.def_span(did);
            let sm = tcx.sess.source_map();
            let cs = if sp.from_expansion() { sp.source_callsite() } else { sp };
            let lo = sm.lookup_char_pos(cs.lo());
            adts.push(format!(
                "{{\"def\":{},\"kind\":\"{:?}\",\"variants\":[{}],\"drop_fn\":{},\"file\":{},\"line\":{},\"exp\":{}}}",
                esc(&self.path(did)),
                kind,
                vars.join(","),
                drop_fn,
                esc(&format!("{}", lo.file.name.prefer_local_unconditionally())),
                lo.line,
                sp.from_expansion()
            ));
        }
        // trait impls
        let mut impls: Vec<String> = Vec::new();
        for ld in tcx.hir_crate_items(()).definitions() {
            let did = ld.to_def_id();
            if let DefKind::Impl { of_trait } = tcx.def_kind(did) {
                let st = tcx.type_of(did).instantiate_identity().skip_norm_wip();
                let tr = if of_trait {
                    let t = tcx.impl_trait_ref(did).instantiate_identity().skip_norm_wip();
                    esc(&self.path(t.def_id))
                } else {
                    "null".to_string()
                };
                let mut items: Vec<String> = Vec::new();
                for it in tcx.associated_items(did).in_definition_order() {
                    let mut s = format!("{{\"name\":{},\"def\":{}", esc(&it.name().to_string()), esc(&self.path(it.def_id)));
                    if let Some(t) = it.trait_item_def_id() {
                        let _ = write!(s, ",\"trait_item\":{}", esc(&self.path(t)));
                    }
                    s.push('}');
                    items.push(s);
                }
                let sp = tcx.def_span(did);
                let mut mac = String::new();
                if sp.from_expansion() {
                    let ed = sp.ctxt().outer_expn_data();
                    if let rustc_span::ExpnKind::Macro(_, name) = ed.kind {
                        mac = name.to_string();
                    }
                }
                impls.push(format!(
                    "{{\"def\":{},\"self_ty\":{},\"self_adt\":{},\"trait\":{},\"items\":[{}],\"mac\":{}}}",
                    esc(&self.path(did)),
                    esc(&self.ty_str(st)),
                    match self.adt_of(st) {
                        Some(a) => esc(&a),
                        None => "null".to_string(),
                    },
                    tr,
                    items.join(","),
                    esc(&mac)
                ));
            }
        }
        format!("{{\"adts\":[{}],\"impls\":[{}]}}", adts.join(",\n"), impls.join(",\n"))
    }
}

fn dump<'tcx>(tcx: TyCtxt<'tcx>) {
    let out_dir = match std::env::var("UMFACTS_OUT") {
        Ok(d) => d,
        Err(_) => return,
    };
    let cx = Cx { tcx };
    let crate_name = tcx.crate_name(LOCAL_CRATE).to_string();
    let mut out = String::new();
    let mut stats = (0usize, 0usize, 0usize);
    let mut skipped = 0usize;
    ty::print::with_no_trimmed_paths!({
        // pass 1: clone every body before anything evaluates a constant (const evaluation
        // steals the mir_promoted of the evaluated item and of const fns it calls)
        let mut cloned: Vec<(LocalDefId, Body<'tcx>, Vec<Body<'tcx>>)> = Vec::new();
        for def in tcx.hir_body_owners() {
            let kind = tcx.def_kind(def.to_def_id());
            match kind {
                DefKind::Fn
                | DefKind::AssocFn
                | DefKind::Closure
                | DefKind::Const { .. }
                | DefKind::AssocConst { .. }
                | DefKind::Static { .. } => {}
                _ => continue,
            }
            let (body_steal, promoted_steal) = tcx.mir_promoted(def);
            if body_steal.is_stolen() || promoted_steal.is_stolen() {
                skipped += 1;
                continue;
            }
            let b = body_steal.borrow().clone();
            let p: Vec<Body<'tcx>> = promoted_steal.borrow().iter().cloned().collect();
            cloned.push((def, b, p));
        }
        for (def, b, p) in &cloned {
            cx.dump_body(*def, b, p, &mut out, &mut stats);
        }
        let adts = cx.dump_adts();
        let _ = std::fs::create_dir_all(&out_dir);
        std::fs::write(format!("{}/{}.bodies.jsonl", out_dir, crate_name), out.as_bytes()).expect("write bodies");
        std::fs::write(format!("{}/{}.adts.json", out_dir, crate_name), adts.as_bytes()).expect("write adts");
        let header = format!(
            "{{\"crate\":{},\"rustc\":{},\"bodies\":{},\"statements\":{},\"calls\":{},\"skipped\":{}}}",
            esc(&crate_name),
            esc(&rustc_interface::util::rustc_version_str().unwrap_or("unknown").to_string()),
            stats.0,
            stats.1,
            stats.2,
            skipped
        );
        std::fs::write(format!("{}/{}.header.json", out_dir, crate_name), header.as_bytes()).expect("write header");
    });
}

struct Cb;

impl rustc_driver::Callbacks for Cb {
    fn after_expansion<'tcx>(
        &mut self,
        _c: &rustc_interface::interface::Compiler,
        tcx: TyCtxt<'tcx>,
    ) -> rustc_driver::Compilation {
        dump(tcx);
        rustc_driver::Compilation::Continue
    }
}

fn main() {
    let mut args: Vec<String> = std::env::args().collect();
    // RUSTC_WORKSPACE_WRAPPER: argv[1] is the path of the real rustc
    if args.len() > 1 && (args[1].ends_with("rustc") || args[1].ends_with("rustc.exe")) {
        args.remove(1);
    }
    rustc_driver::run_compiler(&args, &mut Cb);
}
